"""C19 - the simulated OS and the real OS give the shell the same observable behaviour.

Decided here (structural clauses, DESIGN.md 4/C19): the two implementations expose the
same trait family with the same overridden items; the real half's translation tables are
the libc ones by name (flags, file types, dispositions, errno, signals, mode bits, seek
whence, sigprocmask how, wait status macros, rlimit names); every `impl X for RealSystem`
method calls the libc function of the table with the caller's arguments in the libc order
and turns -1 / NULL into `Errno::last()`; the virtual `open` consults every `OpenFlag`
that the real side forwards to the kernel (or the flag is listed as ignored); and the
simulated kernel implements the POSIX error returns of the error classes the property
enumerates (missing file, closed descriptor, directory in place of a file) as guarded
returns of the right errno.

Not decided: behavioural equality of the two kernels - the property proper."""
from engine import RuleSet
import hirq as H
import mirq as Q
import pp
import re

RS = RuleSet(
    'C19',
    explanation=(
        'Item, table and guard rules over the HIR of yash-env::system: RealSystem and VirtualSystem implement the '
        'same set of system traits and override the same items of each (no default method silently used on one '
        'side only); every real-side translation table maps each portable value to the libc constant of the same '
        'name and back (OfdAccess/OpenFlag <-> O_*, FileType and Stat::is_* <-> S_IF*, Disposition <-> SIG_DFL/'
        'SIG_IGN/handler, Errno::E* = libc::E*, Signals::SIG* = libc::SIG*, Mode bits = POSIX S_I* values, '
        'SeekFrom -> SEEK_*, SigmaskOp -> SIG_BLOCK/UNBLOCK/SETMASK, Resource -> RLIMIT_*, wait status macros -> '
        'ProcessState constructors); every `impl X for RealSystem` method calls the libc function of the reference '
        'table, passes the trait arguments in the libc parameter order with the fcntl/at-flag constants of the '
        'table, and converts the -1/NULL failure value through Errno::last(); the virtual open tests every '
        'OpenFlag the real side passes to the kernel, except the reviewed ignore list, and wires Append/NonBlock/'
        'CloseOnExec to the open file description / descriptor flag; and for the enumerated (call, condition -> '
        'errno) table of POSIX error returns (open: ENOENT, EEXIST, ENOTDIR, EISDIR; descriptor calls: EBADF; '
        'close of an unopened descriptor: Ok on both sides) the simulated kernel has an error return of that '
        'errno nested under the tests of that condition.'),
    not_decided='behavioural equality of the two kernels on arbitrary scripts (scheduling, pipe capacity, signal '
                'delivery, permission checks, symlink resolution); C19.R5 (fork copies what the kernel copies) is '
                'decided by C08.R7; numeric values of libc constants (name correspondence is the oracle)',
    trusted=['libc crate constant and function names as the oracle for the real half',
             'POSIX <sys/stat.h> numeric values of the S_I* permission bits transcribed in rules/C19.py',
             'POSIX ERRORS sections of open/read/write/dup/dup2/fcntl/lseek/close transcribed in rules/C19.py '
             '(only the rows the property enumerates)'],
    assumptions=['facts are extracted for the host target (linux): cfg-dependent cells are checked for this target only',
                 'guard rules are structural: an error return nested under the tests of a condition is taken to '
                 'be reachable whenever its enclosing statement is',
                 'OpenFlag::NoCtty, NoFollow and Sync are ignored by the simulator (no controlling terminal, no '
                 'storage; symlinks are followed by path resolution only for fstatat/chdir)'],
)

SYS = 'yash_env::system::'
REAL = 'yash_env::system::real::RealSystem'
VIRT = 'yash_env::system::r#virtual::VirtualSystem'
ERRNO = 'yash_env::system::errno::Errno'


# ------------------------------------------------------------------ small HIR helpers
def last(p):
    return p.split('::')[-1] if isinstance(p, str) else p


def is_libc(p):
    return isinstance(p, str) and p.startswith('libc::')


def libc_name(node):
    """Last segment of a path node that resolves into the libc crate, else None."""
    node = unwrap(node)
    if isinstance(node, dict) and node.get('k') == 'path' and is_libc(node.get('def')):
        return last(node['def'])
    return None


def unwrap(n):
    """Strip statement-less blocks, references and casts."""
    while isinstance(n, dict):
        n2 = H.peel(n)
        if isinstance(n2, dict) and n2.get('k') == 'cast':
            n2 = n2['a']
        if n2 is n:
            return n
        n = n2
    return n


def hloc(h, node=None):
    line = (node or {}).get('line') if isinstance(node, dict) else None
    return '%s:%s' % (h['file'], line or h['line'])


def parents_of(root):
    """id(child) -> parent node, for every HIR node below root (match arms are
    transparent: the parent of an arm body / guard is the match node)."""
    par = {}
    for n in H.walk(root):
        for c in H.children(n):
            par[id(c)] = n
    return par


def callee(n):
    return n.get('def') or n.get('decl') or ''


def call_args(n):
    """Receiver (for method calls) followed by the arguments."""
    return ([n['recv']] if n.get('k') == 'mcall' else []) + list(n.get('a') or [])


def pat_keys(p):
    """Top-level alternatives of a pattern: variant/const paths, ('lit', v), '_' or 'bind'."""
    k = p.get('k')
    if k == 'wild':
        return ['_']
    if k == 'bind':
        return pat_keys(p['sub']) if p.get('sub') else ['_']
    if k in ('pref', 'pderef', 'pbox'):
        return pat_keys(p['sub'])
    if k == 'por':
        out = []
        for a in p['alts']:
            out.extend(pat_keys(a))
        return out
    if k in ('pstruct', 'ptuplestruct'):
        return [p['p'].get('def')]
    if k == 'pexpr':
        e = p['e']
        if e.get('k') == 'path':
            return [e.get('def')]
        if e.get('k') == 'lit':
            v = e.get('v')
            return [('lit', -v if e.get('neg') and isinstance(v, int) else v)]
    return [('opaque', k)]


def value_key(node):
    """Canonical cell value: 'None' | ('Some', x) | libc const name | variant name | fn name."""
    v = H.const_eval(node)
    return _vk(v)


def _vk(v):
    if isinstance(v, tuple) and v and v[0] == 'path':
        d = v[1]
        return ('libc', last(d)) if is_libc(d) else last(d)
    if isinstance(v, tuple) and v and v[0] == 'ctor':
        return (last(v[1]),) + tuple(_vk(x) for x in v[2])
    if isinstance(v, tuple) and v and v[0] == 'call':
        return ('call', last(v[1])) + tuple(_vk(x) for x in v[2])
    return v


def the_fn(cx, suffix, where=None):
    F = cx.F
    ks = [k for k in F.hir if k.endswith(suffix) and (where is None or where in k)]
    cx.require(len(ks) == 1, 'expected one function %s, found %d' % (suffix, len(ks)))
    cx.fn(ks[0])
    return ks[0], F.hir[ks[0]]


def normal_matches(h, pred=None):
    return [m for m in H.matches_in(h['body']) if m.get('src') == 'Normal' and not m.get('exp') and (pred is None or pred(m))]


def masked_by(node, mask):
    """node is `<expr> & libc::<mask>` (either operand order)."""
    n = unwrap(node)
    if not (isinstance(n, dict) and n.get('k') == 'binary' and n.get('op') == '&'):
        return False
    return libc_name(n['a']) == mask or libc_name(n['b']) == mask


# ------------------------------------------------------------------ R1
FAMILY_EXCLUDE = ()  # every trait declared under yash_env::system is part of the family


def _family(F, adt):
    out = {}
    for i in F.impls:
        if i.get('self_adt') != adt:
            continue
        t = i.get('trait_def')
        if not t or not t.startswith(SYS) or t in FAMILY_EXCLUDE:
            continue
        items = {(it['kind'], it['name']) for it in i['items'] if it.get('name')}
        out[t] = (items, i)
    return out


@RS.rule('C19.R1', 'K-TYPE', 'RealSystem and VirtualSystem implement the same system traits and override the same items of each')
def r1(cx):
    F = cx.F
    real = _family(F, REAL)
    virt = _family(F, VIRT)
    cx.require(len(real) >= 30 and len(virt) >= 30, 'system trait impls not found (real %d, virtual %d)' % (len(real), len(virt)))
    for t in sorted(set(real) | set(virt)):
        tn = last(t)
        if t not in real or t not in virt:
            side, imp = ('RealSystem', virt[t][1]) if t not in real else ('VirtualSystem', real[t][1])
            cx.site('trait %s: implemented on one side only' % tn)
            cx.violation(t, 'missing-impl:%s' % side, 'system trait %s is not implemented for %s: code generic over the '
                         'trait family cannot run on both systems' % (tn, side), loc='%s:%s' % (imp['file'], imp['line']))
            continue
        ri, vi = real[t][0], virt[t][0]
        decl = F.traits.get(t)
        cx.require(decl is not None, 'trait declaration %s not in facts' % t)
        defaults = {it['name'] for it in decl['items'] if it.get('default')}
        cx.site('trait %s: %d items overridden on both sides, %d provided items' % (tn, len(ri & vi), len(defaults)))
        cx.cellcount(len(ri | vi))
        for kind, name in sorted(ri ^ vi):
            side = 'RealSystem' if (kind, name) in ri else 'VirtualSystem'
            other = 'VirtualSystem' if side == 'RealSystem' else 'RealSystem'
            imp = (real if side == 'RealSystem' else virt)[t][1]
            cx.violation(t, 'override-one-side:%s:%s' % (name, side),
                         '%s::%s is overridden for %s only; %s silently uses the provided default, so the two systems '
                         'can answer differently' % (tn, name, side, other), loc='%s:%s' % (imp['file'], imp['line']))
    cx.sample({'traits': len(real), 'example': sorted(last(t) for t in real)[:6]})


# ------------------------------------------------------------------ R2 translation tables
OPEN_FLAG = {'Append': 'O_APPEND', 'CloseOnExec': 'O_CLOEXEC', 'Create': 'O_CREAT', 'Directory': 'O_DIRECTORY',
             'Exclusive': 'O_EXCL', 'NoCtty': 'O_NOCTTY', 'NoFollow': 'O_NOFOLLOW', 'NonBlock': 'O_NONBLOCK',
             'Sync': 'O_SYNC', 'Truncate': 'O_TRUNC'}
OFD_ACCESS = {'ReadOnly': 'O_RDONLY', 'WriteOnly': 'O_WRONLY', 'ReadWrite': 'O_RDWR', 'Exec': None, 'Search': None}
FILE_TYPE = {'S_IFREG': 'Regular', 'S_IFDIR': 'Directory', 'S_IFLNK': 'Symlink', 'S_IFIFO': 'Fifo',
             'S_IFBLK': 'BlockDevice', 'S_IFCHR': 'CharacterDevice', 'S_IFSOCK': 'Socket'}
STAT_IS = {'is_regular_file': 'S_IFREG', 'is_directory': 'S_IFDIR', 'is_symlink': 'S_IFLNK', 'is_fifo': 'S_IFIFO',
           'is_block_device': 'S_IFBLK', 'is_character_device': 'S_IFCHR', 'is_socket': 'S_IFSOCK'}
DISPOSITION = {'Default': ('libc', 'SIG_DFL'), 'Ignore': ('libc', 'SIG_IGN'), 'Catch': 'catch_signal'}
SIGMASK_OP = {'Add': 'SIG_BLOCK', 'Remove': 'SIG_UNBLOCK', 'Set': 'SIG_SETMASK'}
SEEK = {'Start': 'SEEK_SET', 'End': 'SEEK_END', 'Current': 'SEEK_CUR'}
# POSIX <sys/stat.h>: numeric values of the permission bits are fixed by the standard
MODE_BITS = {'USER_READ': 0o400, 'USER_WRITE': 0o200, 'USER_EXEC': 0o100, 'USER_ALL': 0o700,
             'GROUP_READ': 0o040, 'GROUP_WRITE': 0o020, 'GROUP_EXEC': 0o010, 'GROUP_ALL': 0o070,
             'OTHER_READ': 0o004, 'OTHER_WRITE': 0o002, 'OTHER_EXEC': 0o001, 'OTHER_ALL': 0o007,
             'ALL_READ': 0o444, 'ALL_WRITE': 0o222, 'ALL_EXEC': 0o111, 'ALL_9': 0o777,
             'SET_USER_ID': 0o4000, 'SET_GROUP_ID': 0o2000, 'STICKY': 0o1000}
# wait status macro -> (value macros used in the branch, constructor of the branch)
WAIT_STATUS = {'WIFCONTINUED': ((), 'Running'), 'WIFEXITED': (('WEXITSTATUS',), 'exited'),
               'WIFSIGNALED': (('WTERMSIG', 'WCOREDUMP'), 'Signaled'), 'WIFSTOPPED': (('WSTOPSIG',), 'stopped')}
WAIT_OPTIONS = {'WUNTRACED', 'WCONTINUED', 'WNOHANG'}


def _enum_table(cx, fn, h, adt):
    """{variant short name: value_key(arm body)} of the single match over `adt` in fn."""
    table, m = H.fn_match_table(cx.F, fn, adt)
    return {v: value_key(body) for v, (i, body) in table.items()}, m


def _cell(cx, fn, h, table, key, got, want, what):
    cx.cellcount(1)
    if got != want:
        cx.violation(fn, '%s:%s' % (table, key), '%s: %s must translate to %s, found %s' % (what, key, _fmt(want), _fmt(got)),
                     loc=hloc(h))


def _fmt(v):
    if isinstance(v, tuple) and v and v[0] == 'libc':
        return 'libc::%s' % v[1]
    if isinstance(v, tuple) and v and v[0] in ('Some', 'Ok', 'Err'):
        return '%s(%s)' % (v[0], ', '.join(_fmt(x) for x in v[1:]))
    return str(v)


@RS.rule('C19.R2', 'K-TABLE', 'real-side translation tables map every portable value to the libc constant of the same name, and back')
def r2(cx):
    F = cx.F
    # -- OfdAccess <-> O_RDONLY / O_WRONLY / O_RDWR
    fn, h = the_fn(cx, '<impl yash_env::system::file_system::OfdAccess>::to_real_flag')
    to_tab, _ = _enum_table(cx, fn, h, SYS + 'file_system::OfdAccess')
    for v in sorted(to_tab):
        cx.require(v in OFD_ACCESS, 'OfdAccess::%s has no row in the reference table of rules/C19.py' % v)
        want = ('Some', ('libc', OFD_ACCESS[v])) if OFD_ACCESS[v] else 'None'
        _cell(cx, fn, h, 'OfdAccess.to_real_flag', v, to_tab[v], want, 'access mode passed to open(2)')
    cx.sample({'OfdAccess.to_real_flag': {k: _fmt(v) for k, v in to_tab.items()}})
    fn2, h2 = the_fn(cx, '<impl yash_env::system::file_system::OfdAccess>::from_real_flag')
    ms = normal_matches(h2)
    cx.require(len(ms) == 1, 'from_real_flag: expected one match')
    m = ms[0]
    cx.cellcount(1)
    if not masked_by(m['scrut'], 'O_ACCMODE'):
        cx.violation(fn2, 'OfdAccess.from_real_flag:mask', 'the access mode must be extracted with `flags & O_ACCMODE` before '
                     'it is compared (file status flags share the word)', loc=hloc(h2, m))
    back = {}
    wild = None
    for arm in m['arms']:
        for key in pat_keys(arm['pat']):
            val = value_key(arm['body'])
            if key == '_':
                wild = val
            elif is_libc(key):
                back.setdefault(last(key), val)
            else:
                cx.violation(fn2, 'OfdAccess.from_real_flag:pattern', 'arm pattern %s is not a libc constant' % (key,), loc=hloc(h2, arm))
    for v, c in sorted(OFD_ACCESS.items()):
        if c:
            _cell(cx, fn2, h2, 'OfdAccess.from_real_flag', c, back.get(c), v, 'access mode read back with fcntl(F_GETFL) (inverse of to_real_flag)')
    cx.cellcount(1)
    if wild is None or OFD_ACCESS.get(wild, 'x') is not None:
        cx.violation(fn2, 'OfdAccess.from_real_flag:_', 'an unknown access mode must map to a mode the real side cannot open '
                     'with (Exec/Search), found %s' % (wild,), loc=hloc(h2))
    # -- OpenFlag -> O_*
    fn, h = the_fn(cx, '<impl yash_env::system::file_system::OpenFlag>::to_real_flag')
    tab, _ = _enum_table(cx, fn, h, SYS + 'file_system::OpenFlag')
    for v in sorted(tab):
        cx.require(v in OPEN_FLAG, 'OpenFlag::%s has no row in the reference table of rules/C19.py' % v)
        _cell(cx, fn, h, 'OpenFlag.to_real_flag', v, tab[v], ('Some', ('libc', OPEN_FLAG[v])), 'flag passed to open(2)')
    cx.sample({'OpenFlag.to_real_flag': {k: _fmt(v) for k, v in list(tab.items())[:4]}})
    # -- FileType::from_raw and Stat::is_*
    fn, h = the_fn(cx, '<impl yash_env::system::file_system::FileType>::from_raw', where='::real::')
    ms = normal_matches(h)
    cx.require(len(ms) == 1, 'FileType::from_raw: expected one match')
    m = ms[0]
    cx.cellcount(1)
    if not masked_by(m['scrut'], 'S_IFMT'):
        cx.violation(fn, 'FileType.from_raw:mask', 'the file type must be extracted with `mode & S_IFMT`', loc=hloc(h, m))
    got = {}
    wild = None
    for arm in m['arms']:
        for key in pat_keys(arm['pat']):
            if key == '_':
                wild = value_key(arm['body'])
            elif is_libc(key):
                got.setdefault(last(key), value_key(arm['body']))
    for c, v in sorted(FILE_TYPE.items()):
        _cell(cx, fn, h, 'FileType.from_raw', c, got.get(c), v, 'st_mode file type')
    for c in sorted(set(got) - set(FILE_TYPE)):
        _cell(cx, fn, h, 'FileType.from_raw', c, got[c], None, 'st_mode file type (no such row in the reference table)')
    _cell(cx, fn, h, 'FileType.from_raw', '_', wild, 'Other', 'unknown st_mode file type')
    stat_impls = [i for i in F.impls if i.get('self_adt') == SYS + 'real::file_system::Stat'
                  and i.get('trait_def') == SYS + 'file_system::Stat']
    cx.require(len(stat_impls) == 1, 'impl Stat for real::file_system::Stat not found')
    have = {it['name']: it['def'] for it in stat_impls[0]['items'] if it['kind'] == 'Fn'}
    for name, const in sorted(STAT_IS.items()):
        if name not in have:
            continue  # the provided method (r#type() == ...) is used; FileType::from_raw is checked above
        hh = F.hir_of(have[name])
        cx.fn(have[name])
        eqs = [x for x in H.walk(hh['body']) if x.get('k') == 'binary' and x.get('op') == '==']
        ok = len(eqs) == 1 and ((masked_by(eqs[0]['a'], 'S_IFMT') and libc_name(eqs[0]['b']) == const) or
                                (masked_by(eqs[0]['b'], 'S_IFMT') and libc_name(eqs[0]['a']) == const))
        cx.cellcount(1)
        if not ok:
            cx.violation(have[name], 'Stat.%s' % name, 'real Stat::%s must test `st_mode & S_IFMT == %s`' % (name, const), loc=hloc(hh))
    # -- Disposition <-> SIG_DFL / SIG_IGN / handler
    fn, h = the_fn(cx, '<impl yash_env::system::signal::Disposition>::to_sigaction')
    tab, _ = _enum_table(cx, fn, h, SYS + 'signal::Disposition')
    for v in sorted(tab):
        cx.require(v in DISPOSITION, 'Disposition::%s has no row in the reference table' % v)
        _cell(cx, fn, h, 'Disposition.to_sigaction', v, tab[v], DISPOSITION[v], 'signal handler installed by sigaction(2)')
    fn, h = the_fn(cx, '<impl yash_env::system::signal::Disposition>::from_sigaction')
    ms = normal_matches(h)
    cx.require(len(ms) == 1, 'Disposition::from_sigaction: expected one match')
    got = {}
    for arm in ms[0]['arms']:
        for key in pat_keys(arm['pat']):
            got.setdefault(last(key) if isinstance(key, str) else key, value_key(arm['body']))
    _cell(cx, fn, h, 'Disposition.from_sigaction', 'SIG_DFL', got.get('SIG_DFL'), 'Default', 'handler read back from sigaction(2)')
    _cell(cx, fn, h, 'Disposition.from_sigaction', 'SIG_IGN', got.get('SIG_IGN'), 'Ignore', 'handler read back from sigaction(2)')
    _cell(cx, fn, h, 'Disposition.from_sigaction', '_', got.get('_'), 'Catch', 'handler read back from sigaction(2)')
    # -- SigmaskOp -> how
    fn, h = the_fn(cx, '<%s as %ssignal::Sigmask>::sigmask' % (REAL, SYS))
    tab, _ = _enum_table(cx, fn, h, SYS + 'signal::SigmaskOp')
    for v in sorted(tab):
        cx.require(v in SIGMASK_OP, 'SigmaskOp::%s has no row in the reference table' % v)
        _cell(cx, fn, h, 'SigmaskOp', v, tab[v], ('libc', SIGMASK_OP[v]), '`how` passed to sigprocmask(2)')
    # -- SeekFrom -> whence
    fn, h = the_fn(cx, '<%s as %sfile_system::Seek>::lseek' % (REAL, SYS))
    ms = normal_matches(h, lambda m: (m.get('sty') or '').endswith('SeekFrom'))
    cx.require(len(ms) == 1, 'lseek: match over SeekFrom not found')
    for arm in ms[0]['arms']:
        keys = pat_keys(arm['pat'])
        consts = sorted({libc_name(x) for x in H.walk(arm['body']) if libc_name(x)})
        for key in keys:
            v = last(key) if isinstance(key, str) else key
            cx.require(v in SEEK, 'SeekFrom pattern %s has no row in the reference table' % (v,))
            _cell(cx, fn, h, 'SeekFrom', v, consts, [SEEK[v]], '`whence` passed to lseek(2)')
    # -- Resource -> RLIMIT_*
    fn, h = the_fn(cx, '<impl yash_env::system::resource::Resource>::as_raw_type')
    tab, _ = _enum_table(cx, fn, h, SYS + 'resource::Resource')
    n_some = 0
    for v in sorted(tab):
        if tab[v] == 'None':
            cx.cellcount(1)
            continue
        n_some += 1
        _cell(cx, fn, h, 'Resource.as_raw_type', v, tab[v], ('Some', ('libc', 'RLIMIT_' + v)), 'resource passed to getrlimit/setrlimit')
    cx.floor(n_some, 8, 'resources translated to RLIMIT_* constants')
    # -- Errno::E* = libc::E*
    n = 0
    for k in sorted(F.hir):
        if not k.startswith(ERRNO + '::') or not F.hir[k]['kind'].startswith('AssocConst'):
            continue
        name = last(k)
        v = value_key(F.hir[k]['body'])
        if name == 'NO_ERROR':
            _cell(cx, k, F.hir[k], 'Errno', name, v, ('Errno', 0), 'errno constant')
            continue
        n += 1
        _cell(cx, k, F.hir[k], 'Errno', name, v, ('Errno', ('libc', name)), 'errno constant')
    cx.floor(n, 60, 'Errno::E* constants')
    cx.site('Errno: %d named constants compared with libc::E*' % n)
    # -- Signals::SIG* = libc::SIG*
    sig_impl = [i for i in F.impls if i.get('self_adt') == REAL and i.get('trait_def') == SYS + 'signal::Signals']
    cx.require(len(sig_impl) == 1, 'impl Signals for RealSystem not found')
    n = 0
    for it in sig_impl[0]['items']:
        if it['kind'] != 'Const':
            continue
        hh = F.hir_of(it['def'])
        v = value_key(hh['body'])
        name = it['name']
        n += 1
        ok = v in (('call', 'to_signal_number', ('libc', name)), ('Some', ('call', 'to_signal_number', ('libc', name))), 'None')
        cx.cellcount(1)
        if not ok:
            cx.violation(it['def'], 'Signals:%s' % name, 'RealSystem::%s must be libc::%s (or None where the platform lacks it), '
                         'found %s' % (name, name, _fmt(v)), loc=hloc(hh))
    cx.floor(n, 30, 'Signals::SIG* constants of RealSystem')
    cx.site('Signals: %d constants of RealSystem compared with libc::SIG*' % n)
    fn, h = the_fn(cx, 'yash_env::system::real::to_signal_number')
    calls = sorted(last(callee(c)) for c in H.calls(h['body']))
    ariths = [x for x in H.walk(h['body']) if x.get('k') in ('binary', 'unary', 'lit')]
    cx.cellcount(1)
    if ariths or calls != ['from_raw_unchecked', 'new', 'unwrap']:
        cx.violation(fn, 'Signals:to_signal_number', 'to_signal_number must wrap the raw libc number unchanged (found calls %s, '
                     '%d arithmetic/literal nodes)' % (calls, len(ariths)), loc=hloc(h))
    # -- Mode bits (passed raw to open(2)/umask(2), read raw from st_mode)
    n = 0
    for k in sorted(F.hir):
        if '<impl yash_env::system::file_system::Mode>::' not in k or not F.hir[k]['kind'].startswith('AssocConst'):
            continue
        name = last(k)
        v = H.const_eval(F.hir[k]['body'])
        bits = v[2][0] if isinstance(v, tuple) and v[0] == 'call' and last(v[1]) == 'from_bits_retain' else v
        cx.require(name in MODE_BITS, 'Mode::%s has no row in the reference table' % name)
        n += 1
        cx.cellcount(1)
        if bits != MODE_BITS[name]:
            cx.violation(k, 'Mode:%s' % name, 'Mode::%s is passed unconverted to open(2)/umask(2): it must have the POSIX value %o, '
                         'found %s' % (name, MODE_BITS[name], oct(bits) if isinstance(bits, int) else bits), loc=hloc(F.hir[k]))
    cx.floor(n, 19, 'Mode bit constants')
    cx.site('Mode: %d bit constants compared with the POSIX S_I* values' % n)
    # -- wait status decoding
    fn, h = the_fn(cx, '<%s as %sprocess::Wait>::wait' % (REAL, SYS))
    opts = None
    for st in H.walk(h['body']):
        if st.get('k') == 'call' and last(callee(st)) == 'waitpid' and is_libc(callee(st)):
            a = unwrap(st['a'][2])
            if a.get('k') == 'local':
                for l in H.walk(h['body']):
                    if l.get('k') == 'let' and l['pat'].get('k') == 'bind' and l['pat'].get('name') == a['name'] and l.get('init'):
                        opts = {libc_name(x) for x in H.walk(l['init']) if libc_name(x)}
            else:
                opts = {libc_name(x) for x in H.walk(a) if libc_name(x)}
    cx.cellcount(1)
    if opts != WAIT_OPTIONS:
        cx.violation(fn, 'wait:options', 'waitpid must be called with WUNTRACED|WCONTINUED|WNOHANG (stopped and continued children '
                     'reported, never blocking), found %s' % sorted(opts or []), loc=hloc(h))
    seen = {}
    for x in H.walk(h['body']):
        if x.get('k') == 'if':
            c = unwrap(x['c'])
            if c.get('k') == 'call' and is_libc(callee(c)) and last(callee(c)) in WAIT_STATUS:
                macro = last(callee(c))
                used = {last(callee(y)) for y in H.calls(x['t']) if is_libc(callee(y))}
                ctors = {last(callee(y)) for y in H.calls(x['t'])} | \
                        {last(y.get('def') or '') for y in H.walk(x['t']) if y.get('k') == 'path'} | \
                        {last(y['p'].get('def') or '') for y in H.walk(x['t']) if y.get('k') == 'struct'}
                seen[macro] = (used, ctors, x)
    for macro, (vals, ctor) in sorted(WAIT_STATUS.items()):
        cx.cellcount(1)
        if macro not in seen:
            cx.violation(fn, 'wait:%s' % macro, 'wait status is not tested with %s' % macro, loc=hloc(h))
            continue
        used, ctors, node = seen[macro]
        if used != set(vals) or ctor not in ctors:
            cx.violation(fn, 'wait:%s' % macro, 'the %s branch must decode with %s and build ProcessState/%s (found macros %s)'
                         % (macro, list(vals), ctor, sorted(used)), loc=hloc(h, node))


# ------------------------------------------------------------------ R3 real wiring
# method -> list of (libc function, [argument spec per libc parameter], failure conversion)
# argument spec: ('p', i) = `.0` of (or the bare) i-th trait parameter (0 = self); ('c', NAME) = libc constant NAME;
#                ('c?', {..}) = one of the libc constants, selected by an `if`; None = not checked
# conversion: 'm1' = result is the receiver of errno_if_m1; 'null' = NULL result leads to Errno::last();
#             'last' = Errno::last() is read after the call; 'none' = the libc function cannot fail
P = lambda i: ('p', i)
C = lambda n: ('c', n)
REAL_WIRING = {
    'Fstat::fstat': [('fstat', [P(1), None], 'm1')],
    'Fstat::fstatat': [('fstatat', [P(1), P(2), None, None], 'm1')],
    'Pipe::pipe': [('pipe', [None], 'm1')],
    'Dup::dup': [('fcntl', [P(1), ('c?', {'F_DUPFD', 'F_DUPFD_CLOEXEC'}), P(2)], 'm1')],
    'Dup::dup2': [('dup2', [P(1), P(2)], 'm1')],
    'Open::open': [('open', [P(1), None, None], 'm1')],
    'Open::fdopendir': [('fdopendir', [P(1)], 'null')],
    'Open::opendir': [('opendir', [P(1)], 'null')],
    'Close::close': [('close', [P(1)], 'm1')],
    'Fcntl::ofd_access': [('fcntl', [P(1), C('F_GETFL')], 'm1')],
    'Fcntl::get_and_set_nonblocking': [('fcntl', [P(1), C('F_GETFL')], 'm1'), ('fcntl', [P(1), C('F_SETFL'), None], 'm1')],
    'Fcntl::fcntl_getfd': [('fcntl', [P(1), C('F_GETFD')], 'm1')],
    'Fcntl::fcntl_setfd': [('fcntl', [P(1), C('F_SETFD'), None], 'm1')],
    'Read::read': [('read', [P(1), P(2), P(2)], 'm1')],
    'Write::write': [('write', [P(1), P(2), P(2)], 'm1')],
    'Seek::lseek': [('lseek', [P(1), None, None], 'm1')],
    'Umask::umask': [('umask', [P(1)], 'none')],
    'GetCwd::getcwd': [('getcwd', [None, None], 'null')],
    'Chdir::chdir': [('chdir', [P(1)], 'm1')],
    'Times::times': [('getrusage', [C('RUSAGE_SELF'), None], 'm1'), ('getrusage', [C('RUSAGE_CHILDREN'), None], 'm1')],
    'GetPid::getsid': [('getsid', [P(1)], 'm1')],
    'GetPid::getpid': [('getpid', [], 'none')],
    'GetPid::getppid': [('getppid', [], 'none')],
    'GetPid::getpgrp': [('getpgrp', [], 'none')],
    'SetPgid::setpgid': [('setpgid', [P(1), P(2)], 'm1')],
    'Sigmask::sigmask': [('sigprocmask', [None, None, None], 'm1')],
    'SendSignal::kill': [('kill', [P(1), None], 'm1')],
    'SendSignal::raise': [('raise', [None], 'm1')],
    'Select::select': [('pselect', [None, None, None, None, None, None], 'm1')],
    'Isatty::isatty': [('isatty', [P(1)], 'none')],
    'TcGetPgrp::tcgetpgrp': [('tcgetpgrp', [P(1)], 'm1')],
    'TcSetPgrp::tcsetpgrp': [('tcsetpgrp', [P(1), P(2)], 'm1')],
    'Fork::run_in_child_process': [('fork', [], 'm1')],
    'Wait::wait': [('waitpid', [P(1), None, None], 'last')],
    'Exec::execve': [('execve', [P(1), None, None], 'last')],
    'Exit::exit': [('_exit', [P(1)], 'none')],
    'GetUid::getuid': [('getuid', [], 'none')],
    'GetUid::geteuid': [('geteuid', [], 'none')],
    'GetUid::getgid': [('getgid', [], 'none')],
    'GetUid::getegid': [('getegid', [], 'none')],
    'GetPw::getpwnam_dir': [('getpwnam', [P(1)], 'null')],
    'Sysconf::confstr_path': [('confstr', [C('_CS_PATH'), None, None], 'last'), ('confstr', [C('_CS_PATH'), None, None], 'last')],
    'GetRlimit::getrlimit': [('getrlimit', [None, None], 'm1')],
    'SetRlimit::setrlimit': [('setrlimit', [None, None], 'm1')],
}
# methods of the family that legitimately make no direct libc call, with the reason
REAL_NO_LIBC = {
    'RunLoop::run_loop': 'event loop built from the other traits',
    'IsExecutableFile::is_executable_file': 'fstatat + has_execute_permission helper (faccessat), checked separately',
    'Open::open_tmpfile': 'tempfile crate',
    'Clock::now': 'std::time::Instant',
    'Signals::sigrt_range': 'real::signal::rt_range (SIGRTMIN/SIGRTMAX)',
    'GetSigaction::get_sigaction': 'sigaction_impl helper, checked separately',
    'Sigaction::sigaction': 'sigaction_impl helper, checked separately',
    'CaughtSignals::caught_signals': 'reads the static slots filled by the signal handler',
    'ShellPath::shell_path': 'built from is_executable_file and confstr_path',
}
HELPER_WIRING = {
    'yash_env::system::real::sigaction_impl': [('sigemptyset', [None], 'm1'), ('sigaction', [None, None, None], 'm1')],
    'yash_env::system::real::RealSystem::has_execute_permission': [('faccessat', [C('AT_FDCWD'), P(1), C('X_OK'), C('AT_EACCESS')], 'cmp-1')],
}
PROPAGATE = {'map', 'map_err', 'and_then', 'ok_or', 'ok_or_else'}


def _param_names(h):
    return [p.get('name') for p in h.get('params', [])]


def _arg_matches(node, spec, params, h):
    if spec is None:
        return True
    n = unwrap(node)
    if spec[0] == 'p':
        want = params[spec[1]] if spec[1] < len(params) else None
        for x in H.walk(n):
            if x.get('k') == 'local':
                return x.get('name') == want and want is not None
        return False
    if spec[0] == 'c':
        return libc_name(n) == spec[1]
    if spec[0] == 'c?':
        if libc_name(n):
            return libc_name(n) in spec[1]
        if n.get('k') == 'local':
            for l in H.walk(h['body']):
                if l.get('k') == 'let' and l['pat'].get('k') == 'bind' and l['pat'].get('name') == n['name'] and l.get('init'):
                    consts = {libc_name(x) for x in H.walk(l['init']) if libc_name(x)}
                    return consts == set(spec[1])
        return False
    return False


def _converted(call, conv, h, par):
    """Does the libc call's failure value reach Errno::last() in the way `conv` says?"""
    if conv == 'none':
        return True
    lasts = [c for c in H.walk(h['body']) if c.get('k') in ('call', 'mcall', 'path')
             and last(c.get('def') or '') == 'last' and 'Errno' in (c.get('def') or '')]
    if conv in ('last', 'null'):
        if not lasts:
            return False
        if conv == 'last':
            return True
        # NULL test: is_null() / NonNull::new on the result
        names = {last(callee(c)) for c in H.calls(h['body'])}
        return bool(names & {'is_null', 'new'})
    if conv == 'cmp-1':
        p = par.get(id(call))
        while p is not None and p.get('k') in ('block',):
            p = par.get(id(p))
        return p is not None and p.get('k') == 'binary' and p.get('op') in ('!=', '==')
    # 'm1': climb through statement-less blocks; the receiver of errno_if_m1, possibly through a `let`
    n = call
    while True:
        p = par.get(id(n))
        if p is None:
            return False
        if p.get('k') == 'block' and p.get('e') is n:
            n = p
            continue
        if p.get('k') == 'mcall' and p.get('name') == 'errno_if_m1' and p.get('recv') is n:
            return True
        if p.get('k') == 'let' and p.get('init') is n and p['pat'].get('k') == 'bind':
            nm = p['pat'].get('name')
            for c in H.calls(h['body']):
                if c.get('k') == 'mcall' and c.get('name') == 'errno_if_m1' and unwrap(c['recv']).get('k') == 'local' \
                        and unwrap(c['recv']).get('name') == nm:
                    return True
            return False
        return False


def _check_wiring(cx, key, fn, h, rows):
    par = parents_of(h['body'])
    params = _param_names(h)
    libc_calls = [c for c in H.calls(h['body']) if is_libc(callee(c)) and not last(callee(c)).startswith('W')]
    want_fns = [r[0] for r in rows]
    got_fns = [last(callee(c)) for c in libc_calls]
    cx.site('%s -> libc::%s' % (key, ', libc::'.join(got_fns) or '(none)'))
    if sorted(got_fns) != sorted(want_fns):
        cx.violation(fn, 'libc-call:%s' % key, '%s must be implemented by libc %s, found calls to %s' % (key, want_fns, got_fns),
                     loc=hloc(h))
        return
    used = set()
    for (lfn, specs, conv) in rows:
        # pick the first unused call of that function whose constant arguments fit
        cand = [c for c in libc_calls if last(callee(c)) == lfn and id(c) not in used]
        best = None
        for c in cand:
            if len(c['a']) == len(specs) and all(_arg_matches(a, s, params, h) for a, s in zip(c['a'], specs)):
                best = c
                break
        cx.cellcount(1)
        if best is None:
            c = cand[0]
            used.add(id(c))
            bad = [i for i, (a, s) in enumerate(zip(c['a'], specs)) if not _arg_matches(a, s, params, h)]
            cx.violation(fn, 'libc-args:%s:%s' % (key, lfn), 'libc::%s is not called with the trait arguments in the libc parameter '
                         'order / the command constant of the table (parameter position(s) %s differ)' % (lfn, bad or 'count'),
                         loc=hloc(h, c))
            continue
        used.add(id(best))
        if not _converted(best, conv, h, par):
            cx.violation(fn, 'libc-errno:%s:%s' % (key, lfn), 'the failure value of libc::%s is not converted through %s' %
                         (lfn, {'m1': 'errno_if_m1 (-1 => Errno::last())', 'null': 'a NULL test and Errno::last()',
                                'last': 'Errno::last()', 'cmp-1': 'a comparison with -1'}[conv]), loc=hloc(h, best))


@RS.rule('C19.R3', 'K-CALLERS', 'every RealSystem method calls the libc function of the table with the trait arguments and converts -1/NULL through Errno::last()')
def r3(cx):
    F = cx.F
    seen = set()
    for i in F.impls:
        if i.get('self_adt') != REAL or not (i.get('trait_def') or '').startswith(SYS):
            continue
        tn = last(i['trait_def'])
        for it in i['items']:
            if it['kind'] != 'Fn':
                continue
            key = '%s::%s' % (tn, it['name'])
            seen.add(key)
            h = F.hir_of(it['def'])
            cx.fn(it['def'])
            if key in REAL_WIRING:
                _check_wiring(cx, key, it['def'], h, REAL_WIRING[key])
            elif key in REAL_NO_LIBC:
                direct = [last(callee(c)) for c in H.calls(h['body']) if is_libc(callee(c))]
                cx.site('%s: no direct libc call (%s)' % (key, REAL_NO_LIBC[key]))
                if direct:
                    cx.violation(it['def'], 'unreviewed-libc-call:%s' % key, '%s now calls libc::%s directly; add the row to the '
                                 'reference table' % (key, direct), loc=hloc(h))
            else:
                cx.site('%s: not in the reference table' % key)
                cx.violation(it['def'], 'unlisted-method:%s' % key, 'RealSystem method %s has no row in the libc wiring table of '
                             'rules/C19.py' % key, loc=hloc(h))
    for key in sorted(set(REAL_WIRING) - seen):
        cx.violation(REAL, 'method-gone:%s' % key, 'RealSystem no longer implements %s' % key, loc=None)
    for fn, rows in HELPER_WIRING.items():
        h = F.hir_of(fn)
        cx.fn(fn)
        _check_wiring(cx, last(fn), fn, h, rows)
    for key, helper in (('GetSigaction::get_sigaction', 'sigaction_impl'), ('Sigaction::sigaction', 'sigaction_impl'),
                        ('IsExecutableFile::is_executable_file', 'has_execute_permission')):
        tn, mn = key.split('::')
        defs = [it['def'] for i in F.impls if i.get('self_adt') == REAL and last(i.get('trait_def') or '') == tn
                for it in i['items'] if it['name'] == mn]
        cx.require(len(defs) == 1, '%s not found' % key)
        h = F.hir_of(defs[0])
        cx.cellcount(1)
        if not [c for c in H.calls(h['body']) if last(callee(c)) == helper]:
            cx.violation(defs[0], 'helper:%s' % key, '%s must go through %s' % (key, helper), loc=hloc(h))
    # errno_if_m1 itself: self == MINUS_1 => Err(Errno::last()), else Ok(self); MINUS_1 is -1 for every integer type
    fn = 'yash_env::system::real::ErrnoIfM1::errno_if_m1'
    h = F.hir_of(fn)
    cx.fn(fn)
    ifs = [x for x in H.walk(h['body']) if x.get('k') == 'if']
    ok = False
    if len(ifs) == 1:
        c = unwrap(ifs[0]['c'])
        t, f = value_key(ifs[0]['t']), value_key(ifs[0].get('f'))
        ok = (c.get('k') == 'binary' and c.get('op') == '==' and
              {str(H.const_eval(c['a'])), str(H.const_eval(c['b']))} == {str(('local', 'self')), str(('path', 'yash_env::system::real::ErrnoIfM1::MINUS_1'))}
              and t == ('Err', ('call', 'last')) and f == ('Ok', ('local', 'self')))
    cx.site('errno_if_m1: self == MINUS_1 => Err(Errno::last()) else Ok(self)')
    if not ok:
        cx.violation(fn, 'errno_if_m1', 'errno_if_m1 must return Err(Errno::last()) exactly when the value equals MINUS_1 and Ok(self) otherwise',
                     loc=hloc(h))
    n = 0
    for k in sorted(F.hir):
        if k.endswith('as yash_env::system::real::ErrnoIfM1>::MINUS_1'):
            n += 1
            cx.cellcount(1)
            v = H.const_eval(F.hir[k]['body'])
            if v != -1:
                cx.violation(k, 'MINUS_1', 'the failure value of a libc call is -1, found %s' % (v,), loc=hloc(F.hir[k]))
    cx.floor(n, 3, 'ErrnoIfM1::MINUS_1 constants')
    # FdFlag <-> FD_CLOEXEC / F_DUPFD_CLOEXEC, O_NONBLOCK, AT_SYMLINK_NOFOLLOW: the `if` that selects the constant
    def sel(key, cond_pred, then_consts, else_consts, what):
        tn, mn = key.split('::')
        d = [it['def'] for i in F.impls if i.get('self_adt') == REAL and last(i.get('trait_def') or '') == tn
             for it in i['items'] if it['name'] == mn][0]
        hh = F.hir_of(d)
        hit = False
        for x in H.walk(hh['body']):
            if x.get('k') == 'if' and cond_pred(unwrap(x['c'])):
                tc = {libc_name(y) for y in H.walk(x['t']) if libc_name(y)}
                fc = {libc_name(y) for y in H.walk(x['f']) if libc_name(y)} if x.get('f') else set()
                if tc == then_consts and (else_consts is None or fc == else_consts):
                    hit = True
        cx.cellcount(1)
        if not hit:
            cx.violation(d, 'select:%s' % key, '%s: %s' % (key, what), loc=hloc(hh))

    def contains_cloexec(c):
        return c.get('k') == 'mcall' and c.get('name') == 'contains' and \
            any((unwrap(a).get('def') or '').endswith('FdFlag::CloseOnExec') for a in c['a'])

    def bit_test(const):
        def f(c):
            return c.get('k') == 'binary' and c.get('op') == '!=' and any(libc_name(y) == const for y in H.walk(c['a'])) \
                and H.lit_value(c['b']) == 0
        return f
    sel('Dup::dup', contains_cloexec, {'F_DUPFD_CLOEXEC'}, {'F_DUPFD'},
        'the duplicate must be made with F_DUPFD_CLOEXEC exactly when FdFlag::CloseOnExec is requested, F_DUPFD otherwise')
    sel('Fcntl::fcntl_setfd', contains_cloexec, {'FD_CLOEXEC'}, set(),
        'FD_CLOEXEC must be set exactly when FdFlag::CloseOnExec is requested')
    sel('Fcntl::fcntl_getfd', bit_test('FD_CLOEXEC'), set(), set(),
        'FdFlag::CloseOnExec must be reported exactly when the FD_CLOEXEC bit is set')
    sel('Fcntl::get_and_set_nonblocking', lambda c: c.get('k') == 'local' and c.get('name') == _param_names(
        F.hir_of('<%s as %sio::Fcntl>::get_and_set_nonblocking' % (REAL, SYS)))[2], {'O_NONBLOCK'}, {'O_NONBLOCK'},
        'O_NONBLOCK must be or-ed in when `nonblocking` is true and masked out otherwise')
    sel('Fstat::fstatat', lambda c: c.get('k') == 'local' and c.get('name') == _param_names(
        F.hir_of('<%s as %sfile_system::Fstat>::fstatat' % (REAL, SYS)))[3], set(), {'AT_SYMLINK_NOFOLLOW'},
        'AT_SYMLINK_NOFOLLOW must be passed exactly when follow_symlinks is false')


# ------------------------------------------------------------------ R4 sibling: flags honoured by the virtual open
VIRT_IGNORED_FLAGS = {
    'NoCtty': 'the simulator has no controlling terminals',
    'NoFollow': 'the simulated open does not follow symlinks in the first place',
    'Sync': 'the simulator has no storage to synchronise with',
}
VIRT_OPEN_FNS = [VIRT + '::resolve_file', '<%s as %sfile_system::Open>::open' % (VIRT, SYS), VIRT + '::create_fd']


def _flag_tests(h, enum_suffix):
    out = {}
    for c in H.calls(h['body']):
        if c.get('k') == 'mcall' and c.get('name') == 'contains' and last(callee(c)) == 'contains':
            for a in c['a']:
                d = unwrap(a).get('def') or ''
                if ('::%s::' % enum_suffix) in d:
                    out.setdefault(last(d), []).append(c)
    return out


@RS.rule('C19.R4', 'K-SIBLING', 'the virtual open consults every OpenFlag the real side forwards to the kernel (or the flag is on the reviewed ignore list)')
def r4(cx):
    F = cx.F
    variants = [last(v) for v in H.enum_variants(F, SYS + 'file_system::OpenFlag')]
    tests = {}
    for fn in VIRT_OPEN_FNS:
        h = F.hir_of(fn)
        cx.fn(fn)
        for v, cs in _flag_tests(h, 'OpenFlag').items():
            tests.setdefault(v, []).append((fn, h, cs))
    for v in variants:
        where = [last(fn.replace('>::open', '>::open')) for fn, h, cs in tests.get(v, [])]
        cx.site('OpenFlag::%s: %s' % (v, ('tested in ' + ', '.join(where)) if where else 'ignored: ' + VIRT_IGNORED_FLAGS.get(v, 'NOT REVIEWED')))
        cx.cellcount(1)
        if v in tests and v in VIRT_IGNORED_FLAGS:
            cx.violation(VIRT_OPEN_FNS[0], 'stale-ignore:%s' % v, 'OpenFlag::%s is now honoured by the simulator: remove it from '
                         'the ignore list of rules/C19.py' % v, loc=hloc(tests[v][0][1]))
        if v not in tests and v not in VIRT_IGNORED_FLAGS:
            h = F.hir_of(VIRT_OPEN_FNS[0])
            cx.violation(VIRT_OPEN_FNS[0], 'flag-ignored:%s' % v, 'the real open passes %s to the kernel but the simulated open never '
                         'looks at OpenFlag::%s: a script using it behaves differently on the two systems' % (OPEN_FLAG.get(v, v), v),
                         loc=hloc(h))
    # Append / NonBlock reach the open file description, CloseOnExec the descriptor flag
    fn = VIRT_OPEN_FNS[1]
    h = F.hir_of(fn)
    news = [c for c in H.calls(h['body']) if callee(c).endswith('OpenFileDescription::new')]
    cx.require(len(news) == 1, 'expected one OpenFileDescription::new in the virtual open')
    sig = F.fns.get(callee(news[0]))
    cx.require(sig is not None and len(news[0]['a']) == 6, 'OpenFileDescription::new signature changed')
    pnames = _param_names(F.hir_of(callee(news[0])))
    for flag, pname in (('Append', 'is_appending'), ('NonBlock', 'is_nonblocking')):
        cx.require(pname in pnames, 'OpenFileDescription::new has no parameter %s' % pname)
        a = unwrap(news[0]['a'][pnames.index(pname)])
        ok = a.get('k') == 'mcall' and a.get('name') == 'contains' and \
            any((unwrap(x).get('def') or '').endswith('OpenFlag::' + flag) for x in a['a'])
        cx.cellcount(1)
        if not ok:
            cx.violation(fn, 'flag-wiring:%s' % flag, 'OpenFlag::%s must become `%s` of the new open file description' % (flag, pname),
                         loc=hloc(h, news[0]))
    fn = VIRT_OPEN_FNS[2]
    h = F.hir_of(fn)
    ok = False
    for x in H.walk(h['body']):
        if x.get('k') == 'if':
            c = unwrap(x['c'])
            if c.get('k') == 'mcall' and c.get('name') == 'contains' and any((unwrap(y).get('def') or '').endswith('OpenFlag::CloseOnExec') for y in c['a']):
                t = {last(y.get('def') or '') for y in H.walk(x['t']) if y.get('k') == 'path'}
                f = {last(y.get('def') or '') for y in H.walk(x['f']) if y.get('k') == 'path'} if x.get('f') else set()
                ok = 'CloseOnExec' in t and 'CloseOnExec' not in f
    cx.cellcount(1)
    if not ok:
        cx.violation(fn, 'flag-wiring:CloseOnExec', 'OpenFlag::CloseOnExec must become FdFlag::CloseOnExec of the new descriptor, and only then',
                     loc=hloc(h))


# ------------------------------------------------------------------ R6 required guarded error returns
class Guard:
    """Conditions under which a HIR node is evaluated, collected along the tree path."""

    def __init__(self):
        self.flags = {}      # (enum short, variant) -> polarity
        self.kinds = []      # (scrutinee type, frozenset(variant short names), polarity)
        self.arms = []       # (scrutinee callee, frozenset(pattern keys), guard flags)
        self.other = []

    def copy(self):
        g = Guard()
        g.flags = dict(self.flags)
        g.kinds = list(self.kinds)
        g.arms = list(self.arms)
        g.other = list(self.other)
        return g


def _add_cond(g, c, pol, lets=None):
    c = unwrap(c)
    k = c.get('k')
    if k == 'binary' and c.get('op') == '&&' and pol:
        _add_cond(g, c['a'], True, lets)
        _add_cond(g, c['b'], True, lets)
        return
    if k == 'binary' and c.get('op') == '||' and not pol:
        _add_cond(g, c['a'], False, lets)
        _add_cond(g, c['b'], False, lets)
        return
    if k == 'unary' and c.get('op') == '!':
        _add_cond(g, c['a'], not pol, lets)
        return
    if k == 'local' and lets and c.get('name') in lets:
        # an immutable `let x = <condition>;` names the condition
        _add_cond(g, lets[c['name']], pol, None)
        return
    if k == 'mcall' and c.get('name') == 'contains' and last(callee(c)) == 'contains':
        for a in c['a']:
            d = unwrap(a).get('def') or ''
            parts = d.split('::')
            if len(parts) >= 2 and unwrap(a).get('dk') == 'CtorVariant':
                g.flags[(parts[-2], parts[-1])] = pol
                return
    if k == 'match' and c.get('exp') and len(c['arms']) == 2:
        # matches!(scrut, P): arms P => true, _ => false
        t = H.lit_value(c['arms'][0]['body'])
        f = H.lit_value(c['arms'][1]['body'])
        if t is True and f is False and not c['arms'][0].get('guard'):
            keys = pat_keys(c['arms'][0]['pat'])
            if all(isinstance(x, str) and x != '_' for x in keys):
                g.kinds.append(((c.get('sty') or '').lstrip('&').strip(), frozenset(last(x) for x in keys), pol))
                return
    if k == 'letexpr':
        keys = pat_keys(c['pat'])
        if all(isinstance(x, str) and x != '_' for x in keys):
            ty = (c.get('ty') or '').replace('&mut ', '').lstrip('&').strip()
            g.kinds.append((ty, frozenset(last(x) for x in keys), pol))
            return
    g.other.append((c, pol))


def guarded_nodes(root):
    """Yield (node, Guard) for every node below root."""
    lets = {}
    seen = {}
    for n in H.walk(root):
        if n.get('k') == 'let' and n.get('init') and n['pat'].get('k') == 'bind':
            nm = n['pat'].get('name')
            seen[nm] = seen.get(nm, 0) + 1
            if 'Mut' not in (n['pat'].get('mode') or '').split(',')[-1]:
                lets[nm] = n['init']
    lets = {k: v for k, v in lets.items() if seen.get(k) == 1}
    stack = [(root, Guard())]
    while stack:
        n, g = stack.pop()
        if not isinstance(n, dict):
            continue
        yield n, g
        k = n.get('k')
        if k == 'if':
            stack.append((n['c'], g))
            gt = g.copy()
            _add_cond(gt, n['c'], True, lets)
            stack.append((n['t'], gt))
            if n.get('f'):
                gf = g.copy()
                _add_cond(gf, n['c'], False, lets)
                stack.append((n['f'], gf))
            continue
        if k == 'match' and not n.get('exp'):
            stack.append((n['scrut'], g))
            sc = unwrap(n['scrut'])
            scname = callee(sc) if sc.get('k') in ('call', 'mcall') else (sc.get('name') if sc.get('k') == 'local' else sc.get('k'))
            sty = (n.get('sty') or '').lstrip('&').strip()
            for arm in n['arms']:
                ga = g.copy()
                keys = pat_keys(arm['pat'])
                subkeys = []
                p = arm['pat']
                if p.get('k') == 'ptuplestruct' and p.get('sub'):
                    subkeys = [x for s in p['sub'] for x in pat_keys(s)]
                ga.arms.append((scname, frozenset(last(x) if isinstance(x, str) else x for x in keys),
                                frozenset(last(x) if isinstance(x, str) else x for x in subkeys)))
                if all(isinstance(x, str) and x != '_' for x in keys):
                    ga.kinds.append((sty, frozenset(last(x) for x in keys), True))
                if arm.get('guard'):
                    stack.append((arm['guard'], ga))
                    ga = ga.copy()
                    _add_cond(ga, arm['guard'], True, lets)
                stack.append((arm['body'], ga))
            continue
        for c in H.children(n):
            stack.append((c, g))


def errno_returns(h, errno):
    """[(node, Guard)] of `Err(Errno::<errno>)` constructions in the function."""
    out = []
    for n, g in guarded_nodes(h['body']):
        if n.get('k') == 'call' and n.get('ctor') and last(n['ctor'].get('def') or '') == 'Err' and n.get('a'):
            a = unwrap(n['a'][0])
            if a.get('k') == 'path' and a.get('def') == '%s::%s' % (ERRNO, errno):
                out.append((n, g))
    return out


FILE_BODY = 'yash_env::system::r#virtual::file_body::FileBody'
OFD = SYS + 'file_system::OfdAccess'


def _has_kind(g, ty, variants, pol):
    return any(t == ty and vs == frozenset(variants) and p == pol for t, vs, p in g.kinds)


def _writable_access(F, g):
    """The access mode is known to be WriteOnly or ReadWrite: a positive test for exactly that set,
    or a negative test for its complement."""
    allv = {last(v) for v in H.enum_variants(F, OFD)}
    w = {'WriteOnly', 'ReadWrite'}
    return _has_kind(g, OFD, w, True) or _has_kind(g, OFD, allv - w, False)


# descriptor calls that must fail with EBADF on an unopened descriptor: trait method -> index of the fd parameter
EBADF_CALLS = {'Read::read': 1, 'Write::write': 1, 'Dup::dup': 1, 'Dup::dup2': 1, 'Seek::lseek': 1,
               'Fcntl::ofd_access': 1, 'Fcntl::get_and_set_nonblocking': 1, 'Fcntl::fcntl_getfd': 1, 'Fcntl::fcntl_setfd': 1}
# lookups of the per-process descriptor table
FD_LOOKUPS = {'yash_env::system::r#virtual::process::Process::get_fd',
              'yash_env::system::r#virtual::process::Process::get_fd_mut'}
EBADF_HELPERS = [VIRT + '::get_open_file_description', VIRT + '::with_open_file_description',
                 VIRT + '::with_open_file_description_mut']


def _mentions_local(node, name):
    return any(x.get('k') == 'local' and x.get('name') == name for x in H.walk(node))


def _is_fd_table_lookup(c, fdname):
    """`process.get_fd(fd)` / `process.get_fd_mut(fd)` / `process.fds.get(&fd)` for the given parameter."""
    c = unwrap(c)
    if c.get('k') != 'mcall' or not c.get('a'):
        return False
    if callee(c) in FD_LOOKUPS:
        return _mentions_local(c['a'][0], fdname)
    if c.get('name') == 'get' and 'BTreeMap' in callee(c):
        r = unwrap(c['recv'])
        if r.get('k') == 'field' and r.get('name') == 'fds' and (r.get('adt') or '').endswith('process::Process'):
            return _mentions_local(c['a'][0], fdname)
    return False


def _propagated(node, par, h):
    """The Result produced by node is returned to the caller on Err: under `?`, as the function's tail
    value, through Result combinators, or bound to a local that is itself under `?`."""
    n = node
    for _ in range(40):
        p = par.get(id(n))
        if p is None:
            return n is h['body'] or unwrap(h['body']) is n
        k = p.get('k')
        if k == 'try':
            return True
        if k == 'block' and p.get('e') is n:
            n = p
            continue
        if k == 'mcall' and p.get('recv') is n and p.get('name') in PROPAGATE:
            n = p
            continue
        if k == 'ret':
            return True
        if k == 'let' and p.get('init') is n and p['pat'].get('k') == 'bind':
            nm = p['pat'].get('name')
            for t in H.walk(h['body']):
                if t.get('k') == 'try' and unwrap(t['e']).get('k') == 'local' and unwrap(t['e']).get('name') == nm:
                    return True
            return False
        return False
    return False


def _ebadf_source(F, h, fdname, helpers_ok):
    """A propagated `lookup(fd).ok_or(Errno::EBADF)` or a propagated call of a verified helper with fd."""
    par = parents_of(h['body'])
    for c in H.calls(h['body']):
        if c.get('k') == 'mcall' and c.get('name') == 'ok_or' and c.get('a'):
            a = unwrap(c['a'][0])
            if a.get('k') == 'path' and a.get('def') == ERRNO + '::EBADF' and _is_fd_table_lookup(c['recv'], fdname):
                if _propagated(c, par, h):
                    return 'fd-table lookup .ok_or(EBADF)', c
        if c.get('k') == 'mcall' and callee(c) in helpers_ok and c.get('a') and _mentions_local(c['a'][0], fdname):
            if _propagated(c, par, h):
                return 'via %s' % last(callee(c)), c
    return None, None


def _ebadf_mir(F, d, idx):
    """MIR alternative to `lookup(fd).ok_or(EBADF)?`: an `Err(EBADF)` result on the None edge of a look-up of the descriptor
    parameter in the descriptor table (`let Some(x) = fds.get(&fd) else { return Err(EBADF) }`, `match .. { None => return Err(EBADF) }`)."""
    body = F.bodies.get(d)
    if body is None:
        return None
    du = Q.DefUse(body)
    from_param = Q.forward_taint(body, {idx + 1}) | {idx + 1}
    for blk, j, st in Q.find_aggregates(body, 'core::result::Result', 'Err'):
        if not any(isinstance(o, dict) and str(o.get('cdef') or '').endswith('errno::Errno::EBADF') for o in st['rv']['ops']):
            continue
        for org, lab, e in Q.implied_conditions(F, body, du, blk):
            if org['k'] != 'discr' or lab != ('variant', 'None'):
                continue
            src = Q.value_source(body, du, {'cp': {'l': org['pl']['l']}})
            if src is not None and Q.callee_is(src, [re.compile(r'btree::map::BTreeMap::<K, V, A>::(get|get_mut|remove|get_key_value)$')]) and \
                    any((Q.operand_place(a) or {}).get('l') in from_param for a in src['a'][1:]):
                return 'Err(EBADF) on the None edge of the descriptor-table look-up'
    return None


_TRY_BRANCH = [re.compile(r'^<core::(result::Result|option::Option)<.*> as core::ops::try_trait::Try>::branch$')]
_STD_SUMS = ('core::result::Result', 'core::option::Option', 'core::ops::control_flow::ControlFlow')


def _variant_reach(F, body, du, start, removed=()):
    """Blocks reachable from `start` (never entering `removed`) on paths that are feasible for the std sum values built on the way:
    a local assigned `Err(..)` / `Ok(..)` / `None` / `Some(..)` (also through plain moves, the return place of an inlined helper, and
    `?`: Try::branch of an Err is a Break) leaves a later switch on its discriminant by the matching edge only."""
    removed = set(removed)
    seen, out = set(), set()
    stack = [(start, ())]
    while stack:
        node = stack.pop()
        if node in seen:
            continue
        seen.add(node)
        b, kn = node
        out.add(b)
        known = dict(kn)
        for s in body.blocks[b]['s']:
            if s['k'] != 'assign':
                continue
            l = s['lhs']['l']
            if s['lhs'].get('p'):
                known.pop(l, None)
                continue
            rv, v = s['rv'], None
            if rv['k'] == 'agg' and rv.get('variant') and rv.get('adt') in _STD_SUMS:
                v = rv['variant']
            elif rv['k'] == 'use':
                src = Q.operand_place(rv['o'])
                if src is not None and not src.get('p'):
                    v = known.get(src['l'])
            if v is None:
                known.pop(l, None)
            else:
                known[l] = v
        t = body.term(b)
        if t['k'] == 'call':
            known.pop(t['dest']['l'], None)
            if not t['dest'].get('p') and Q.callee_is(t, _TRY_BRANCH) and t['a']:
                src = Q.operand_place(t['a'][0])
                if src is not None and not src.get('p') and src['l'] in known:
                    known[t['dest']['l']] = 'Continue' if known[src['l']] in ('Ok', 'Some') else 'Break'
        succs = body.succ(b)
        ec = Q.edge_condition(F, body, du, b)
        if ec and ec[0]['k'] == 'discr' and not ec[0]['pl'].get('p') and ec[0]['pl']['l'] in known:
            only = {tgt for tgt, labs in ec[1].items() if ('variant', known[ec[0]['pl']['l']]) in labs}
            if only:
                succs = [x for x in succs if x in only]
        kn2 = tuple(sorted(known.items()))
        for x in succs:
            if x not in removed:
                stack.append((x, kn2))
    return out


_ERRNO_EQ = re.compile(r'^<' + re.escape(ERRNO) + r' as core::cmp::PartialEq>::(eq|ne)$')


def _real_close_ebadf_mir(F, d):
    """MIR alternative to the arm `Err(Errno::EBADF) => return Ok(())`: an `Ok(..)` result of the function behind the test that the
    error payload of a Result EQUALS Errno::EBADF (`let Err(errno) = .. else {..}; if errno == Errno::EBADF { Ok(()) }`, also through
    `!`, `!=`, a materialised flag or a private helper)."""
    body = F.bodies.get(d)
    if body is None:
        return False
    body = F.inlined(body)
    du = Q.DefUse(body)
    for blk, j, st in Q.find_aggregates(body, 'core::result::Result', 'Ok'):
        if st['lhs'] != {'l': 0}:
            continue
        for org, lab, e in Q.implied_conditions(F, body, du, blk):
            org, lab = Q.peel_not(du, org, lab)
            if org['k'] != 'call' or not lab or lab[0] != 'bool':
                continue
            mm = _ERRNO_EQ.match(pp.callee(org['t']))
            if not mm or lab[1] != (mm.group(1) == 'eq') or len(org['t']['a']) != 2:
                continue
            sides = [_ref_origin(du, a) for a in org['t']['a']]
            const = [x for x in sides if x['k'] == 'const' and str(x['o'].get('cdef') or '') == ERRNO + '::EBADF']
            payload = [x for x in sides if x['k'] == 'place' and any(isinstance(pe, dict) and pe.get('v') == 'Err' for pe in (x['pl'].get('p') or []))]
            if const and payload:
                return True
    return False


def _impl_fn(F, adt, key):
    tn, mn = key.split('::')
    d = [it['def'] for i in F.impls if i.get('self_adt') == adt and last(i.get('trait_def') or '') == tn
         for it in i['items'] if it['name'] == mn and it['kind'] == 'Fn']
    return d[0] if len(d) == 1 else None


@RS.rule('C19.R6', 'K-GUARD', 'the simulated kernel implements the enumerated POSIX error returns (ENOENT, EEXIST, ENOTDIR, EISDIR, EBADF; close of an unopened descriptor is Ok on both sides)')
def r6(cx):
    F = cx.F
    open_fns = [VIRT + '::resolve_file', '<%s as %sfile_system::Open>::open' % (VIRT, SYS)]
    hs = [(fn, F.hir_of(fn)) for fn in open_fns]
    for fn, h in hs:
        cx.fn(fn)
    get_fn = 'yash_env::system::r#virtual::file_system::FileSystem::get'

    def find(errno, pred):
        hits = []
        for fn, h in hs:
            for n, g in errno_returns(h, errno):
                hits.append((fn, h, n, g, pred(g)))
        return hits

    def report(errno, cond, hits, msg):
        good = [x for x in hits if x[4]]
        cx.site('open: %s => %s: %s' % (cond, errno, ', '.join('%s (%s)' % (last(x[0]), hloc(x[1], x[2])) for x in good) or 'NO guarded return found'))
        cx.cellcount(1)
        if not good:
            loc = hloc(hits[0][1], hits[0][2]) if hits else hloc(hs[0][1])
            cx.violation(open_fns[0], 'open:%s' % errno, msg + (' (an Err(%s) exists but not under these tests)' % errno if hits else ''), loc=loc)

    def existing(g):
        return any(sc == get_fn and 'Ok' in keys for sc, keys, sub in g.arms)

    # open: O_EXCL and the file exists -> EEXIST
    hits = find('EEXIST', lambda g: g.flags.get(('OpenFlag', 'Exclusive')) is True and existing(g))
    report('EEXIST', 'Exclusive and the file exists', hits,
           'the simulated open must fail with EEXIST when OpenFlag::Exclusive is given and the file exists (noclobber `>` relies on it)')
    # open: O_DIRECTORY and not a directory -> ENOTDIR
    hits = find('ENOTDIR', lambda g: g.flags.get(('OpenFlag', 'Directory')) is True and _has_kind(g, FILE_BODY, {'Directory'}, False))
    report('ENOTDIR', 'Directory flag and the file is not a directory', hits,
           'the simulated open must fail with ENOTDIR when OpenFlag::Directory is given and the file is not a directory')
    # open: directory opened for writing -> EISDIR
    hits = find('EISDIR', lambda g: _has_kind(g, FILE_BODY, {'Directory'}, True) and _writable_access(F, g))
    report('EISDIR', 'the file is a directory and access is WriteOnly or ReadWrite', hits,
           'the simulated open must fail with EISDIR when a directory is opened WriteOnly or ReadWrite: a real kernel refuses the '
           'open (so `> dir` fails as a redirection error before the command runs), the simulator hands out a descriptor '
           'and only the later write fails')
    # open: missing and no O_CREAT -> ENOENT
    fn, h = hs[0]
    creates = []
    fallthrough = []
    for n, g in guarded_nodes(h['body']):
        if n.get('k') in ('call', 'mcall') and callee(n).endswith('file_system::FileSystem::save'):
            creates.append((n, g))
        if n.get('k') == 'ret' and n.get('e'):
            e = unwrap(n['e'])
            if e.get('k') == 'call' and e.get('ctor') and last(e['ctor'].get('def') or '') == 'Err' and unwrap(e['a'][0]).get('k') == 'local':
                if any(sc == get_fn and 'Err' in keys and sub <= {'_'} for sc, keys, sub in g.arms) and not g.flags:
                    fallthrough.append((n, g))
    cx.require(creates, 'resolve_file no longer creates files with FileSystem::save')
    ok_create = all(g.flags.get(('OpenFlag', 'Create')) is True and
                    any(sc == get_fn and 'Err' in keys and sub == {'ENOENT'} for sc, keys, sub in g.arms) for n, g in creates)
    cx.site('open: missing and not Create => ENOENT: creation under Err(ENOENT)+Create: %s; other lookup errors returned unchanged: %s'
            % (ok_create, bool(fallthrough)))
    cx.cellcount(1)
    if not ok_create:
        cx.violation(fn, 'open:ENOENT:create-guard', 'a missing file may be created only when the lookup failed with ENOENT and '
                     'OpenFlag::Create is given', loc=hloc(h, creates[0][0]))
    cx.cellcount(1)
    if not fallthrough:
        cx.violation(fn, 'open:ENOENT:fallthrough', 'when the file is missing and OpenFlag::Create is absent the lookup error (ENOENT) '
                     'must be returned to the caller unchanged', loc=hloc(h))
    gh = F.hir_of(get_fn + '::main')
    cx.fn(get_fn + '::main')
    gpar = parents_of(gh['body'])
    miss = [c for c in H.calls(gh['body']) if c.get('k') == 'mcall' and c.get('name') == 'ok_or' and c.get('a')
            and unwrap(c['a'][0]).get('def') == ERRNO + '::ENOENT' and unwrap(c['recv']).get('k') == 'mcall'
            and unwrap(c['recv']).get('name') == 'get' and 'HashMap' in callee(unwrap(c['recv'])) and _propagated(c, gpar, gh)]
    if not miss:
        # `let Some(child) = children.get(name) else { return Err(ENOENT) }` / `match .. { None => return Err(ENOENT) }`: decided on the MIR
        # (the per-component lookup may live in a private helper `fn lookup(dir, name) -> Result<..>` called under `?`: it is
        # analysed in place, and the region after the None edge is the set of blocks FEASIBLE for the Result built there - an
        # `Err(..)` handed to `?` leaves by the Break edge only)
        gb = [b for k, b in F.bodies.items() if k.startswith(get_fn) and 'main' in k]
        for mb in gb:
            mb = F.inlined(mb)
            mdu = Q.DefUse(mb)
            gets = {t['dest']['l'] for _, t in mb.calls() if re.search(r'HashMap::<.*>::get$', pp.callee(t))}
            nexts = {blk for blk, t in mb.calls() if re.search(r'Iterator>::next$', pp.callee(t))}
            for u in sorted(mb.live_blocks()):
                ec = Q.edge_condition(F, mb, mdu, u)
                if not ec or ec[0]['k'] != 'discr' or ec[0]['pl'].get('p'):
                    continue
                src = mdu.origin({'cp': {'l': ec[0]['pl']['l']}})
                if not (ec[0]['pl']['l'] in gets or (src['k'] == 'call' and src['t']['dest']['l'] in gets)):
                    continue
                for tgt, labs in ec[1].items():
                    if ('variant', 'None') not in labs:
                        continue
                    region = _variant_reach(F, mb, mdu, tgt, removed=nexts)
                    enoent = any(st['k'] == 'assign' and any(isinstance(o, dict) and str(o.get('cdef') or '').endswith('::ENOENT')
                                                              for o in ([st['rv'].get('o')] if st['rv'].get('o') else []) + (st['rv'].get('ops') or []))
                                 for b_ in region for st in mb.blocks[b_]['s'])
                    pushes = any(re.search(r'Vec::<T, A>::push$', pp.callee(t)) for b_, t in mb.calls() if b_ in region)
                    if enoent and not pushes:
                        miss = [True]
    cx.site('FileSystem::get: missing directory entry => ENOENT: %s' % bool(miss))
    cx.cellcount(1)
    if not miss:
        cx.violation(get_fn + '::main', 'lookup:ENOENT', 'a name missing from its directory must make the path lookup fail with ENOENT',
                     loc=hloc(gh))
    # EBADF on unopened descriptors
    helpers_ok = set()
    for hf in EBADF_HELPERS:
        hh = F.hir_of(hf)
        cx.fn(hf)
        fdname = _param_names(hh)[1]
        why, node = _ebadf_source(F, hh, fdname, helpers_ok)
        cx.site('%s: unopened descriptor => EBADF: %s' % (last(hf), why or 'NOT FOUND'))
        cx.cellcount(1)
        if why:
            helpers_ok.add(hf)
        else:
            cx.violation(hf, 'EBADF:helper', '%s must fail with EBADF when the descriptor is not open' % last(hf), loc=hloc(hh))
    for lk in sorted(FD_LOOKUPS):
        lh = F.hir_of(lk)
        cx.fn(lk)
        body = unwrap(lh['body'])
        ok = body.get('k') == 'mcall' and body.get('name') in ('get', 'get_mut') and 'BTreeMap' in callee(body) and \
            unwrap(body['recv']).get('k') == 'field' and unwrap(body['recv']).get('name') == 'fds'
        cx.cellcount(1)
        if not ok:
            cx.violation(lk, 'EBADF:lookup', '%s must be the plain lookup in the descriptor table' % last(lk), loc=hloc(lh))
    for key, idx in sorted(EBADF_CALLS.items()):
        d = _impl_fn(F, VIRT, key)
        cx.require(d is not None, 'VirtualSystem does not implement %s' % key)
        hh = F.hir_of(d)
        cx.fn(d)
        fdname = _param_names(hh)[idx]
        why, node = _ebadf_source(F, hh, fdname, helpers_ok)
        if not why:
            why = _ebadf_mir(F, d, idx)
        cx.site('%s: unopened descriptor => EBADF: %s' % (key, why or 'NOT FOUND'))
        cx.cellcount(1)
        if not why:
            cx.violation(d, 'EBADF:%s' % key, 'the simulated %s must fail with EBADF when `%s` is not an open descriptor '
                         '(redirections from closed descriptors, `<&-`, depend on it)' % (key, fdname), loc=hloc(hh))
    # close of an unopened descriptor: Ok on both sides
    d = _impl_fn(F, VIRT, 'Close::close')
    cx.require(d is not None, 'VirtualSystem does not implement Close::close')
    hh = F.hir_of(d)
    cx.fn(d)
    errs = [n for n in H.walk(hh['body']) if (n.get('k') == 'call' and n.get('ctor') and last(n['ctor'].get('def') or '') == 'Err')
            or n.get('k') == 'try']
    tail = value_key(hh['body'].get('e')) if hh['body'].get('k') == 'block' else None
    cx.site('virtual close: always Ok(()): %s' % (not errs and tail == ('Ok', ())))
    cx.cellcount(1)
    if errs or tail != ('Ok', ()):
        cx.violation(d, 'close:virtual', 'the simulated close must return Ok(()) for any descriptor, open or not (documented contract '
                     'of Close::close)', loc=hloc(hh))
    d = _impl_fn(F, REAL, 'Close::close')
    cx.require(d is not None, 'RealSystem does not implement Close::close')
    hh = F.hir_of(d)
    cx.fn(d)
    ok = False
    for n, g in guarded_nodes(hh['body']):
        if n.get('k') == 'ret' and n.get('e') and value_key(n['e']) == ('Ok', ()):
            if any('Err' in keys and sub == {'EBADF'} for sc, keys, sub in g.arms):
                ok = True
    if not ok:
        ok = _real_close_ebadf_mir(F, d)
    cx.site('real close: Err(EBADF) => Ok(()): %s' % ok)
    cx.cellcount(1)
    if not ok:
        cx.violation(d, 'close:real', 'the real close must map EBADF to Ok(()) so that closing an unopened descriptor succeeds on '
                     'both systems', loc=hloc(hh))


# ---------------------------------------------------------------------------------------
# added after an independent seeded change: the simulated kernel's default signal actions
POSIX_DEFAULT_ACTION = {
    # POSIX <signal.h>: T/A = terminate (A with core), I = ignore, S = stop, C = continue; non-POSIX names: Linux/BSD signal(7)
    'Abrt': 'core', 'Alrm': 'term', 'Bus': 'core', 'Chld': 'ignore', 'Cld': 'ignore', 'Cont': 'continue', 'Emt': 'term',
    'Fpe': 'core', 'Hup': 'term', 'Ill': 'core', 'Info': None, 'Int': 'term', 'Io': 'term', 'Iot': 'core', 'Kill': 'term',
    'Lost': 'term', 'Pipe': 'term', 'Poll': 'term', 'Prof': 'term', 'Pwr': 'term', 'Quit': 'core', 'Segv': 'core',
    'Stkflt': 'term', 'Stop': 'stop', 'Sys': 'core', 'Term': 'term', 'Thr': None, 'Trap': 'core', 'Tstp': 'stop', 'Ttin': 'stop',
    'Ttou': 'stop', 'Urg': 'ignore', 'Usr1': 'term', 'Usr2': 'term', 'Vtalrm': 'term', 'Winch': 'ignore', 'Xcpu': 'core',
    'Xfsz': 'core', 'Rtmin': 'term', 'Rtmax': 'term',
}


@RS.rule('C19.R7', 'K-TABLE', 'the simulated kernel gives every signal the default action a real kernel gives it (ignore: CHLD URG WINCH; stop: STOP TSTP TTIN TTOU; continue: CONT; terminate otherwise)')
def r7(cx):
    F = cx.F
    fn = 'yash_env::system::r#virtual::signal::SignalEffect::of'
    NAME = 'yash_env::signal::Name'
    h = F.hir_of(fn)
    cx.fn(fn)
    ms = [m for m in H.matches_in(h['body']) if (m.get('sty') or '').endswith('signal::Name')]
    cx.require(len(ms) == 1, 'match over signal::Name not found in SignalEffect::of')
    adt = [a for a in F.adts if a.endswith('signal::Name')]
    cx.require(len(adt) == 1, 'signal::Name enum not found: %s' % adt)
    loc = '%s:%s' % (h['file'], h['line'])
    for v in F.adts[adt[0]]['variants']:
        name = v['name']
        val = ('variant', adt[0] + '::' + name, [('any',)] if v['fields'] else [])
        i, arm = H.first_matching_arm(ms[0], val)
        cx.require(i is not None, 'arm for %s not decidable: %s' % (name, arm))
        body = H.peel(arm['body'])
        got = None
        d = body.get('p', {}).get('def') if body.get('k') == 'struct' else (body.get('def') if body.get('k') == 'path' else None)
        short = (d or '').split('::')[-1]
        if short == 'Terminate':
            cd = [H.lit_value(f[1]) for f in body.get('fields', []) if f[0] == 'core_dump']
            got = 'core' if cd and cd[0] else 'term'
        elif short == 'None':
            got = 'ignore'
        elif short == 'Suspend':
            got = 'stop'
        elif short == 'Resume':
            got = 'continue'
        cx.cellcount(1)
        if name not in POSIX_DEFAULT_ACTION:
            cx.violation(fn, 'unclassified:%s' % name, 'signal %s has no default action in the reference table' % name, loc=loc)
            continue
        want = POSIX_DEFAULT_ACTION[name]
        if want is None:
            continue       # not in POSIX and platforms differ: not decided
        # core vs plain termination is not observable by the shell scripts the property speaks about
        norm = lambda x: 'term' if x == 'core' else x
        if norm(got) != norm(want):
            cx.violation(fn, 'default-action:%s' % name, 'the simulated default action of SIG%s is %s; a real kernel: %s (a script that sends '
                         'itself that signal behaves differently on the two systems)' % (name.upper(), got, want), loc=loc)
    cx.sample({'SignalEffect::of': 'compared with %d reference rows' % len(POSIX_DEFAULT_ACTION)})


IS_EXEC = 'yash_env::system::file_system::IsExecutableFile'


def executable_file_evidence(F, cx, systems=('yash_env::system::real::RealSystem', 'yash_env::system::r#virtual::VirtualSystem')):
    """Per system: does is_executable_file test (a) that the file is a regular file, (b) an execute permission?"""
    out = {}
    for sysname in systems:
        root = '<%s as %s>::is_executable_file' % (sysname, IS_EXEC)
        bodies = F.logical(root)
        cx.require(bodies, 'impl IsExecutableFile for %s not found' % sysname)
        regular = perm = False
        for b in bodies:
            cx.fn(b.fn)
            du = Q.DefUse(b)
            for blk, t in b.calls():
                n = pp.callee(t)
                if n.endswith('::is_regular_file'):
                    regular = True
                if n.endswith('::has_execute_permission') or n.endswith('::faccessat') or \
                        (re.search(r'Mode>::(intersects|contains)$', n) and any('EXEC' in str(a.get('cdef') or a.get('c') or '') for a in t['a'])):
                    perm = True
                if re.search(r'PartialEq>::eq$|PartialEq::eq$', n) and any('FileType::Regular' in str(a.get('cdef') or a.get('c') or '') for a in t['a']):
                    regular = True
            for u in b.live_blocks():
                ec = Q.edge_condition(F, b, du, u)
                if ec and ec[0]['k'] == 'discr' and ('FileBody' in (ec[0].get('ty') or '') or 'FileType' in (ec[0].get('ty') or '')):
                    if any(set(labs) == {('variant', 'Regular')} for labs in ec[1].values()):
                        regular = True
        out[sysname] = (regular, perm)
    return out


@RS.rule('C19.R8', 'K-SIBLING', 'is_executable_file: both systems accept only a regular file with an execute permission (a searchable '
         'directory is not an executable: command search and `command -v` must skip it on both sides)')
def r8(cx):
    F = cx.F
    ev = executable_file_evidence(F, cx)
    for sysname, (regular, perm) in sorted(ev.items()):
        short = sysname.split('::')[-1]
        cx.site('%s::is_executable_file: tests regular file: %s, tests execute permission: %s' % (short, regular, perm))
        root = '<%s as %s>::is_executable_file' % (sysname, IS_EXEC)
        if not regular:
            cx.violation(root, 'accepts-non-regular', '%s::is_executable_file does not test that the file is a regular file%s: with a '
                         'directory named like the command in an earlier $PATH entry, command search (and `command -v`) stops at the '
                         'directory on this system and goes on to the real executable on the other'
                         % (short, '' if all(r for r, _ in ev.values()) else ' while its sibling does'), loc=F.logical(root)[0].loc(F.logical(root)[0].d))
        if not perm:
            cx.violation(root, 'accepts-non-executable', '%s::is_executable_file does not test any execute permission' % short,
                         loc=F.logical(root)[0].loc(F.logical(root)[0].d))


@RS.rule('C19.R9', 'K-TABLE', 'the simulated fork inherits exactly what fork(2) inherits (ids, descriptors, umask, cwd, dispositions, mask, limits)')
def r9(cx):
    from rules.C08 import r7 as c08_r7
    c08_r7(cx)


@RS.rule('C19.R10', 'K-RES', 'the simulated pipe() allocates nothing when it fails: if the second descriptor cannot be allocated (EMFILE) the '
         'first one is released, as pipe(2) does - every return of pipe() after the first successful allocation either hands the '
         'descriptor to the caller (the Ok pair) or has passed a close of it (in the function, or in the error closure of the second '
         'allocation); allocations made through private helpers (create_fd) are followed')
def r10(cx):
    F = cx.F
    root = '<yash_env::system::r#virtual::VirtualSystem as yash_env::system::io::Pipe>::pipe'
    bodies = F.logical(root)
    cx.require(bodies, 'impl Pipe for VirtualSystem not found')
    base = [b for b in bodies if b.fn == root][0]
    cx.fn(base.fn)
    main = _kernel_inlined(F, base)
    proc = 'yash_env::system::r#virtual::process::Process::'
    allocs = Q.find_calls(main, [proc + 'open_fd', proc + 'open_fd_ge'])
    cx.require(len(allocs) >= 2, 'expected two descriptor allocations (Process::open_fd / open_fd_ge, directly or through private helpers) '
               'in the simulated pipe(), found %d' % len(allocs))
    firsts = [x for x in allocs if all(main.dominates(x[0], y[0]) for y in allocs)]
    cx.require(len(firsts) == 1, 'the allocations of the simulated pipe() are not ordered by dominance (anchor moved)')
    fb, ft = firsts[0]
    closers = [proc + 'close_fd', proc + 'close_fds', re.compile(r'BTreeMap::<K, V, A>::(remove|remove_entry|clear|retain)$')]
    adaptors = [re.compile(r'^core::result::Result::<T, E>::(map_err|or_else|inspect_err|unwrap_or_else|map_or_else)$')]
    notes = []

    def release(tainted):
        out = set()
        # the descriptor is closed in the function
        for blk, t in Q.find_calls(main, closers):
            if any(Q.operand_local(a) in tainted for a in t['a'][1:]):
                out.add(blk)
                notes.append('closed at %s' % main.loc(t))
        # ... or in a closure that captures it and runs when a later step fails
        for blk, t in Q.find_calls(main, adaptors):
            for a in t['a'][1:]:
                l = Q.operand_local(a)
                d = du.single_def(l) if l is not None else None
                if l in tainted and d is not None and d[1] != 't' and d[2]['k'] == 'assign' and d[2]['rv']['k'] == 'agg':
                    cb = F.bodies.get(d[2]['rv'].get('def'))
                    if cb is not None and Q.find_calls(cb, closers):
                        out.add(blk)
                        cx.fn(cb.fn)
                        notes.append('closed in the error closure of %s at %s' % (pp.callee(t).split(' [')[0].split('::')[-1], main.loc(t)))
        # ... or handed to the caller in the Ok value
        for blk, j, st in Q.find_aggregates(main, 'core::result::Result', 'Ok'):
            if st['lhs']['l'] == 0 and any(Q.operand_local(o) in tainted for o in st['rv']['ops'] if isinstance(o, dict)):
                out.add(blk)
        return out

    du = Q.DefUse(main)
    leaks, tainted, rel, absent = Q.resource_leak_paths(F, main, fb, ft['dest']['l'], release,
                                                        through_calls=Q.PROPAGATING_CALLS + adaptors)
    handed = [blk for blk, j, st in Q.find_aggregates(main, 'core::result::Result', 'Ok') if st['lhs']['l'] == 0 and blk in rel]
    cx.require(handed, 'the simulated pipe() no longer returns the first allocated descriptor in its Ok value (anchor moved)')
    cx.site('%s: first descriptor allocated at %s, %d later allocation(s); every return after it hands the descriptor over or has released it '
            '(%s): %s' % (main.fn, main.loc(ft), len(allocs) - 1, '; '.join(sorted(set(notes))) or 'no release found', not leaks))
    if leaks:
        ex = Q.leaking_exits(F, main, fb, rel, absent)
        cx.violation(root, 'first-fd-leaked', 'when the second descriptor of the simulated pipe() cannot be allocated the first one stays open: '
                     'the call returns EMFILE like pipe(2) but has consumed a descriptor slot, so a following open that succeeds on a real '
                     'kernel fails in the simulator (and the shell, which treats a failed pipe() as "nothing allocated", leaks the '
                     'descriptor)', loc=(ex[0]['loc'] if ex else main.loc(ft)), path=Q.render_path(main, leaks[0]))


@RS.rule('C19.R6c', 'K-GUARD', 'open(O_CREAT) of the simulated kernel creates the file only: a missing (or non-directory) parent is ENOENT / ENOTDIR '
         'as on a real kernel, not silently created')
def r6c(cx):
    F = cx.F
    fn = VIRT + '::resolve_file'
    body = F.body(fn)
    cx.fn(body.fn)
    du = Q.DefUse(body)
    SAVE = 'yash_env::system::r#virtual::file_system::FileSystem::save'
    GET = 'yash_env::system::r#virtual::file_system::FileSystem::get'
    saves = Q.find_calls(body, [SAVE])
    cx.require(saves, 'resolve_file no longer creates the file through FileSystem::save (anchor moved)')
    # does save() create missing directories on the way?
    makes_dirs = False
    for b in F.logical(SAVE) + [x for k, x in F.bodies.items() if k.startswith(SAVE + '::')]:
        if any(s['rv'].get('variant') == 'Directory' for _, _, s in Q.find_aggregates(b, re.compile(r'::FileBody$'))):
            makes_dirs = True
    for sb, st in saves:
        gets = [(gb, gt) for gb, gt in Q.find_calls(body, [GET]) if body.dominates(gb, sb)]
        # a lookup of the parent directory: its path argument comes from Path::parent
        parent_checked = False
        for gb, gt in gets:
            src = Q.value_source(body, du, gt['a'][1]) if len(gt['a']) > 1 else None
            names = ' '.join(str(x) for x in Q.arg_names(body, du, gt))
            if (src is not None and 'parent' in pp.callee(src)) or 'parent' in names:
                parent_checked = True
        cx.site('%s: FileSystem::save at %s; save() creates missing directories: %s; parent directory looked up first: %s'
                % (body.fn, body.loc(st), makes_dirs, parent_checked))
        if makes_dirs and not parent_checked:
            cx.violation(fn, 'create-makes-parents', 'the simulated open(O_CREAT) stores the new file with FileSystem::save, which creates every '
                         'missing directory on the way (and turns a regular file in the path into a directory), without first requiring the '
                         'parent directory to exist: `echo x > nodir/file` succeeds in the simulator and fails with ENOENT on a real kernel',
                         loc=body.loc(st))


@RS.rule('C19.R11', 'K-GUARD', 'the simulated wait(-1) answers ECHILD only when no child is left: the any-child selection tells live children from '
         'already awaited ones (a reaped child must not hide a running one)')
def r11(cx):
    F = cx.F
    fn = 'yash_env::system::r#virtual::SystemState::child_to_wait_for'
    body = F.body(fn)
    cx.fn(body.fn)
    du = Q.DefUse(body)
    wfn = '<%s as %sprocess::Wait>::wait' % (VIRT, SYS)
    wb = [b for k, b in F.bodies.items() if k.endswith(' as yash_env::system::process::Wait>::wait') and 'VirtualSystem' in k]
    cx.require(len(wb) == 1, 'impl Wait for VirtualSystem not found')
    wb = wb[0]
    cx.fn(wb.fn)
    # wait() decides ECHILD from the ONE process child_to_wait_for selected
    echild = [blk for blk, j, s in wb.stmts() if s['k'] == 'assign' and any('ECHILD' in str(o.get('cdef') or o.get('c') or '')
              for o in ([s['rv'].get('o')] if s['rv'].get('o') else []) + (s['rv'].get('ops') or []) if isinstance(o, dict))]
    alive_in_wait = Q.find_calls(wb, ['yash_env::job::ProcessState::is_alive'])
    changed = Q.find_calls(body, ['yash_env::system::r#virtual::process::Process::state_has_changed'])
    cx.require(changed, 'child_to_wait_for no longer prefers a child whose state has changed (anchor moved)')
    alive = Q.find_calls(body, ['yash_env::job::ProcessState::is_alive', 'yash_env::job::ProcessState::is_stopped'])
    discr = [u for u in body.live_blocks() if (lambda ec: ec and ec[0]['k'] == 'discr' and 'ProcessState' in (ec[0].get('ty') or ''))(Q.edge_condition(F, body, du, u))]
    cx.site('%s: any-child selection tests state_has_changed x%d, liveness x%d; wait() derives ECHILD from the selected child (is_alive x%d)'
            % (body.fn, len(changed), len(alive) + len(discr), len(alive_in_wait)))
    if alive_in_wait and not alive and not discr:
        cx.violation(fn, 'selection-ignores-liveness', 'for wait(-1) the simulated kernel picks the last child in pid order when no child has '
                     'changed state, without looking whether it is alive; wait() then answers ECHILD if that child was already awaited although '
                     'an earlier child is still running: `wait` returns at once in the simulator where a real kernel keeps waiting',
                     loc=body.loc(changed[0][1]))


@RS.rule('C19.R12', 'K-GUARD', 'a signal sent to a terminated (not yet awaited) simulated process has no effect, as on a real kernel: every state '
         'change made by raise_signal is behind a test that the process has not terminated')
def r12(cx):
    F = cx.F
    P = 'yash_env::system::r#virtual::process::Process::'
    body = F.body(P + 'raise_signal')
    cx.fn(body.fn)
    du = Q.DefUse(body)
    sets = Q.find_calls(body, [P + 'set_state'])
    delivers = Q.find_calls(body, [P + 'deliver_signal'])
    cx.require(sets or delivers, 'raise_signal neither sets the process state nor delivers the signal (anchor moved)')

    def is_termination_test(org, depth=2):
        if org['k'] == 'call' and Q.callee_is(org['t'], ['yash_env::job::ProcessState::is_alive', 'yash_env::job::ProcessResult::is_stopped',
                                                         'yash_env::job::ProcessState::is_stopped']):
            return True
        if org['k'] == 'discr' and ('ProcessState' in (org.get('ty') or '') or 'ProcessResult' in (org.get('ty') or '')):
            return True
        if org['k'] == 'place' and depth and not org['pl'].get('p'):
            # a materialised `matches!(..)`: what decides the value of the flag
            for blk, idx, node in du.defs.get(org['pl']['l'], []):
                for o2, lab2, e2 in Q.implied_conditions(F, body, du, blk):
                    if is_termination_test(o2, depth - 1):
                        return True
        return False

    for blk, t in sets + delivers:
        guarded = any(is_termination_test(org) for org, lab, e in Q.implied_conditions(F, body, du, blk))
        cx.site('%s: %s at %s behind a "not terminated" test: %s' % (body.fn, pp.callee(t).split('::')[-1], body.loc(t), guarded))
        if not guarded:
            cx.violation(P + 'raise_signal', 'signal-affects-terminated:%s' % pp.callee(t).split('::')[-1], 'raise_signal changes the state of the '
                         'target without testing that it has not terminated yet: SIGCONT puts an exited child back to Running and SIGTERM / '
                         'SIGKILL replace its exit status, so `wait` reports 143 (or never returns) in the simulator where a real kernel '
                         'ignores signals sent to a zombie and reports the true exit status', loc=body.loc(t))


# --- explanation addendum (generated catalogue in DESIGN.md reads RS.explanation)
@RS.rule('C19.R13', 'K-PASS', 'a stopped or killed simulated process makes no progress, as under a real kernel: the run loop looks at the '
         'process state before EVERY poll of the process\'s task - also before the first one and after every suspension (a signal may '
         'have arrived while the process was not scheduled)')
def r13(cx):
    F = cx.F
    cands = [b for b in F.bodies.values() if b.root.endswith('::run_virtual') and 'Concurrent<' in b.root and b.fn != b.root]
    cx.require(len(cands) >= 1, 'Concurrent<VirtualSystem>::run_virtual (coroutine body) not found')
    body = max(cands, key=lambda b: len(b.blocks))
    cx.fn(body.root)
    polls = []
    for blk, t in body.calls():
        if Q.callee_is(t, ['futures_util::async_await::poll::poll']) or Q.callee_is(t, [re.compile(r'Future(<.*>)?>?::poll$')]):
            ty = ' '.join(str(x) for x in (t.get('at') or [])) + ' ' + str(body.locals[t['dest']['l']].get('ty'))
            # the task is the generic parameter F of run_virtual; select() is an `impl Future`
            if re.search(r'Pin<&mut F>', ty):
                polls.append((blk, t))
    cx.require(polls, 'the poll of the task future (Pin<&mut F>) was not found in run_virtual')
    first = [(blk, t) for blk, t in polls if Q.callee_is(t, ['futures_util::async_await::poll::poll'])] or polls
    states = {blk for blk, t in body.calls() if Q.callee_is(t, ['yash_env::system::r#virtual::process::Process::state'])}
    starts = [0] + [s for b in range(len(body.blocks)) if body.term(b)['k'] == 'yield' for s in body.succ(b)]
    cx.floor(len(starts), 4, 'entry + suspension points of run_virtual')
    for blk, t in first:
        bad = None
        for s in starts:
            p = body.shortest_path(s, {blk}, removed=states)
            if p is not None:
                bad = (s, p)
                break
        cx.site('run_virtual: task polled at %s; %d entry/resume points; state read on every path to it: %s' % (body.loc(t), len(starts), bad is None))
        if bad:
            s, p = bad
            what = 'the entry of the run loop' if s == 0 else 'the resumption at %s' % body.loc(body.term(p[0]) if body.term(p[0]).get('line') else t)
            cx.violation(body.root, 'task-polled-without-state-check:%s' % ('entry' if s == 0 else 'resume'),
                         'from %s the task of the simulated process is polled without looking at the process state first: a child that '
                         'was killed (or stopped) before it was first scheduled, or while it was suspended, still runs its body - a real '
                         'kernel never runs a process after SIGKILL/SIGSTOP took effect' % what,
                         loc=body.loc(t), path=Q.render_path(body, p))


@RS.rule('C19.R14', 'K-GUARD', 'a simulated process that has been waited for no longer exists: kill() does not signal it and answers ESRCH, '
         'as a real kernel does once the zombie is reaped (wait() already answers ECHILD for it: the two calls must agree)')
def r14(cx):
    F = cx.F
    P = 'yash_env::system::r#virtual::process::Process::'

    def reads_reaped_state(fn, depth=2):
        """The Process method looks at state_has_changed (what take_state clears when the parent waits)."""
        b = F.bodies.get(fn)
        if b is None:
            return False
        for blk, j, st in b.stmts():
            if st['k'] == 'assign':
                for pl in Q.rvalue_places(st['rv']):
                    if any(isinstance(x, dict) and x.get('f') == 'state_has_changed' for x in (pl.get('p') or [])):
                        return True
        if depth:
            for blk, t in b.calls():
                c = pp.callee(t)
                if c.startswith(P) and reads_reaped_state(c, depth - 1):
                    return True
        return False

    ITER = r'^core::iter::traits::iterator::Iterator::'
    consumers = re.compile(ITER + r'(map|for_each|filter_map|inspect|map_while|try_for_each|flat_map|fold|try_fold|any|all|find_map)$')
    keeps_elements = re.compile(ITER + r'(filter|inspect|rev|fuse|by_ref|peekable|take|skip|take_while|skip_while|step_by)$')

    def closure_tests_reaped(operand, pdu):
        ao = pdu.origin(operand)
        cb = F.bodies.get(ao['rv'].get('def')) if ao.get('k') == 'agg' and ao['rv'].get('ak') == 'closure' else None
        return cb is not None and any(pp.callee(ct).startswith(P) and reads_reaped_state(pp.callee(ct)) for _, ct in cb.calls())

    def filtered_upstream(cb):
        """cb is a closure handed to an iterator adapter in its parent body, and the iterator it is applied to is (an element-preserving
        adaptation of) `.filter(<closure that looks at the reaped state>)`."""
        for pb in F.logical(cb.root):
            if pb.fn == cb.fn:
                continue
            pdu = Q.DefUse(pb)
            for blk, t in pb.calls():
                if not consumers.match(pp.callee(t)) or len(t['a']) < 2:
                    continue
                if not any((pdu.origin(a).get('rv') or {}).get('def') == cb.fn for a in t['a'][1:] if pdu.origin(a).get('k') == 'agg'):
                    continue
                recv = t['a'][0]
                for _ in range(8):
                    src = Q.value_source(pb, pdu, recv)
                    if src is None or not src.get('a'):
                        break
                    c = pp.callee(src)
                    if re.match(ITER + r'filter$', c) and len(src['a']) == 2 and closure_tests_reaped(src['a'][1], pdu):
                        return True
                    if not keeps_elements.match(c):
                        break
                    recv = src['a'][0]
        return False

    senders = [b for b in F.bodies.values() if '::r#virtual::' in b.fn and '::tests::' not in b.fn
               and not b.fn.startswith(P) and Q.find_calls(b, [P + 'raise_signal'])]
    # raise_signal on the CURRENT process (raise(), abort paths) is not addressed to a pid: only the kill paths count
    kill_paths = [b for b in senders if b.root.endswith('::kill') or b.root.endswith('::send_signal_to_processes')]
    cx.require(len(kill_paths) >= 2, 'the kill paths of the simulated kernel (SendSignal::kill, send_signal_to_processes) were not found: %s'
               % sorted(b.fn for b in senders))
    for b in kill_paths:
        cx.fn(b.fn)
        du = Q.DefUse(b)
        for blk, t in Q.find_calls(b, [P + 'raise_signal']):
            ok = False
            for org, lab, e in Q.implied_conditions(F, b, du, blk):
                org, lab = Q.peel_not(du, org, lab)
                if org['k'] == 'call' and pp.callee(org['t']).startswith(P) and reads_reaped_state(pp.callee(org['t'])):
                    ok = True
                # `processes.get_mut(pid).filter(|p| !p.has_been_reaped())` + `let Some(p) = .. else`: the test sits in the closure
                if org['k'] == 'discr' and lab == ('variant', 'Some') and not org['pl'].get('p'):
                    src = du.origin({'cp': {'l': org['pl']['l']}})
                    if src['k'] == 'call' and re.search(r'Option::<T>::(filter|take_if)$', pp.callee(src['t'])):
                        for a in src['t']['a'][1:]:
                            ao = du.origin(a)
                            cb = F.bodies.get(ao['rv'].get('def')) if ao.get('k') == 'agg' else None
                            if cb is not None and any(pp.callee(ct).startswith(P) and reads_reaped_state(pp.callee(ct)) for _, ct in cb.calls()):
                                ok = True
            if not ok and b.fn != b.root:
                # the signal is raised in the closure of an iterator adapter (`.filter(|p| !p.has_been_reaped()).map(|p| p.raise_signal(..))`,
                # `.for_each(..)`): the test sits in a `filter` closure earlier in the same chain
                ok = filtered_upstream(b)
            cx.site('%s: raise_signal at %s behind a has-it-been-awaited test: %s' % (b.fn, b.loc(t), ok))
            if not ok:
                cx.violation(b.root, 'signal-to-reaped-process', 'kill() delivers a signal to (and answers success for) a simulated process '
                             'whose termination the parent has already collected with wait(): the process table never forgets a pid, so a '
                             'script that kills a job it has waited for gets 0 in the simulator and ESRCH ("no such process") on a real kernel',
                             loc=b.loc(t))


@RS.rule('C19.R15', 'K-TAINT', 'getcwd() answers an absolute pathname without `.` and `..` components on a real system; the simulated getcwd '
         'returns the stored working directory verbatim, so what the simulated chdir stores must have gone through a component-wise '
         'normalisation (the raw join of the old directory and the operand is never stored)')
def r15(cx):
    F = cx.F
    fn = '<%s as %sfile_system::Chdir>::chdir' % (VIRT, SYS)
    body = F.body(fn)
    cx.fn(body.fn)
    gb = F.body('<%s as %sfile_system::GetCwd>::getcwd' % (VIRT, SYS))
    cx.fn(gb.fn)
    verbatim = not Q.find_calls(gb, [re.compile(r'::components$'), re.compile(r'normal', re.I), re.compile(r'canonical', re.I)])
    joins = Q.find_calls(body, [re.compile(r'unix_path::Path(Buf)?::(join|push)$')])
    joins = [(blk, t) for blk, t in joins if pp.callee(t).endswith('::join')]
    sinks = Q.find_calls(body, ['yash_env::system::r#virtual::process::Process::chdir'])
    writes = [(blk, j, st) for blk, j, st in body.stmts() if st['k'] == 'assign'
              and any(isinstance(x, dict) and x.get('f') == 'cwd' for x in (st['lhs'].get('p') or []))]
    cx.require(sinks or writes, 'the simulated chdir no longer stores the working directory (Process::chdir / Process::cwd): anchor moved')
    if not verbatim:
        cx.site('simulated getcwd normalises what it returns: nothing demanded of chdir')
        return

    def normaliser(t):
        c = pp.callee(t)
        if re.search(r'::components$', c):
            return True
        b = F.bodies.get(c)
        return bool(b is not None and c.startswith('yash_env::') and Q.find_calls(b, [re.compile(r'::components$')]))
    stops = [pp.callee(t) for blk, t in body.calls() if normaliser(t)]
    raw = Q.forward_taint(body, {t['dest']['l'] for blk, t in joins}, stop_calls=stops or None) if joins else set()
    for blk, t in sinks:
        l = Q.operand_local(t['a'][1]) if len(t['a']) > 1 else None
        bad = l in raw
        cx.site('simulated chdir: stores %s at %s; raw join result: %s; normalisers on the way: %s'
                % (Q.operand_name(body, Q.DefUse(body), t['a'][1]), body.loc(t), bad, sorted(set(x.split('::')[-1] for x in stops))))
        if bad:
            cx.violation(fn, 'cwd-stored-unnormalised', 'the simulated chdir stores the old working directory joined with the operand as it is, and '
                         'the simulated getcwd returns that verbatim: after `cd -P ..` (or chdir("./x")) getcwd answers `/dir/sub/..`, a form '
                         'getcwd(3) never returns - $PWD computed by `cd -P` and `pwd -P` differ between the two systems', loc=body.loc(t))
    for blk, j, st in writes:
        bad = any(p['l'] in raw for p in Q.rvalue_places(st['rv']))
        cx.site('simulated chdir: writes Process::cwd at %s; raw join result: %s' % (body.loc(st), bad))
        if bad:
            cx.violation(fn, 'cwd-stored-unnormalised', 'the simulated chdir stores the unnormalised join of the old directory and the operand',
                         loc=body.loc(st))


RS.explanation += ' Added later (sibling and kernel-semantics rules): is_executable_file requires a regular file on both sides (R8); the simulated fork inherits what fork(2) inherits (R9); the simulated pipe() allocates nothing when it fails (R10); wait(-1) tells live children from awaited ones (R11); signals do not affect terminated processes (R12); open(O_CREAT) must not create directories (R6c, open finding). Added after the audit: a killed or stopped simulated process is not polled again (R13); kill() answers ESRCH for an awaited process (R14); the simulated chdir stores a normalised path (R15).'


# ---------------------------------------------------------------------------------------
# added after independent seeded changes (wave 3): `..` is resolved against the directory tree, never lexically
VKERNEL = 'yash_env::system::r#virtual'
VFS = VKERNEL + '::file_system::FileSystem::'
_PATHISH = re.compile(r'Path|UnixStr|UnixString|Component|CStr|CString|Cow|\bstr\b|String|u8|\b[A-Z]\b')
_SHRINK = re.compile(r'::(pop|pop_back|truncate)$')
_COMP_NEXT = re.compile(r'::(next|next_back|nth|nth_back|last)$')


def _kernel_bodies(F):
    return {k: b for k, b in F.bodies.items() if VKERNEL in k and '::tests::' not in k and not k.endswith('::tests')}


def _ref_root(du, l, depth=8):
    """The local a reference temporary points into (`_5 = &mut new_path` -> new_path)."""
    while depth:
        depth -= 1
        d = du.single_def(l)
        if d is None or d[1] == 't' or d[2]['k'] != 'assign':
            return l
        rv = d[2]['rv']
        if rv['k'] == 'ref':
            l = rv['pl']['l']
        elif rv['k'] == 'use' and ('cp' in rv['o'] or 'mv' in rv['o']):
            l = Q.operand_place(rv['o'])['l']
        else:
            return l
    return l


def _lexical_dotdot_sites(F, b, du):
    """Calls that shorten a pathname under construction (PathBuf::pop, pop/truncate of a list of components or bytes - not
    of a list of inodes) inside a loop over unix_path::Components or under a test of a unix_path::Component: the LEXICAL
    elimination of `..` (the tree walk of FileSystem::get pops inode handles instead)."""
    nexts = [blk for blk, t in b.calls() if _COMP_NEXT.search(pp.callee(t).split(' [')[0])
             and 'unix_path::Components' in (str(t['f'].get('self') or '') + pp.callee(t) + ' '.join(t.get('at') or []))]
    out = []
    for blk, t in b.calls():
        at = t.get('at') or []
        if not _SHRINK.search(pp.callee(t).split(' [')[0]) or not at or 'Inode' in at[0]:
            continue
        if not re.search(r'PathBuf|Vec|VecDeque|UnixString|String', at[0]):
            continue
        in_loop = any(blk in b.reachable(n) and n in b.reachable(blk) for n in nexts)
        on_comp = any(org['k'] == 'discr' and re.match(r'&?(mut )?unix_path::Component<', org.get('ty') or '')
                      for org, lab, e in Q.implied_conditions(F, b, du, blk))
        if in_loop or on_comp:
            out.append((blk, t))
    return out


def _path_taint(b, du, seeds, summ):
    """Path-valued locals data-dependent on the seeds (assignments, calls - through the summaries of kernel functions -
    and writes through a `&mut` receiver such as PathBuf::push)."""
    T = set(seeds)
    ok = lambda l: bool(_PATHISH.search(b.locals[l].get('ty') or ''))
    changed = True
    while changed:
        changed = False
        for i, j, s in b.stmts():
            if s['k'] != 'assign' or s['lhs']['l'] in T:
                continue
            if any(p['l'] in T for p in Q.rvalue_places(s['rv'])) and ok(s['lhs']['l']):
                T.add(s['lhs']['l'])
                changed = True
        for i, t in b.calls():
            args = [Q.operand_local(a) for a in t['a']]
            hot = [k for k, l in enumerate(args) if l is not None and l in T]
            if not hot:
                continue
            sm = summ.get(pp.callee(t))
            d = t['dest']['l']
            if d not in T and ok(d) and (sm is None or any(k + 1 in sm['ret_from'] for k in hot)):
                T.add(d)
                changed = True
            at = t.get('at') or []
            if sm is None and at and at[0].startswith('&mut') and any(k > 0 for k in hot) and args[0] is not None:
                r = _ref_root(du, args[0])
                if r not in T and ok(r):
                    T.add(r)
                    changed = True
    return T


def _resolution_sinks(b, T, summ):
    """Calls that hand a tainted pathname to the tree resolution: FileSystem::get / save, or a kernel function that passes
    that parameter on to them."""
    out = []
    for blk, t in b.calls():
        c = pp.callee(t)
        args = [Q.operand_local(a) for a in t['a']]
        if c in (VFS + 'get', VFS + 'save'):
            if any(l in T for l in args[1:] if l is not None):
                out.append((blk, t))
        elif c in summ and c != b.fn:
            if any(l is not None and l in T and (i + 1) in summ[c]['sink_params'] for i, l in enumerate(args)):
                out.append((blk, t))
    return out


def lexical_path_summaries(F):
    """Per function of the simulated kernel: which parameters reach the return value / the tree resolution, whether the
    return value (or a `&mut` parameter) carries a lexically normalised pathname, and where such a pathname is resolved."""
    KB = _kernel_bodies(F)
    summ = {k: {'ret_from': set(), 'sink_params': set(), 'ret_lex': False, 'out_lex': set(), 'sites': [], 'lex_sinks': [], 'T': set()}
            for k in KB}
    dus = {k: Q.DefUse(b) for k, b in KB.items()}
    for k, b in KB.items():
        summ[k]['sites'] = _lexical_dotdot_sites(F, b, dus[k])
    changed, rounds = True, 0
    while changed and rounds < 12:
        changed = False
        rounds += 1
        for k, b in KB.items():
            du, s = dus[k], summ[k]
            for p in range(1, b.argc + 1):
                if not _PATHISH.search(b.locals[p].get('ty') or ''):
                    continue
                T = _path_taint(b, du, {p}, summ)
                if 0 in T and p not in s['ret_from']:
                    s['ret_from'].add(p)
                    changed = True
                if p not in s['sink_params'] and not k.startswith(VFS) and _resolution_sinks(b, T, summ):
                    s['sink_params'].add(p)
                    changed = True
            seeds = set()
            for blk, t in s['sites']:
                l = Q.operand_local(t['a'][0])
                if l is not None:
                    seeds.update((l, _ref_root(du, l)))
            for blk, t in b.calls():
                c = pp.callee(t)
                if c in summ and c != k:
                    if summ[c]['ret_lex']:
                        seeds.add(t['dest']['l'])
                    for i in summ[c]['out_lex']:
                        l = Q.operand_local(t['a'][i - 1]) if i - 1 < len(t['a']) else None
                        if l is not None:
                            seeds.add(_ref_root(du, l))
            if not seeds:
                continue
            T = _path_taint(b, du, seeds, summ)
            s['T'] = T
            if 0 in T and not s['ret_lex']:
                s['ret_lex'] = True
                changed = True
            for p in range(1, b.argc + 1):
                if p in T and (b.locals[p].get('ty') or '').startswith('&mut') and p not in s['out_lex']:
                    s['out_lex'].add(p)
                    changed = True
            s['lex_sinks'] = _resolution_sinks(b, T, summ)
    return KB, summ, dus


def _asserted_success_calls(F, body, du, blk):
    """Calls whose success (Ok / Continue of `?` / Some) is implied at block blk."""
    out = []
    for org, lab, e in Q.implied_conditions(F, body, du, blk):
        if org['k'] == 'discr' and lab in (('variant', 'Continue'), ('variant', 'Ok'), ('variant', 'Some')) and not org['pl'].get('p'):
            t = Q.value_source(body, du, {'cp': org['pl']})
            if t is not None:
                out.append(t)
    return out


@RS.rule('C19.R16', 'K-TAINT', 'in the simulated kernel `..` is resolved against the directory tree, as in a real kernel (`nx/..` is ENOENT when '
         '`nx` does not exist): a pathname shortened LEXICALLY on `..` never enters the tree resolution (FileSystem::get / save), and '
         'the one reviewed lexical normalisation - the working directory stored by chdir - happens only after the operand was resolved')
def r16(cx):
    F = cx.F
    KB, summ, dus = lexical_path_summaries(F)
    cx.require(VFS + 'get' in KB and VFS + 'get::main' in KB, 'FileSystem::get (the tree resolution of the simulated kernel) not found')
    resolvers = sorted(k for k, s in summ.items() if s['sink_params'])
    cx.require(any(k.endswith('::resolve_existing_file') for k in resolvers) and any(k.endswith('::resolve_file') for k in resolvers),
               'resolve_existing_file / resolve_file no longer pass their path parameter to FileSystem::get (anchor moved): %s' % resolvers)
    cx.floor(len(resolvers), 8, 'kernel functions whose path parameter reaches FileSystem::get / save')
    # (0) the tree resolution itself pops inode handles on `..`, never pathname components
    tree_pops = 0
    for k, b in KB.items():
        if not k.startswith(VFS):
            continue
        for blk, t in summ[k]['sites']:
            cx.violation(k, 'tree-resolution-lexical-dotdot', 'the tree resolution of the simulated kernel shortens a pathname on `..` instead '
                         'of stepping to the parent inode: `nx/..` resolves although `nx` does not exist', loc=b.loc(t))
        if k == VFS + 'get::main':
            cx.fn(k)
            tree_pops = len([1 for blk, t in b.calls() if _SHRINK.search(pp.callee(t)) and 'Inode' in ((t.get('at') or [''])[0])])
            cx.site('%s: `..` steps back in the list of visited inodes (%d pop sites), a missing component is ENOENT before `..` is looked at'
                    % (k, tree_pops))
    # (1) no lexically normalised pathname is handed to the resolution
    nsites = 0
    for k in sorted(KB):
        s, b = summ[k], KB[k]
        if k.startswith(VFS):
            continue
        if s['sites'] or s['ret_lex'] or s['out_lex']:
            cx.fn(k)
        for blk, t in s['sites']:
            nsites += 1
            cx.site('%s: lexical `..` elimination (%s) at %s; result returned: %s; handed to the tree resolution: %s'
                    % (k, pp.callee(t).split('::')[-1], b.loc(t), s['ret_lex'], bool(s['lex_sinks'])))
        seen = set()
        for blk, t in s['lex_sinks']:
            short = pp.callee(t).split('::')[-1]
            if short in seen:
                continue
            seen.add(short)
            cx.violation(k, 'lexical-dotdot-into-resolution:%s' % short, 'a pathname from which `..` (and the component before it) was removed '
                         'lexically is handed to %s: `nx/..` collapses to the directory itself although `nx` does not exist, so stat / open / '
                         'opendir succeed where a real kernel answers ENOENT (`echo nx/../*` expands to names that do not exist; '
                         '`link/..` names the parent of the link, not of its target)' % pp.callee(t), loc=b.loc(t))
    cx.require(nsites >= 1, 'no lexical normalisation left in the simulated kernel (the chdir normalisation C19.R15 demands is the reviewed one)')
    # (2) a lexically normalised pathname is stored as the working directory only after the operand resolved
    STORE = VKERNEL + '::process::Process::chdir'
    for k in sorted(KB):
        s, b = summ[k], KB[k]
        if not s['T']:
            continue
        du = dus[k]
        stores = [(blk, t) for blk, t in Q.find_calls(b, [STORE]) if any(Q.operand_local(a) in s['T'] for a in t['a'][1:])]
        stores += [(blk, st) for blk, j, st in b.stmts() if st['k'] == 'assign'
                   and any(isinstance(x, dict) and x.get('f') == 'cwd' for x in (st['lhs'].get('p') or []))
                   and any(p['l'] in s['T'] for p in Q.rvalue_places(st['rv']))]
        for blk, node in stores:
            ok = [t for t in _asserted_success_calls(F, b, du, blk)
                  if pp.callee(t) in (VFS + 'get',) or summ.get(pp.callee(t), {}).get('sink_params')]
            cx.site('%s: lexically normalised working directory stored at %s after a successful resolution: %s'
                    % (k, b.loc(node), sorted({pp.callee(t).split('::')[-1] for t in ok}) or False))
            if not ok:
                cx.violation(k, 'lexical-cwd-without-resolution', 'the working directory is computed lexically and stored without the operand '
                             'having been resolved in the directory tree first: `cd nx/..` (or `cd file/..`) succeeds in the simulator and '
                             'fails with ENOENT / ENOTDIR on a real kernel', loc=b.loc(node))


# ---------------------------------------------------------------------------------------
# added after an independent seeded change (wave 3): SIGCONT resumes whatever the disposition and the mask
VPROC = VKERNEL + '::process::Process::'
SIGNUM = 'yash_env::signal::Number'


def _is_termination_test(F, body, du, org, depth=2):
    """The condition looks at the process state (is_alive / is_stopped / a match over ProcessState or ProcessResult)."""
    if org['k'] == 'call' and Q.callee_is(org['t'], ['yash_env::job::ProcessState::is_alive', 'yash_env::job::ProcessResult::is_stopped',
                                                     'yash_env::job::ProcessState::is_stopped']):
        return True
    if org['k'] == 'discr' and ('ProcessState' in (org.get('ty') or '') or 'ProcessResult' in (org.get('ty') or '')):
        return True
    if org['k'] == 'place' and depth and not org['pl'].get('p'):
        for blk, idx, node in du.defs.get(org['pl']['l'], []):
            for o2, lab2, e2 in Q.implied_conditions(F, body, du, blk):
                if _is_termination_test(F, body, du, o2, depth - 1):
                    return True
    return False


def _signal_const(du, operand):
    """Name of the signal constant an operand denotes (`&SIGCONT`, `SIGCONT`), else None."""
    org = du.origin(operand)
    for _ in range(4):
        if org['k'] == 'ref' and not org['pl'].get('p'):
            org = du.origin_place(org['pl'])
            continue
        break
    if org['k'] == 'const':
        name = str(org['o'].get('cdef') or '')
        m = re.search(r'::(SIG[A-Z0-9]+)$', name)
        return m.group(1) if m else None
    return None


def _is_signal_operand(body, du, operand, sig_locals):
    l = Q.operand_local(operand)
    if l is None:
        return False
    return l in sig_locals or _ref_root(du, l) in sig_locals


def _edges_excluded_for(F, body, du, sig_locals, signame):
    """Switch edges that cannot be taken when the signal parameter is `signame`: outcomes of `signal == SIGX` / `signal != SIGX`."""
    out = set()
    for u in body.live_blocks():
        ec = Q.edge_condition(F, body, du, u)
        if not ec:
            continue
        org, labels = ec
        if org['k'] != 'call' or not re.search(r'PartialEq(<.*>)?>?::(eq|ne)$', pp.callee(org['t']).split(' [')[0]):
            continue
        a = org['t']['a']
        if len(a) != 2:
            continue
        consts = [_signal_const(du, x) for x in a]
        sigs = [_is_signal_operand(body, du, x, sig_locals) for x in a]
        if not ((consts[0] and sigs[1]) or (consts[1] and sigs[0])):
            continue
        value = ((consts[0] or consts[1]) == signame)
        if pp.callee(org['t']).split(' [')[0].endswith('::ne'):
            value = not value
        for tgt, labs in labels.items():
            if labs and all(lab == ('bool', not value) for lab in labs):
                out.add((u, tgt))
    return out


def _resume_skipping_path(F, fn, starts_from_guard, depth=3):
    """A path through Process method `fn`, feasible for signal == SIGCONT, that returns without set_state(Running) - directly
    or in a Process method the signal is handed to. None if every such path resumes. -> (body, path) | None"""
    body = F.bodies.get(fn)
    if body is None:
        return ('no-body', None)
    body = F.inlined(body)          # private helpers of the module (deliver_signal, predicates over the signal) seen in place
    sig_locals = {p for p in range(1, body.argc + 1) if body.locals[p].get('ty') == SIGNUM}
    if len(sig_locals) != 1:
        return (body, [0])
    du = Q.DefUse(body)
    # plain copies of the parameter
    for blk, j, st in body.stmts():
        if st['k'] == 'assign' and st['rv']['k'] == 'use' and not st['lhs'].get('p') and Q.operand_local(st['rv']['o']) in sig_locals \
                and not (Q.operand_place(st['rv']['o']) or {}).get('p') and du.single_def(st['lhs']['l']) is not None:
            sig_locals = sig_locals | {st['lhs']['l']}
    through = set()
    for blk, t in body.calls():
        c = pp.callee(t)
        if c == VPROC + 'set_state':
            org = du.origin(t['a'][1]) if len(t['a']) > 1 else {'k': 'unknown'}
            if org['k'] == 'agg' and org['rv'].get('variant') == 'Running' and 'ProcessState' in str(org['rv'].get('adt')):
                through.add(blk)
        elif c.startswith(VPROC) and c != fn and depth and any(_is_signal_operand(body, du, a, sig_locals) for a in t['a']) \
                and F.bodies.get(c) is not None and any(body2_ty == SIGNUM for body2_ty in
                                                        [F.bodies[c].locals[p].get('ty') for p in range(1, F.bodies[c].argc + 1)]):
            if _resume_skipping_path(F, c, False, depth - 1) is None:
                through.add(blk)
    starts = [0]
    if starts_from_guard:
        sites = [blk for blk, t in body.calls() if pp.callee(t) in (VPROC + 'set_state', VPROC + 'deliver_signal')]
        g = set()
        for blk in sites:
            for org, lab, e in Q.implied_conditions(F, body, du, blk):
                if e[0] != e[1] and _is_termination_test(F, body, du, org):
                    g.add(e)
        # the outermost guard edges: those not themselves behind another guard edge
        outer = {e for e in g if not any(e2 != e and Q.edge_dominates(body, e2[0], e2[1], e[0]) for e2 in g)}
        if outer:
            starts = sorted({e[1] for e in outer})
    p = Q.must_pass(body, starts, through, removed_edges=_edges_excluded_for(F, body, du, sig_locals, 'SIGCONT'))
    return None if p is None else (body, p)


@RS.rule('C19.R17', 'K-PASS', 'SIGCONT continues a stopped simulated process whatever its disposition and signal mask, as a real kernel does '
         '(XSH 2.4.3): once raise_signal has found the process not terminated, every path the signal SIGCONT can take to the return - '
         'blocked, ignored, caught or default - passes set_state(Running)')
def r17(cx):
    F = cx.F
    fn = VPROC + 'raise_signal'
    body = F.body(fn)
    cx.fn(fn)
    cx.require(F.bodies.get(VPROC + 'set_state') is not None, 'Process::set_state not found')
    du = Q.DefUse(body)
    sig = [p for p in range(1, body.argc + 1) if body.locals[p].get('ty') == SIGNUM]
    cx.require(len(sig) == 1, 'raise_signal no longer takes one signal::Number')
    # anchor: the resume exists somewhere below raise_signal
    resumes = []
    for k, b in F.bodies.items():
        if k.startswith(VPROC) and '::tests' not in k:
            d2 = Q.DefUse(b)
            for blk, t in Q.find_calls(b, [VPROC + 'set_state']):
                org = d2.origin(t['a'][1]) if len(t['a']) > 1 else {'k': 'unknown'}
                if org['k'] == 'agg' and org['rv'].get('variant') == 'Running':
                    resumes.append((b, t))
    tests = _edges_excluded_for(F, body, du, set(sig), 'SIGCONT')
    res = _resume_skipping_path(F, fn, True)
    cx.site('%s: set_state(Running) sites in Process: %s; comparisons of the signal with a named signal pruned for SIGCONT: %d edges; '
            'every SIGCONT path from the not-terminated edge resumes: %s'
            % (fn, [b.loc(t) for b, t in resumes], len(tests), res is None))
    if not resumes:
        cx.violation(fn, 'sigcont-never-resumes', 'no Process method sets the state back to Running: a stopped simulated process can never be '
                     'continued by SIGCONT', loc=body.loc(body.d))
        return
    if res is not None:
        b, p = res
        cx.require(b != 'no-body', 'body of a Process method missing')
        calls = [pp.callee(b.term(x)).split('::')[-1] for x in p if b.term(x)['k'] == 'call' and pp.callee(b.term(x)).startswith(VPROC)]
        cx.violation(fn, 'sigcont-resume-skippable', 'a SIGCONT sent to a stopped, not terminated simulated process can reach the return of '
                     'raise_signal without set_state(Running) (via %s): the resume depends on the disposition or the mask of the signal, so a '
                     'stopped child that ignores or traps CONT stays stopped after `kill -CONT` and the parent\'s `wait` / `fg` hangs, while a real '
                     'kernel continues the process whatever the disposition' % (', '.join(calls) or 'a direct path'),
                     loc=b.loc(b.term(p[min(len(p) - 1, 1)])), path=Q.render_path(b, p))


RS.explanation += (' Added in wave 3: `..` is resolved against the simulated directory tree - no lexically shortened pathname reaches '
                   'FileSystem::get/save and chdir normalises only after resolving (R16, shared as C05.R6); SIGCONT resumes a stopped '
                   'process on every path through raise_signal/deliver_signal, whatever the disposition and mask (R17).')


# ---------------------------------------------------------------------------------------
# added after the independent reports C05w3 / C19w3 (fix 1d5a00f: the simulated opendir leaked a descriptor per call)
@RS.rule('C19.R18', 'K-RES', 'a directory stream gives its descriptor back: on a real system closedir (Drop of the real Dir) closes it; the '
         'simulated stream type keeps no descriptor and has no destructor, so the simulated fdopendir/opendir must close the descriptor '
         'on every successful exit - otherwise every directory scan of pathname expansion costs one descriptor for good (EMFILE under ulimit -n)')
def r18(cx):
    F = cx.F
    VD = 'yash_env::system::r#virtual::file_system::VirtualDir'
    cx.require(VD in F.adts, 'VirtualDir not found')
    holds_fd = any('io::Fd' in str(f.get('ty')) for v in F.adts[VD]['variants'] for f in v['fields'])
    has_drop = any(i.get('self_adt') == VD and str(i.get('trait') or '').endswith('ops::drop::Drop') for i in F.impls)
    fd_fn = [k for k in F.bodies if k.endswith(' as yash_env::system::file_system::Open>::fdopendir') and 'VirtualSystem' in k]
    op_fn = [k for k in F.bodies if k.endswith(' as yash_env::system::file_system::Open>::opendir') and 'VirtualSystem' in k]
    cx.require(len(fd_fn) == 1 and len(op_fn) == 1, 'impl Open for VirtualSystem: opendir / fdopendir not found')
    fb, ob = F.bodies[fd_fn[0]], F.bodies[op_fn[0]]
    cx.fn(fb.fn)
    cx.fn(ob.fn)
    cx.site('VirtualDir keeps a descriptor: %s; has a destructor: %s' % (holds_fd, has_drop))
    if holds_fd and has_drop:
        return                       # RAII, as on the real side: the destructor is the release (C19.R1 compares the impl sets)
    CLOSE = [re.compile(r'process::Process::close_fd$'), re.compile(r'::Close>?::close$')]
    for body, name in ((fb, 'fdopendir'), (ob, 'opendir')):
        closes = {blk for blk, t in Q.find_calls(body, CLOSE)}
        hands_over = {blk for blk, t in body.calls() if pp.callee(t).endswith('::fdopendir')} if body is ob else set()
        errs = {blk for blk, t in body.calls() if Q.callee_is(t, [re.compile(r'FromResidual<.*>>::from_residual$')])}
        errs |= {blk for blk, j, st in body.stmts() if st['k'] == 'assign' and st['rv']['k'] == 'agg'
                 and str(st['rv'].get('adt', '')).endswith('result::Result') and st['rv'].get('variant') in (1, 'Err')}
        p = body.shortest_path(0, set(body.return_blocks()), removed=closes | hands_over | errs)
        cx.site('simulated %s: every successful exit closes the descriptor%s: %s' % (name, ' or hands it to fdopendir' if body is ob else '', p is None))
        if p is not None:
            cx.violation(body.fn, 'directory-descriptor-never-closed', 'the simulated %s can return a directory stream while the descriptor '
                         'it was made from stays open, and nothing can close it later (VirtualDir keeps no descriptor and has no destructor): '
                         'under `ulimit -n 8` the sixth `echo *` finds the table full, opendir fails with EMFILE and the pattern is left '
                         'unexpanded - on a real system closedir gives the descriptor back' % name, loc=body.loc(body.term(p[-1])),
                         path=Q.render_path(body, p))


# added after the independent report C05w3 #1 (fix below: `file/..`, `file/.` resolved in the simulated file system)
@RS.rule('C19.R19', 'K-PASS', 'ENOTDIR: in the simulated file system EVERY step of a path walk that goes through the current file - a name, and '
         '`..` as well - is taken only after testing that the file is a directory (`.` and `..` are directory entries: `file/..` is '
         'ENOTDIR on a real kernel, so `*/..` in pathname expansion lists directories only)')
def r19(cx):
    F = cx.F
    cands = [b for k, b in F.bodies.items() if k.startswith('yash_env::system::r#virtual::file_system::FileSystem::get') and 'main' in k]
    cx.require(cands, 'the path walk FileSystem::get::main was not found')
    body = max(cands, key=lambda b: len(b.blocks))
    cx.fn(body.fn)
    # a private helper that looks a name up in the current file (`fn lookup(dir, name) -> Result<..>`) is analysed in place: its
    # kind test is a test on the way to the step
    body = F.inlined(body)
    for f in getattr(body, 'inlined_from', None) or []:
        cx.fn(f)
    du = Q.DefUse(body)
    # the dispatch on the path component
    disp = None
    for u in sorted(body.live_blocks()):
        ec = Q.edge_condition(F, body, du, u)
        if ec and ec[0]['k'] == 'discr' and 'Component' in (ec[0].get('ty') or '') and 'Option' not in (ec[0].get('ty') or ''):
            disp = (u, ec)
            break
    cx.require(disp is not None, 'FileSystem::get::main no longer dispatches on unix_path::Component')
    u, (org, labels) = disp
    dirtests = set()
    for b in body.live_blocks():
        ec = Q.edge_condition(F, body, du, b)
        if ec and ec[0]['k'] == 'discr' and 'FileBody' in (ec[0].get('ty') or ''):
            dirtests.add(b)
    cx.require(dirtests, 'FileSystem::get::main no longer tests FileBody::Directory')
    # a step = the stack of visited nodes changes (push of the child for a name, pop for `..`); variant names of the external enum
    # unix_path::Component are not in the facts, so the arms are classified by what they do
    steps = [(blk, t) for blk, t in body.calls() if re.search(r'alloc::vec::Vec::<T, A>::(push|pop|truncate)$', pp.callee(t))
             and 'Inode' in ' '.join(str(x) for x in (t.get('at') or [])) and body.dominates(u, blk)]
    n = 0
    for blk, t in steps:
        n += 1
        kind = pp.callee(t).split('::')[-1]
        p = body.shortest_path(u, {blk}, removed=dirtests)
        cx.site('FileSystem::get: node stack %s at %s: the current file is tested to be a directory before the step: %s' % (kind, body.loc(t), p is None))
        if p is not None:
            v = 'ParentDir' if kind != 'push' else 'Normal'
            cx.violation(body.root, 'step-without-directory-test:%s' % v, 'a %s component is followed without testing that the file it is '
                         'looked up in is a directory: `file/..` and `file/../x` resolve for a regular file, fstatat/opendir succeed where '
                         'a real kernel says ENOTDIR, and pathname expansion of `*/..` returns paths that do not exist'
                         % ('`..`' if v == 'ParentDir' else 'name'), loc=body.loc(t), path=Q.render_path(body, p))
    cx.floor(n, 2, 'stepping components (Normal, ParentDir)')


RS.explanation += (' Added after the third seed wave and its reports: a directory stream gives its descriptor back (R18); every step of the '
                   'simulated path walk, `..` included, is behind the directory test (R19).')


# added after the independent report C19w3 #2/#3 (fix d681433)
@RS.rule('C19.R6d', 'K-GUARD', 'two more POSIX error returns of pathname resolution: the EMPTY pathname is ENOENT (it never names the working '
         'directory: `echo y < ""` is a redirection error), and open(O_CREAT) of a missing `name/` creates nothing (EISDIR on Linux): the '
         'simulated kernel reaches its path lookup only behind the not-empty test and its file creation only behind the no-trailing-slash test')
def r6d(cx):
    F = cx.F
    GET = [re.compile(r'file_system::FileSystem::get$')]
    SAVE = [re.compile(r'file_system::FileSystem::save$')]
    fns = [VIRT + '::resolve_file', VIRT + '::resolve_existing_file']
    for fn in fns:
        body = F.inlined(fn)
        cx.fn(fn)
        du = Q.DefUse(body)
        gets = Q.find_calls(body, GET)
        cx.require(gets, '%s no longer looks the path up with FileSystem::get' % fn)
        for blk, t in gets:
            ok = any(org['k'] == 'call' and re.search(r'::is_empty$', pp.callee(org['t'])) and lab == ('bool', False)
                     for org, lab, e in Q.implied_conditions(F, body, du, blk))
            cx.site('%s: FileSystem::get at %s behind the pathname-is-not-empty test: %s' % (last(fn), body.loc(t), ok))
            cx.cellcount(1)
            if not ok:
                cx.violation(fn, 'empty-pathname-resolves', 'the simulated kernel looks an EMPTY pathname up (it resolves to the working '
                             'directory): open(""), stat(""), chdir("") succeed where a real kernel says ENOENT - `echo y < ""` runs the '
                             'command in the simulator and is a redirection error on a real system', loc=body.loc(t))
    body = F.inlined(fns[0])
    du = Q.DefUse(body)
    saves = Q.find_calls(body, SAVE)
    cx.require(saves, 'resolve_file no longer creates files with FileSystem::save')
    for blk, t in saves:
        ok = any(org['k'] == 'call' and re.search(r'::ends_with$', pp.callee(org['t'])) and lab == ('bool', False)
                 for org, lab, e in Q.implied_conditions(F, body, du, blk))
        cx.site('resolve_file: FileSystem::save at %s behind the no-trailing-slash test: %s' % (body.loc(t), ok))
        cx.cellcount(1)
        if not ok:
            cx.violation(fns[0], 'create-with-trailing-slash', 'open(O_CREAT) of a missing pathname that ends with a slash creates a regular '
                         'file of that name: `echo z > newfile/` succeeds and leaves `newfile` behind in the simulator; a real kernel refuses '
                         '(EISDIR) and creates nothing', loc=body.loc(t))


# added after a remark of rule helper H7 (fix 021895c: the simulated execve looked `./cmd` up from the root directory)
@RS.rule('C19.R20', 'K-CALLERS', 'every system call of the simulated kernel resolves a pathname the same way - relative to the working '
         'directory of the process: the raw lookup FileSystem::get (which reads a relative pathname from the root) is reached only '
         'through the two resolvers, resolve_existing_file and resolve_file, in which it is fed the result of resolve_relative_path')
def r20(cx):
    F = cx.F
    GETP = re.compile(r'file_system::FileSystem::get$')
    allowed = {VIRT + '::resolve_existing_file', VIRT + '::resolve_file'}
    users = [(b, blk, t) for b, blk, t in F.callers_of(lambda names, t: any(GETP.search(n) for n in names))
             # test support code (yash_env::test_helper, built only with the `test-helper` feature: assert_stdout / assert_stderr read
             # files of the simulated file system directly) is not a system call of the simulated kernel
             if '::tests' not in b.fn and '::test_helper::' not in b.fn
             and not b.root.startswith('yash_env::system::r#virtual::file_system::')]
    cx.floor(len(users), 2, 'callers of FileSystem::get in the simulated kernel')
    for b, blk, t in users:
        cx.fn(b.root)
        ok = b.root in allowed
        fed = False
        if ok:
            du = Q.DefUse(b)
            src = Q.value_source(b, du, t['a'][1]) if len(t['a']) > 1 else None
            tainted = Q.forward_taint(b, {c['dest']['l'] for _, c in Q.find_calls(b, [re.compile(r'::resolve_relative_path$')])})
            fed = Q.operand_local(t['a'][1]) in tainted if len(t['a']) > 1 and Q.operand_local(t['a'][1]) is not None else False
        cx.site('%s: FileSystem::get at %s: reviewed resolver: %s; pathname made relative to the working directory first: %s' % (last(b.root), b.loc(t), ok, fed))
        if not ok:
            cx.violation(b.root, 'raw-lookup-outside-resolvers', 'a system call of the simulated kernel looks its pathname up with the raw '
                         'FileSystem::get, which reads a relative pathname from the ROOT directory: after `cd /dir`, `./cmd` is found by the '
                         'command search (fstatat resolves from the working directory) but this call answers ENOENT or finds `/cmd`', loc=b.loc(t))
        elif not fed:
            cx.violation(b.root, 'resolver-skips-working-directory', 'the resolver hands FileSystem::get a pathname that did not go through '
                         'resolve_relative_path', loc=b.loc(t))


RS.explanation += ' Every pathname-taking simulated system call goes through the two resolvers (R20); the empty pathname is ENOENT and `name/` is not created (R6d).'


# added after the audit C13h2 #1 (open finding: a simulated process blocked in open() of a FIFO is never resumed)
@RS.rule('C19.R21', 'K-PASS', 'a woken simulated process makes progress: the run loop is woken by whatever its task waits for, not only by what '
         'select() watches (a FIFO whose other end gets opened wakes pending_open_wakers), so every resumption of the run loop polls the '
         'TASK again before it goes back to sleep - re-polling only select() leaves a process blocked in open(fifo) asleep for ever')
def r21(cx):
    F = cx.F
    cands = [b for b in F.bodies.values() if b.root.endswith('::run_virtual') and 'Concurrent<' in b.root and b.fn != b.root]
    cx.require(len(cands) >= 1, 'Concurrent<VirtualSystem>::run_virtual (coroutine body) not found')
    body = max(cands, key=lambda b: len(b.blocks))
    cx.fn(body.root)
    task_polls = set()
    for blk, t in body.calls():
        if Q.callee_is(t, ['futures_util::async_await::poll::poll']):
            ty = ' '.join(str(x) for x in (t.get('at') or [])) + ' ' + str(body.locals[t['dest']['l']].get('ty'))
            if re.search(r'Pin<&mut F>', ty):
                task_polls.add(blk)
    cx.require(task_polls, 'the poll of the task future (Pin<&mut F>) was not found in run_virtual')
    # suspension points that really suspend: the `pending!()` of the wait loop and the awaits of block_while_stopped
    yields = [b for b in range(len(body.blocks)) if body.term(b)['k'] == 'yield']
    real = []          # the voluntary `pending!()` suspensions: (poll block of the PendingOnce future, yield block)
    for y in yields:
        cur = y
        for _ in range(8):
            ps = body.pred(cur)
            if len(ps) != 1:
                break
            cur = ps[0]
            t = body.term(cur)
            if t['k'] == 'call' and re.search(r'Future(<.*>)?>?::poll', pp.callee(t)):
                if 'PendingOnce' in pp.callee(t) or 'PendingOnce' in str(t['f'].get('self') or ''):
                    real.append((cur, y))
                break
    cx.floor(len(real), 1, 'voluntary suspension points (pending!()) of run_virtual')
    du = Q.DefUse(body)
    dom = body.dominators()
    bad = []
    for P, y in real:
        # where the process continues once it has been woken: the exit of the await loop of `pending!()`
        conts = [b for b in body.reachable(P) if P in body.pred(b) or any(P in body.pred(q) and b in body.succ(q) for q in body.succ(P))]
        conts = [b for b in conts if b != y and y not in body.reachable(b, removed={P})]
        cx.require(conts, 'the continuation after pending!() was not found')
        chain = sorted(dom.get(P, ()), key=lambda d_: len(dom.get(d_, ())))      # entry ... P, in dominance order
        known = Q.flags_after_chain(body, chain)
        for c in conts:
            p = Q.shortest_path_flags(F, body, du, c, {P_ for P_, y_ in real}, removed=task_polls, known0=known)
            if p is not None:
                bad.append((y, p))
                break
    cx.site('run_virtual: %d suspension points; resumptions that can go back to sleep without polling the task: %d' % (len(real), len(bad)))
    if bad:
        y, p = bad[0]
        cx.violation(body.root, 'resumed-without-polling-task', 'after a wake-up the run loop of a simulated process can re-poll select() only and '
                     'suspend again without polling the task: a task that waits for something select() does not watch - open() of a FIFO whose '
                     'other end is not open yet - is never resumed, so `echo hi >fifo & cat <fifo; wait` deadlocks under every schedule '
                     '("deadlock detected"), while a real kernel completes the rendezvous', loc=body.loc(body.term(y)), path=Q.render_path(body, p))


# ---------------------------------------------------------------------------------------
# added after the fix 6476b30 (the simulated opendir listed a directory that has no read permission)
INODE = VKERNEL + '::file_system::Inode'
_MODE_TEST = re.compile(r'<impl yash_env::system::file_system::Mode>::(contains|intersects)$')
_MODE_CONST = re.compile(r'<impl yash_env::system::file_system::Mode>::(?:USER|GROUP|OTHER|ALL)_(READ|WRITE|EXEC)$')
_MODE_OR = re.compile(r'file_system::Mode as core::ops::bit::BitOr>::bitor$|<impl yash_env::system::file_system::Mode>::union$')
_MAP_SEARCH = {'get', 'get_mut', 'contains_key', 'get_key_value'}
_MAP_LIST = {'keys', 'iter', 'values', 'into_iter', 'iter_mut', 'values_mut', 'into_keys', 'into_values', 'drain'}
_DERIVED = re.compile(r' as core::(clone::Clone|fmt::Debug|cmp::PartialEq|cmp::Eq|hash::Hash)>::')


def _mode_class(du, operand, depth=2):
    """'READ' | 'WRITE' | 'EXEC' when the operand is a named permission constant of that class (or a union of such)."""
    org = du.origin(operand)
    if org['k'] == 'const':
        m = _MODE_CONST.search(str(org['o'].get('cdef') or ''))
        return m.group(1) if m else None
    if org['k'] == 'call' and depth and _MODE_OR.search(pp.callee(org['t'])):
        cs = {_mode_class(du, a, depth - 1) for a in org['t']['a']}
        return cs.pop() if len(cs) == 1 else None
    return None


def _reads_inode_permissions(du, operand, depth=5):
    """The operand is (a reference to / a copy of) the `permissions` field of an Inode."""
    org = du.origin(operand)
    while depth:
        depth -= 1
        if org['k'] not in ('ref', 'place'):
            return False
        pl = org['pl']
        if Q._projects_field(pl, INODE, 'permissions'):
            return True
        if pl.get('p'):
            return False
        nxt = du.origin_place(pl)
        if nxt['k'] == 'place' and nxt['pl'] == pl:
            return False
        org = nxt
    return False


def _perm_test(F, du, org, lab, depth=1):
    """(class, granted) when the condition `org` with outcome `lab` tells that a permission class of an inode is granted or
    not: Mode::contains / Mode::intersects on Inode.permissions with a named permission constant - directly, or through a
    predicate of the simulated kernel whose body is such a test."""
    org, lab = Q.peel_not(du, org, lab)
    if not lab or lab[0] != 'bool' or org['k'] != 'call':
        return None
    t = org['t']
    name = pp.callee(t)
    if _MODE_TEST.search(name) and len(t['a']) == 2:
        cls = _mode_class(du, t['a'][1])
        if cls and _reads_inode_permissions(du, t['a'][0]):
            return (cls, lab[1])
        return None
    cb = F.bodies.get(name)
    if depth and cb is not None and name.startswith(VKERNEL) and cb.locals[0].get('ty') == 'bool' and len(cb.blocks) <= 12:
        cdu = Q.DefUse(cb)
        got = set()
        for blk, ct in cb.calls():
            if ct['dest']['l'] == 0 and not ct['dest'].get('p'):
                got.add(_perm_test(F, cdu, {'k': 'call', 't': ct, 'b': blk}, ('bool', True), 0))
        defs0 = [s for _, _, s in cb.stmts() if s['k'] == 'assign' and s['lhs']['l'] == 0]
        if len(got) == 1 and None not in got and not defs0:
            cls, v = got.pop()
            return (cls, v == lab[1])
    return None


def _mentions_permissions(F, body, du):
    """Some read of Inode.permissions, or some Mode test against a permission constant, in the body (whatever its shape)."""
    for blk, j, s in body.stmts():
        if s['k'] == 'assign' and any(Q._projects_field(p, INODE, 'permissions') for p in Q.rvalue_places(s['rv'])):
            return body.loc(s)
    for blk, t in body.calls():
        if _MODE_TEST.search(pp.callee(t)) and any(_mode_class(du, a) for a in t['a']):
            return body.loc(t)
        for a in t['a']:
            p = Q.operand_place(a)
            if p is not None and Q._projects_field(p, INODE, 'permissions'):
                return body.loc(t)
    return None


def _behind_permission(F, body, du, site_blk, cls):
    """(how, [test calls]): how the block is known to run only after permission class `cls` was found granted - a dominating
    (or implied) test, or no path from the entry avoids the granted edge of such a test. (None, []) when not shown."""
    for org, lab, e in Q.implied_conditions(F, body, du, site_blk):
        if _perm_test(F, du, org, lab) == (cls, True):
            return 'dominating test at %s' % body.loc(body.term(e[0])), [Q.peel_not(du, org, lab)[0]['t']]
    granted = set()
    tests = []
    for u in sorted(body.live_blocks()):
        ec = Q.edge_condition(F, body, du, u)
        if not ec:
            continue
        for tgt, labs in ec[1].items():
            if labs and all(_perm_test(F, du, ec[0], l) == (cls, True) for l in labs):
                granted.add((u, tgt))
                tests.append(Q.peel_not(du, ec[0], labs[0])[0]['t'])
    # a path that builds an error value (`return Err(..)` of an inlined helper, the residual of `?`) does not go on to the use
    errs = {blk for blk, t in body.calls() if Q.callee_is(t, Q.FROM_RESIDUAL)}
    errs |= {blk for blk, j, st in Q.find_aggregates(body, 'core::result::Result', 'Err')}
    if granted and Q.shortest_path_flags(F, body, du, 0, {site_blk}, removed=errs - {site_blk}, removed_edges=granted) is None:
        return 'every path takes the granted edge of the test at %s' % ', '.join(sorted({body.loc(t) for t in tests})), tests
    return None, []


_TRANSPARENT = re.compile(r'::(deref|deref_mut|borrow|borrow_mut|as_ref|clone|inode)$')


def _value_roots(body, du, operand, depth=16):
    """Locals met when walking an operand back through references, copies, field projections and Rc/RefCell/Ref accessors:
    the values a tested `&inode.permissions` belongs to."""
    seen = set()
    work = [Q.operand_place(operand)]
    while work and depth:
        depth -= 1
        p = work.pop()
        if p is None or p['l'] in seen:
            continue
        l = p['l']
        seen.add(l)
        for blk, idx, node in du.defs.get(l, []):
            if idx == 't':
                if _TRANSPARENT.search(pp.callee(node).split(' [')[0]) and node['a']:
                    work.append(Q.operand_place(node['a'][0]))
            elif node['k'] == 'assign':
                work.extend(Q.rvalue_places(node['rv']))
    return seen


def _directory_content_uses(F):
    """{body path: [(block, call, 'search' | 'list')]}: calls on the `files` map of a FileBody::Directory in the simulated
    kernel - a lookup of one name (search) or an enumeration of the names (list)."""
    out = {}
    for k, b in _kernel_bodies(F).items():
        if _DERIVED.search(k):
            continue
        seeds = set()
        for blk, j, s in b.stmts():
            if s['k'] == 'assign' and not s['lhs'].get('p') and any(Q._projects_field(p, re.compile(r'::file_body::FileBody$'), 'files')
                                                                     for p in Q.rvalue_places(s['rv'])):
                seeds.add(s['lhs']['l'])
        if not seeds:
            continue
        T = Q.forward_taint(b, seeds, through_calls=[re.compile(r'::deref$|::deref_mut$|::borrow$|::as_ref$')])
        for blk, t in b.calls():
            if not t['a'] or 'HashMap<' not in str((t.get('at') or [''])[0]) or 'Inode' not in str((t.get('at') or [''])[0]):
                continue
            l = Q.operand_local(t['a'][0])
            if l is None or l not in T:
                continue
            seg = pp.callee(t).split(' [')[0].split('::')[-1]
            kind = 'search' if seg in _MAP_SEARCH else 'list' if seg in _MAP_LIST else None
            if kind:
                out.setdefault(k, []).append((blk, t, kind))
    return out


def _short(k):
    return '::'.join(k.split('::')[-3:]) if not k.startswith('<') else k.split('::')[-1]


def _kernel_inlined(F, body, max_blocks=220):
    """The body with the private functions of the simulated kernel it calls (resolve_file, create_fd, small predicates) in place."""
    from facts import inline_helpers
    return inline_helpers(F, body, lambda c: c.startswith(VKERNEL) and (F.fns.get(c) or {}).get('vis') not in (None, 'pub')
                          and '::tests' not in c, max_blocks=max_blocks)


@RS.rule('C19.R22', 'K-SIBLING', 'the contents of a simulated directory are used only with the permission a real kernel demands for that use, and '
         'the two uses agree: a name is looked up in a directory (path walk) behind the SEARCH permission of that directory, and the names are '
         'enumerated (opendir: pathname -> directory stream) behind its READ permission - `echo dir/*` on a directory without read '
         'permission is EACCES in opendir and the pattern stays unexpanded. Not claimed: open()/execve check no permission bits on the '
         'last component, so fdopendir of a descriptor got from open() is outside this rule')
def r22(cx):
    F = cx.F
    uses = _directory_content_uses(F)
    searchers = {k: [u for u in v if u[2] == 'search'] for k, v in uses.items() if any(u[2] == 'search' for u in v)}
    listers = sorted(k for k, v in uses.items() if any(u[2] == 'list' for u in v))
    cx.require(searchers, 'no lookup of a name in FileBody::Directory.files found in the simulated kernel (the path walk FileSystem::get moved)')
    cx.require(listers, 'no enumeration of FileBody::Directory.files found in the simulated kernel (VirtualDir::try_from moved)')
    # row 1 (the sibling that always had it): lookup of a name behind the search permission
    for k in sorted(searchers):
        b = F.bodies[k]
        cx.fn(k)
        du = Q.DefUse(b)
        for blk, t, kind in searchers[k]:
            how, _tests = _behind_permission(F, b, du, blk, 'EXEC')
            cx.site('%s: a name is looked up in a directory (%s at %s) behind its search permission: %s'
                    % (k, pp.callee(t).split('::')[-1], b.loc(t), how or 'NO'))
            cx.cellcount(1)
            if not how:
                seen = _mentions_permissions(F, b, du)
                cx.require(not seen, '%s consults permission bits at %s in a shape this rule does not understand' % (k, seen))
                cx.violation(k, 'directory-searched-without-search-permission', 'a name is looked up in a simulated directory without '
                             'testing the search (execute) permission of the directory: `cat noexec/file` succeeds in the simulator and is '
                             'EACCES on a real kernel', loc=b.loc(t))
    # row 2: enumeration of the names behind the read permission, decided where a PATHNAME is turned into a listing
    chain = {F.bodies[k].root for k in listers}
    KB = _kernel_bodies(F)
    changed = True
    while changed:
        changed = False
        for k, b in KB.items():
            if b.root in chain:
                continue
            if any(t['f'].get('def') in chain for _, t in b.calls()):
                chain.add(b.root)
                changed = True
    by_path = [r for r in sorted(chain) if any(re.search(r'CStr|unix_path::Path|PathBuf', str(i)) for i in (F.fns.get(r) or {}).get('inputs') or [])]
    by_fd = [r for r in sorted(chain) if r not in by_path and any(str(i).endswith('io::Fd') for i in (F.fns.get(r) or {}).get('inputs') or [])]
    for r in by_fd:
        cx.site('%s: lists the directory behind a DESCRIPTOR: the permission belongs to the open() that made the descriptor (the simulated '
                'open checks none on the last component - not claimed)' % r)
    cx.floor(len(by_path), 1, 'simulated system calls that turn a pathname into a directory listing (opendir)')
    for r in by_path:
        base = F.bodies.get(r)
        cx.require(base is not None, 'body of %s missing' % r)
        cx.fn(r)
        body = _kernel_inlined(F, base)
        du = Q.DefUse(body)
        hand = [(blk, t) for blk, t in body.calls() if t['f'].get('def') in chain and t['f'].get('def') != r]
        cx.require(hand, '%s no longer hands the directory to %s' % (r, sorted(chain - {r})))
        for blk, t in hand:
            how, tests = _behind_permission(F, body, du, blk, 'READ')
            if how:
                # the tested inode is the one handed on
                roots = set()
                for tt in tests:
                    roots |= _value_roots(body, du, tt['a'][0])
                handed = {Q.operand_local(a) for a in t['a']} - {None}
                cx.require(handed & Q.forward_taint(body, roots), '%s: the read-permission test at %s is not on the inode handed to %s'
                           % (r, ', '.join(sorted({body.loc(tt) for tt in tests})), pp.callee(t).split('::')[-1]))
            cx.site('%s: the resolved directory is handed to %s (%s) behind its read permission: %s; sibling: %s tests the search permission'
                    % (r, pp.callee(t).split('::')[-1], body.loc(t), how or 'NO', ', '.join(_short(k) for k in sorted(searchers))))
            cx.cellcount(1)
            if how:
                continue
            seen = _mentions_permissions(F, body, du)
            cx.require(not seen, '%s consults permission bits at %s in a shape this rule does not understand' % (r, seen))
            cx.violation(r, 'directory-listed-without-read-permission', 'the simulated %s turns a pathname into a directory listing without '
                         'looking at the permission bits of the directory, while the path walk (%s) does test the search permission: after '
                         '`mkdir -m 300 secret; : >secret/file`, `echo secret/*` lists secret/file in the simulator; a real opendir fails with '
                         'EACCES and the pattern is left unexpanded' % (last(r), ', '.join(_short(k) for k in sorted(searchers))), loc=body.loc(t))


RS.explanation += (' The contents of a simulated directory are used behind the permission of the use, and the two uses agree: lookup of a '
                   'name behind the search permission (path walk), enumeration behind the read permission (opendir; fix 6476b30) (R22).')


# ---------------------------------------------------------------------------------------
# added after the fix f15911f (dup2(fd, fd) cleared FD_CLOEXEC; dup / dup2 stored a negative descriptor number)
FD_TY = 'yash_env::io::Fd'
PROCESS = VKERNEL + '::process::Process'
_FD_MAP_CALL = re.compile(r'^alloc::collections::btree::map::BTreeMap::<K, V, A>::(\w+)$')
_FD_MAP_ADDS = {'insert', 'try_insert', 'entry'}
_FD_MAP_BULK = {'extend', 'append', 'extend_one'}
_FD_MAP_KEEPS = {'remove', 'remove_entry', 'clear', 'get_mut', 'retain', 'pop_first', 'pop_last', 'values_mut', 'iter_mut', 'split_off',
                 'first_entry', 'last_entry', 'get', 'keys', 'iter', 'values', 'len', 'is_empty', 'contains_key', 'range', 'range_mut',
                 'first_key_value', 'last_key_value'}
_CMP_EQ = re.compile(r'core::cmp::PartialEq(<[^>]*>)?>?::(eq|ne)$')
_CMP_ORD = re.compile(r'core::cmp::PartialOrd(<[^>]*>)?>?::(lt|le|gt|ge)$')
_INT = re.compile(r'^(?:const )?(-?\d+)(?:_?[iu](?:8|16|32|64|128|size))?$')


def _fd_root(body, du, operand, depth=10):
    """The parameter / variable of type Fd (or its number `.0`) an operand is a copy, a cast or a reference of; None for anything else."""
    p = Q.operand_place(operand)
    while depth and p is not None:
        depth -= 1
        proj = [e for e in (p.get('p') or []) if e != '*']
        if any(not (isinstance(e, dict) and e.get('adt') == FD_TY) for e in proj):
            return None
        l = p['l']
        if 1 <= l <= body.argc and l not in du.defs:
            return l
        d = du.single_def(l)
        if d is None or d[1] == 't' or d[2]['k'] != 'assign':
            return l if FD_TY in str(body.locals[l].get('ty')) or proj else None
        rv = d[2]['rv']
        if rv['k'] in ('use', 'cast'):
            p = Q.operand_place(rv['o'])
        elif rv['k'] == 'ref':
            p = rv['pl']
        else:
            return None
    return None


def _int_value(body, du, operand, depth=4):
    """Integer denoted by an operand: a literal, or the number of a constant `Fd(n)`; None when unknown."""
    if 'c' in operand and not Q.operand_place(operand):
        m = _INT.match(str(operand['c']).strip())
        return int(m.group(1)) if m else None
    org = du.origin(operand)
    while depth:
        depth -= 1
        if org['k'] == 'const':
            m = _INT.match(str(org['o'].get('c')).strip())
            return int(m.group(1)) if m else None
        if org['k'] == 'agg' and org['rv'].get('adt') == FD_TY and len(org['rv'].get('ops') or []) == 1:
            return _int_value(body, du, org['rv']['ops'][0], depth)
        if org['k'] in ('ref', 'place') and not org['pl'].get('p'):
            nxt = du.origin_place(org['pl'])
            if nxt['k'] == 'place' and nxt['pl'] == org['pl']:
                return None
            org = nxt
            continue
        if org['k'] == 'cast':
            org = org['from']
            continue
        return None
    return None


_FLIP = {'Lt': 'Gt', 'Le': 'Ge', 'Gt': 'Lt', 'Ge': 'Le'}
_NEG = {'Lt': 'Ge', 'Le': 'Gt', 'Gt': 'Le', 'Ge': 'Lt'}


def _sign_fact(body, du, org, lab, key):
    """'nonneg' | 'neg' when the condition tells that the number of descriptor `key` is >= 0 / < 0; None otherwise.
    Shapes: `fd.0 < c`, `c <= fd.0`, ... with a literal, `fd < Fd(c)`, `fd.0.is_negative()`, `uN::try_from(fd.0)` being Ok."""
    org, lab = Q.peel_not(du, org, lab)
    if not lab:
        return None
    if org['k'] == 'discr' and lab[0] == 'variant' and not org['pl'].get('p'):
        t = Q.value_source(body, du, {'cp': org['pl']})
        if t is not None and re.search(r'::(try_from|try_into)$', pp.callee(t).split(' [')[0]) and t['a'] and \
                _fd_root(body, du, t['a'][0]) == key and re.search(r'Result<u(8|16|32|64|128|size),', str(t.get('dty') or '')):
            return 'nonneg' if lab[1] in ('Ok', 'Continue') else 'neg' if lab[1] in ('Err', 'Break') else None
        return None
    if lab[0] != 'bool':
        return None
    v = lab[1]
    op = x = c = None
    if org['k'] == 'binop' and org['rv']['op'] in _FLIP:
        op, a, b = org['rv']['op'], org['rv']['a'], org['rv']['b']
    elif org['k'] == 'call' and _CMP_ORD.search(pp.callee(org['t']).split(' [')[0]) and len(org['t']['a']) == 2:
        op = {'lt': 'Lt', 'le': 'Le', 'gt': 'Gt', 'ge': 'Ge'}[pp.callee(org['t']).split(' [')[0].rsplit('::', 1)[1]]
        a, b = org['t']['a']
    elif org['k'] == 'call' and re.search(r'^core::num::<impl i\d+>::(is_negative|is_positive)$', pp.callee(org['t'])) and org['t']['a']:
        if _fd_root(body, du, org['t']['a'][0]) != key:
            return None
        if pp.callee(org['t']).endswith('is_negative'):
            return 'neg' if v else 'nonneg'
        return 'nonneg' if v else None
    else:
        return None
    if _fd_root(body, du, a) == key:
        c = _int_value(body, du, b)
    elif _fd_root(body, du, b) == key:
        c = _int_value(body, du, a)
        op = _FLIP[op]
    if c is None:
        return None
    if not v:
        op = _NEG[op]
    # now: number OP c holds
    if (op == 'Ge' and c >= 0) or (op == 'Gt' and c >= -1):
        return 'nonneg'
    if (op == 'Lt' and c <= 0) or (op == 'Le' and c <= -1):
        return 'neg'
    return None


def _mentions_key_in_condition(F, body, du, blk, key):
    """A dominating condition reads the descriptor `key` in a shape _sign_fact does not decide."""
    for org, lab, e in Q.implied_conditions(F, body, du, blk):
        org, lab = Q.peel_not(du, org, lab)
        ops = []
        if org['k'] == 'binop':
            ops = [org['rv']['a'], org['rv']['b']]
        elif org['k'] == 'call':
            ops = list(org['t']['a'])
        elif org['k'] == 'discr':
            t = Q.value_source(body, du, {'cp': org['pl']})
            ops = list(t['a']) if t is not None else []
        if any(Q.operand_place(o) is not None and _fd_root(body, du, o) == key for o in ops):
            return body.loc(body.term(e[0]))
    return None


def _same_fd_fact(body, du, org, lab, a, b):
    """True / False when the condition tells that the descriptors a and b are equal / different; None otherwise."""
    org, lab = Q.peel_not(du, org, lab)
    if not lab or lab[0] != 'bool':
        return None
    if org['k'] == 'call' and _CMP_EQ.search(pp.callee(org['t']).split(' [')[0]) and len(org['t']['a']) == 2:
        ops, ne = org['t']['a'], pp.callee(org['t']).split(' [')[0].endswith('::ne')
    elif org['k'] == 'binop' and org['rv']['op'] in ('Eq', 'Ne'):
        ops, ne = [org['rv']['a'], org['rv']['b']], org['rv']['op'] == 'Ne'
    else:
        return None
    if {_fd_root(body, du, o) if Q.operand_place(o) is not None else None for o in ops} != {a, b}:
        return None
    return lab[1] != ne


def _fd_table_writes(body, du):
    """[(block, call, what)]: calls that change the descriptor table of a simulated process - a `&mut Process` method given a
    descriptor number, or a mutator of the `fds` map."""
    out = []
    for blk, t in body.calls():
        name = pp.callee(t).split(' [')[0]
        at = [str(x) for x in (t.get('at') or [])]
        if name.startswith(PROCESS + '::') and at and at[0].startswith('&mut') and any(x == FD_TY for x in at[1:]):
            out.append((blk, t, name.split('::')[-1]))
        m = _FD_MAP_CALL.match(name)
        if m and at and at[0].startswith('&mut') and 'BTreeMap<' + FD_TY in at[0] and m.group(1) not in ('get', 'keys', 'iter', 'values', 'len'):
            out.append((blk, t, 'fds.' + m.group(1)))
    return out


@RS.rule('C19.R23', 'K-GUARD', 'dup2(fd, fd) is a no-op that returns fd, as dup2(2) says ("shall return fildes2 without closing it"): in the '
         'simulated dup2 every change of the descriptor table (set_fd, which rebuilds the slot with FD_CLOEXEC cleared) happens only when '
         'the two descriptors differ - otherwise `dup2(1, 1)` silently drops the close-on-exec flag of descriptor 1')
def r23(cx):
    F = cx.F
    d = _impl_fn(F, VIRT, 'Dup::dup2')
    cx.require(d is not None, 'VirtualSystem does not implement Dup::dup2')
    base = F.bodies.get(d)
    cx.require(base is not None, 'body of %s missing' % d)
    cx.fn(d)
    body = _kernel_inlined(F, base)
    du = Q.DefUse(body)
    fds = [p for p in range(1, body.argc + 1) if body.locals[p].get('ty') == FD_TY]
    cx.require(len(fds) == 2, 'the simulated dup2 no longer takes two descriptors')
    a, b = fds
    writes = _fd_table_writes(body, du)
    cx.require(writes, 'the simulated dup2 no longer changes the descriptor table through a &mut Process method or the fds map (anchor moved)')
    for blk, t, what in writes:
        ok = any(_same_fd_fact(body, du, org, lab, a, b) is False for org, lab, e in Q.implied_conditions(F, body, du, blk))
        cx.site('simulated dup2: %s at %s only when `%s` and `%s` differ: %s' % (what, body.loc(t), body.local_name(a), body.local_name(b), ok))
        cx.cellcount(1)
        if ok:
            continue
        # some other comparison of the two descriptors: a shape this rule does not decide
        other = None
        for u in sorted(body.live_blocks()):
            for st in body.blocks[u]['s']:
                if st['k'] == 'assign' and st['rv']['k'] == 'binop' and \
                        {_fd_root(body, du, o) for o in (st['rv']['a'], st['rv']['b']) if Q.operand_place(o) is not None} == {a, b}:
                    other = body.loc(st)
            tt = body.term(u)
            if tt['k'] == 'call' and tt is not t and {_fd_root(body, du, o) for o in tt['a'] if Q.operand_place(o) is not None} >= {a, b} \
                    and re.search(r'core::cmp::', pp.callee(tt)):
                other = body.loc(tt)
        cx.require(other is None, 'the simulated dup2 compares its two descriptors at %s in a shape this rule does not understand' % other)
        cx.violation(d, 'same-descriptor-slot-rebuilt:%s' % what, 'the simulated dup2 changes the descriptor table (%s) without having found the '
                     'two descriptors different: dup2(fd, fd) replaces the slot of fd by a copy with FD_CLOEXEC cleared, so `dup2(1, 1)` on '
                     'a close-on-exec descriptor 1 loses the flag; a real kernel returns fd and changes nothing' % what, loc=body.loc(t))


@RS.rule('C19.R24', 'K-WRITERS', 'descriptor numbers are never negative: every insertion into the descriptor table of a simulated process '
         '(Process.fds) is behind a test that the key is not negative - inside the inserting function when it is public (set_fd, through '
         'which open_fd_ge / dup / dup2 / open go) - so `dup2(1, -1)` is EBADF and leaves no descriptor -1 even when RLIMIT_NOFILE is '
         'unlimited; and fcntl(F_DUPFD) with a negative minimum is EINVAL in the simulated dup as in POSIX')
def r24(cx):
    F = cx.F
    cx.require(PROCESS in F.adts, 'virtual::process::Process not found')
    fields = [f['name'] for f in F.adts[PROCESS]['variants'][0]['fields']]
    cx.require('fds' in fields, 'Process has no field `fds` any more')
    fds_idx = fields.index('fds')
    ninserts = 0
    for k in sorted(F.bodies):
        if not k.startswith('yash_env::') and 'yash_env::' not in k.split(' as ')[0]:
            continue
        if '::tests::' in k or k.endswith('::tests') or '::tests::' in F.bodies[k].root:
            continue
        b = F.bodies[k]
        hits = Q.field_writes(b, PROCESS, 'fds')
        aggs = Q.find_aggregates(b, PROCESS)
        if not hits and not aggs:
            continue
        du = Q.DefUse(b)
        # a whole table put in place: a fresh one or a copy of another process's (fork)
        whole = [(i, s, s['rv']) for i, j, s, how, f in hits if how == 'assign' and
                 isinstance(s['lhs']['p'][-1], dict) and s['lhs']['p'][-1].get('f') == 'fds']
        whole += [(i, s, {'k': 'use', 'o': s['rv']['ops'][fds_idx]}) for i, j, s in aggs if len(s['rv'].get('ops') or []) > fds_idx]
        for i, s, rv in whole:
            src = Q.value_source(b, du, rv['o']) if rv['k'] == 'use' and Q.operand_place(rv['o']) is not None else None
            okc = src is not None and re.search(r'BTreeMap::<[^>]*>::new$|Default>::default$|Clone>::clone$', pp.callee(src).split(' [')[0])
            cx.site('%s: the whole descriptor table is set at %s from %s' % (k, b.loc(s), pp.callee(src).split('::')[-1] if src else '?'))
            cx.require(okc, '%s: the descriptor table is replaced at %s by something that is neither a new nor a cloned table' % (k, b.loc(s)))
        for i, j, s, how, f in hits:
            if how != 'borrow_mut':
                continue
            T = Q.forward_taint(b, {s['lhs']['l']}, through_calls=[re.compile(r'::deref_mut$')])
            cx.require(0 not in T, '%s hands out `&mut` access to the descriptor table (%s): its users are not followed by this rule' % (k, b.loc(s)))
            for blk, t in b.calls():
                m = _FD_MAP_CALL.match(pp.callee(t).split(' [')[0])
                if not t['a'] or Q.operand_local(t['a'][0]) not in T:
                    continue
                if not m:
                    cx.require('BTreeMap' not in str((t.get('at') or [''])[0]),
                               '%s: the descriptor table is passed to %s at %s (not understood)' % (k, pp.callee(t), b.loc(t)))
                    continue
                meth = m.group(1)
                if meth in _FD_MAP_KEEPS:
                    continue
                cx.require(meth in _FD_MAP_ADDS, '%s: BTreeMap::%s on the descriptor table at %s may add keys in a way this rule does not follow'
                           % (k, meth, b.loc(t)))
                ninserts += 1
                cx.fn(k)
                key = _fd_root(b, du, t['a'][1])
                cx.require(key is not None, '%s: the key inserted at %s is not a plain descriptor variable' % (k, b.loc(t)))
                ok = any(_sign_fact(b, du, org, lab, key) == 'nonneg' for org, lab, e in Q.implied_conditions(F, b, du, blk))
                where = 'in the function'
                pub = (F.fns.get(b.root) or {}).get('vis') == 'pub'
                if not ok and not pub and 1 <= key <= b.argc:
                    # a private inserting function: every caller must have made sure
                    callers = [(cb, cblk, ct) for cb, cblk, ct in F.callers_of(lambda names, ct_: b.root in names) if '::tests' not in cb.fn]
                    good = []
                    for cb, cblk, ct in callers:
                        cdu = Q.DefUse(cb)
                        arg = ct['a'][key - 1]
                        ck = _fd_root(cb, cdu, arg) if Q.operand_place(arg) is not None else None
                        n = _int_value(cb, cdu, arg)
                        good.append((n is not None and n >= 0) or (ck is not None and any(
                            _sign_fact(cb, cdu, org, lab, ck) == 'nonneg' for org, lab, e in Q.implied_conditions(F, cb, cdu, cblk))))
                    ok = bool(callers) and all(good)
                    where = 'in every caller (%d)' % len(callers)
                cx.site('%s: BTreeMap::%s of key `%s` into Process.fds at %s behind a not-negative test %s: %s'
                        % (k, meth, b.local_name(key), b.loc(t), where, ok))
                cx.cellcount(1)
                if ok:
                    continue
                odd = _mentions_key_in_condition(F, b, du, blk, key)
                cx.require(odd is None, '%s: the insertion at %s is behind a test of the key at %s that this rule does not understand' % (k, b.loc(t), odd))
                cx.violation(b.root, 'negative-descriptor-stored', 'a negative number can become a key of the descriptor table: %s inserts `%s` '
                             'without a test that it is not negative (the limit test does not apply when RLIMIT_NOFILE is unlimited, the '
                             'default of the simulator), so `dup2(1, -1)` succeeds and leaves a descriptor -1 open, and `dup(1, -1)` '
                             'allocates -1; a real kernel answers EBADF / EINVAL' % (_short(b.root), b.local_name(key)), loc=b.loc(t))
    cx.floor(ninserts, 1, 'insertions into Process.fds')
    # fcntl(F_DUPFD, negative) is EINVAL
    d = _impl_fn(F, VIRT, 'Dup::dup')
    cx.require(d is not None, 'VirtualSystem does not implement Dup::dup')
    base = F.bodies.get(d)
    cx.require(base is not None, 'body of %s missing' % d)
    cx.fn(d)
    body = _kernel_inlined(F, base)
    du = Q.DefUse(body)
    fdp = [p for p in range(1, body.argc + 1) if body.locals[p].get('ty') == FD_TY]
    cx.require(len(fdp) == 2, 'the simulated dup no longer takes (from, to_min)')
    to_min = fdp[1]
    einval = [(blk, s) for blk, j, s in Q.find_aggregates(body, 'core::result::Result', 'Err')
              if any(str(o.get('cdef') or '').endswith('errno::Errno::EINVAL') for o in s['rv']['ops'] if isinstance(o, dict))]
    ok = any(_sign_fact(body, du, org, lab, to_min) == 'neg' for blk, s in einval for org, lab, e in Q.implied_conditions(F, body, du, blk))
    cx.site('simulated dup (F_DUPFD): negative minimum `%s` => EINVAL: %s' % (body.local_name(to_min), ok))
    cx.cellcount(1)
    if not ok:
        anywhere = [lb.fn for lb in F.logical(d) for blk, j, s in lb.stmts() if s['k'] == 'assign' and
                    any(isinstance(o, dict) and str(o.get('cdef') or '').endswith('errno::Errno::EINVAL') for o in Q.rvalue_operands(s['rv']))]
        anywhere += [lb.fn for lb in F.logical(d) for blk, t in lb.calls()
                     if any(str(o.get('cdef') or '').endswith('errno::Errno::EINVAL') for o in t['a'])]
        cx.require(not anywhere, 'the simulated dup mentions EINVAL in %s in a shape this rule does not understand' % sorted(set(anywhere)))
        cx.violation(d, 'negative-minimum-not-EINVAL', 'the simulated dup (fcntl F_DUPFD) has no EINVAL return under a test that the minimum '
                     'descriptor is negative: `dup(1, -1)` answers EMFILE (or allocates descriptor -1) where POSIX fcntl says EINVAL',
                     loc=body.loc(body.d))


RS.explanation += (' After fix f15911f: the simulated dup2 changes the descriptor table only when its two descriptors differ (R23); every '
                   'insertion into Process.fds is behind a not-negative test of the key and dup with a negative minimum is EINVAL (R24).')


# ---------------------------------------------------------------- added after seed agent C19w4 reported (exit 300) -> 300 in the simulator
@RS.rule('C19.R25', 'K-TAINT', 'the parent of a simulated process sees the low 8 bits of its exit status, as wait(2) delivers them on a real '
         'kernel (`(exit 300); echo $?` prints 44 on both systems): the status stored by the simulated exit() reaches ProcessState::exited '
         'only through an 8-bit mask')
def r25(cx):
    F = cx.F
    d = _impl_fn(F, VIRT, 'Exit::exit')
    cx.require(d is not None, 'VirtualSystem does not implement Exit::exit')
    base = F.bodies.get(d)
    cx.require(base is not None, 'body of %s missing' % d)
    body = _kernel_inlined(F, base)
    cx.fn(d)
    du = Q.DefUse(body)
    param = [p for p in range(1, body.argc + 1) if 'ExitStatus' in (body.locals[p].get('ty') or '')]
    cx.require(len(param) == 1, 'the simulated exit no longer takes one ExitStatus')
    sinks = [(blk, t) for blk, t in body.calls() if Q.callee_is(t, [re.compile(r'job::ProcessState::exited$')])]
    sinks += [(blk, s) for blk, j, s in Q.find_aggregates(body, 'yash_env::job::ProcessState', 'Halted')]
    sinks += [(blk, s) for blk, j, s in Q.find_aggregates(body, 'yash_env::job::ProcessResult', 'Exited')]
    cx.require(sinks, 'the simulated exit no longer builds a ProcessState (anchor moved)')

    # sanitiser: `x & 0xFF`, `x as u8`, `x % 256`, rem_euclid(256)
    def masked_locals():
        out = set()
        for blk, j, s in body.stmts():
            if s['k'] != 'assign':
                continue
            rv = s['rv']
            if rv['k'] == 'binop' and rv['op'] in ('BitAnd', 'Rem'):
                consts = [str(x.get('c')) for x in (rv['a'], rv['b']) if isinstance(x, dict) and 'c' in x]
                if any(re.match(r'^(255|256)(_[iu]\d+)?$', c) for c in consts):
                    if (rv['op'] == 'BitAnd' and any(c.startswith('255') for c in consts)) or (rv['op'] == 'Rem' and any(c.startswith('256') for c in consts)):
                        out.add((blk, j))
            if rv['k'] == 'cast' and (rv.get('ty') or '') == 'u8':
                out.add((blk, j))
        for blk, t in body.calls():
            if Q.callee_is(t, [re.compile(r'rem_euclid$')]) and any(str(a.get('c', '')).startswith('256') for a in t['a']):
                out.add((blk, 't'))
        return out
    masks = masked_locals()
    # two data-flow closures from the parameter: through everything, and through everything but the masking statements
    def closure(skip):
        seen = {param[0]}
        changed = True
        while changed:
            changed = False
            for blk, j, s in body.stmts():
                if s['k'] != 'assign' or (blk, j) in skip or s['lhs']['l'] in seen:
                    continue
                if any(p['l'] in seen for p in Q.rvalue_places(s['rv'])):
                    seen.add(s['lhs']['l'])
                    changed = True
            for blk, t in body.calls():
                if (blk, 't') in skip or t['dest']['l'] in seen:
                    continue
                if Q.callee_is(t, Q.PROPAGATING_CALLS + [re.compile(r'rem_euclid$'), re.compile(r'::(from|into|clone)$')]) and \
                        any((Q.operand_place(a_) or {}).get('l') in seen for a_ in t['a']):
                    seen.add(t['dest']['l'])
                    changed = True
        return seen
    everything = closure(set())
    raw = closure(masks)
    n = 0
    for blk, node in sinks:
        ops = node['a'] if 'a' in node else node['rv']['ops']
        for o in ops:
            pl = Q.operand_place(o)
            if pl is None or pl['l'] not in everything:
                continue
            n += 1
            ok = pl['l'] not in raw
            cx.site('simulated exit: the status reaching %s at %s passed the 8-bit mask: %s' % (
                pp.callee(node).split('::')[-1] if 'a' in node else node['rv'].get('variant'), body.loc(node), ok))
            if not ok:
                cx.violation(d, 'exit-status-not-truncated', 'the simulated exit() stores the full 32-bit status: `(exit 300); echo $?` prints 300 '
                             'in the simulator and 44 on a real system (wait(2) delivers only the low 8 bits), `(exit 256)` is a failure in the '
                             'simulator and success on a real system', loc=body.loc(node))
    cx.require(n >= 1, 'the exit status parameter does not reach the ProcessState built by the simulated exit (shape changed: review)')


RS.explanation += ' The simulated exit() keeps the low 8 bits of the status, as wait(2) does (R25).'


# ---------------------------------------------------------------------------------------
# added for the independent seed C05-s8 (a trailing `/` accepted after a symbolic link): the kind tests of the simulated path walk
# as a table over ALL FileBody variants. R19 says every step is behind a kind test; this rule says what every kind test lets through.
_COMPONENTS_NEXT = re.compile(r'Components<.*> as core::iter::traits::(iterator::Iterator|double_ended::DoubleEndedIterator)>::next(_back)?$')
_ENDS_WITH = [re.compile(r'::ends_with$')]
_ENDINGS = ('/', '/.')


def _literal_text(du, operand, depth=6):
    """Text of the string / byte-string literal an operand is (a reference to, an unsized view of): b"/." -> '/.'; else None."""
    o = operand
    for _ in range(depth):
        if 'cp' not in o and 'mv' not in o:
            m = re.match(r'^(?:const )?b?"(.*)"$', str(o.get('c')))
            return m.group(1) if m else None
        p = Q.operand_place(o)
        d = du.single_def(p['l'])
        if d is None or d[1] == 't' or d[2]['k'] != 'assign':
            return None
        rv = d[2]['rv']
        if rv['k'] in ('use', 'cast'):
            o = rv['o']
        elif rv['k'] == 'ref':
            o = {'cp': {'l': rv['pl']['l']}}
        else:
            return None
    return None


def _feasible_path(body, du, goals, force=None, avoid=(), ending=None, F=None):
    """A path entry -> goal block that is feasible for a pathname with the given ending: bool locals assigned constants (the
    materialised `matches!`, `&&`, `||`, `!`) are tracked along the path and a later switch on them follows the matching edge only;
    `x.ends_with(<literal>)` answers what the ending says. With force=(u, v) the path leaves block u by the edge to v only and must
    take it at least once. Blocks in `avoid` are not entered. Returns the block list or None. With F given, std sum values built
    on the way (`Err(..)` / `Ok(..)` / `None` / `Some(..)`, also as the result of an inlined helper handed to `?`) are tracked as well:
    a switch on the discriminant of such a local follows the matching edge only."""
    from collections import deque
    goals, avoid = set(goals), set(avoid)

    def value(o, known, depth=4):
        if 'cp' not in o and 'mv' not in o:
            return {'true': True, 'false': False, 'const true': True, 'const false': False}.get(str(o.get('c')))
        p = Q.operand_place(o)
        if p.get('p'):
            return None
        if p['l'] in known:
            return known[p['l']]
        d = du.single_def(p['l'])
        if depth == 0 or d is None or d[1] == 't' or d[2]['k'] != 'assign':
            return None
        rv = d[2]['rv']
        if rv['k'] == 'use':
            return value(rv['o'], known, depth - 1)
        if rv['k'] == 'unop' and rv.get('op') == 'Not':
            v = value(rv['o'], known, depth - 1)
            return None if v is None else not v
        return None

    def after(b, known):
        known = dict(known)
        for s in body.blocks[b]['s']:
            if s['k'] != 'assign':
                continue
            l = s['lhs']['l']
            v = None
            if not s['lhs'].get('p') and body.locals[l]['ty'] == 'bool':
                rv = s['rv']
                if rv['k'] == 'use':
                    v = value(rv['o'], known)
                elif rv['k'] == 'unop' and rv.get('op') == 'Not':
                    v = value(rv['o'], known)
                    v = None if v is None else not v
            elif F is not None and not s['lhs'].get('p'):
                rv = s['rv']
                if rv['k'] == 'agg' and rv.get('variant') and rv.get('adt') in _STD_SUMS:
                    v = 'variant:' + rv['variant']
                elif rv['k'] == 'use':
                    src = Q.operand_place(rv['o'])
                    if src is not None and not src.get('p') and isinstance(known.get(src['l']), str):
                        v = known[src['l']]
            if v is None:
                known.pop(l, None)
            else:
                known[l] = v
        t = body.term(b)
        if t['k'] == 'call' and not t['dest'].get('p'):
            known.pop(t['dest']['l'], None)
            if F is not None and Q.callee_is(t, _TRY_BRANCH) and t['a']:
                src = Q.operand_place(t['a'][0])
                if src is not None and not src.get('p') and isinstance(known.get(src['l']), str):
                    known[t['dest']['l']] = 'variant:Continue' if known[src['l']] in ('variant:Ok', 'variant:Some') else 'variant:Break'
            if ending is not None and Q.callee_is(t, _ENDS_WITH) and len(t['a']) == 2:
                lit = _literal_text(du, t['a'][1])
                if lit in _ENDINGS:
                    known[t['dest']['l']] = (lit == ending)
        return known

    first = (0, (), False)
    prev = {first: None}
    q = deque([first])
    while q:
        node = q.popleft()
        b, kn, passed = node
        if b in goals and (passed or force is None):
            path = []
            while node is not None:
                path.append(node[0])
                node = prev[node]
            return path[::-1]
        known = after(b, dict(kn))
        t = body.term(b)
        succs = body.succ(b)
        if t['k'] == 'switch' and t.get('dty') == 'bool':
            v = value(t['d'], known)
            if v is not None:
                hit = [tgt for val, tgt in t['ts'] if bool(val) == v]
                succs = hit[:1] if hit else [t['else']]
        elif t['k'] == 'switch' and F is not None:
            ec = Q.edge_condition(F, body, du, b)
            if ec and ec[0]['k'] == 'discr' and not ec[0]['pl'].get('p') and isinstance(known.get(ec[0]['pl']['l']), str):
                only = {tgt for tgt, labs in ec[1].items() if ('variant', known[ec[0]['pl']['l']][8:]) in labs}
                if only:
                    succs = [x for x in succs if x in only]
        for s in succs:
            p2 = passed
            if force is not None and b == force[0]:
                if s != force[1]:
                    continue
                p2 = True
            if s in avoid:
                continue
            st = (s, tuple(sorted(known.items())), p2)
            if st not in prev:
                prev[st] = node
                q.append(st)
    return None


@RS.rule('C19.R19b', 'K-TABLE', 'ENOTDIR, the other half of R19: every kind test of the simulated path walk lets a Directory through and '
         'NOTHING else - for each FileBody variant but Directory, a name looked up in it, `..` of it, and a trailing `/` or `/.` after it '
         'end in ENOTDIR, never in Ok (the walk does not follow links: a symbolic link let through under a trailing slash is handed to '
         'fstatat(nofollow) as an existing file, and `d/*/` lists links to regular files and dangling links)')
def r19b(cx):
    F = cx.F
    cands = [b for k, b in F.bodies.items() if k.startswith('yash_env::system::r#virtual::file_system::FileSystem::get') and 'main' in k]
    cx.require(cands, 'the path walk FileSystem::get::main was not found')
    raw = max(cands, key=lambda b: len(b.blocks))
    body = _kernel_inlined(F, raw)
    cx.fn(raw.fn)
    du = Q.DefUse(body)
    cx.require(FILE_BODY in F.adts, 'FileBody not found')
    variants = [v['name'] for v in F.adts[FILE_BODY]['variants']]
    cx.require('Directory' in variants and len(variants) >= 2, 'FileBody::Directory not found')
    nxt = [blk for blk, t in body.calls() if _COMPONENTS_NEXT.search(pp.callee(t))]
    cx.require(len(nxt) == 1, 'FileSystem::get::main no longer walks unix_path::Components with one next() call')
    loop = {b for b in body.reachable(nxt[0]) if nxt[0] in body.reachable(b)}
    cx.require(len(loop) >= 2, 'the walk over the components is not a loop')

    def is_result(s, variant, errno=None):
        if s['k'] != 'assign' or s['lhs']['l'] != 0 or s['lhs'].get('p'):
            return False
        rv = s['rv']
        if rv['k'] != 'agg' or rv.get('adt') != 'core::result::Result' or rv.get('variant') != variant:
            return False
        return errno is None or any(str(o.get('cdef', '')).endswith('::Errno::' + errno) for o in rv['ops'] if isinstance(o, dict))
    ok_blocks = {b for b, j, s in body.stmts() if is_result(s, 'Ok')}
    enotdir_blocks = {b for b, j, s in body.stmts() if is_result(s, 'Err', 'ENOTDIR')}
    # ... or `Err(ENOTDIR)` as the result of an inlined helper that goes to `?`, whose residual becomes the result of the walk
    propagated = set()
    for blk, t in body.calls():
        if t['dest'].get('p') or t['dest']['l'] != 0 or not re.search(r'FromResidual<.*>>::from_residual$', pp.callee(t)) or not t['a']:
            continue
        o = t['a'][0]
        for _ in range(4):
            pl = Q.operand_place(o)
            if pl is None or pl.get('p'):
                break
            d = du.single_def(pl['l'])
            if d is None or d[1] == 't' or d[2]['k'] != 'assign' or d[2]['rv']['k'] != 'use':
                pl = None
                break
            o = d[2]['rv']['o']
        if pl is None or not pl.get('p'):
            continue
        src = du.origin({'cp': {'l': pl['l']}})
        if src.get('k') == 'call' and Q.callee_is(src['t'], _TRY_BRANCH) and src['t']['a']:
            a = Q.operand_place(src['t']['a'][0])
            if a is not None and not a.get('p'):
                propagated.add(a['l'])
    grown = True
    while grown:
        grown = False
        for b, j, s in body.stmts():
            if s['k'] == 'assign' and not s['lhs'].get('p') and s['lhs']['l'] in propagated and s['rv']['k'] == 'use':
                src = Q.operand_place(s['rv']['o'])
                if src is not None and not src.get('p') and src['l'] not in propagated and src['l'] != 0:
                    propagated.add(src['l'])
                    grown = True
    for b, j, s in body.stmts():
        if s['k'] == 'assign' and not s['lhs'].get('p') and s['lhs']['l'] in propagated and is_result(dict(s, lhs={'l': 0}), 'Err', 'ENOTDIR'):
            enotdir_blocks.add(b)
    rets = set(body.return_blocks())
    cx.require(ok_blocks, 'FileSystem::get::main has no `Ok(node)` result (shape changed: review C19.R19b)')
    tests = []
    for u in sorted(body.live_blocks()):
        ec = Q.edge_condition(F, body, du, u)
        if not ec or ec[0]['k'] != 'discr':
            continue
        ty = (ec[0].get('ty') or '').lstrip('&').strip()
        ty = ty[4:] if ty.startswith('mut ') else ty
        if ty == FILE_BODY:
            tests.append((u, ec[1]))
    cx.require(tests, 'FileSystem::get::main no longer tests the kind of a file (FileBody discriminant)')
    reqs = set()
    finals = {e: set() for e in _ENDINGS}
    for u, labels in tests:
        where = 'trailing-slash' if u not in loop else 'path-walk'
        target = {}
        for tgt, labs in labels.items():
            for lab in labs:
                if lab[0] == 'variant':
                    target[lab[1]] = tgt
        cx.require(set(target) == set(variants), 'kind test at %s does not cover the variants of FileBody' % body.loc(body.term(u)))
        for e in _ENDINGS:
            live = {v: _feasible_path(body, du, rets, force=(u, target[v]), ending=e, F=F) is not None for v in variants}
            acc = {v: _feasible_path(body, du, ok_blocks, force=(u, target[v]), ending=e, F=F) for v in variants}
            if not any(live.values()):
                continue                    # the test is not evaluated for a pathname with this ending
            rejected = [v for v in variants if live[v] and acc[v] is None]
            if not rejected:
                cx.site('FileSystem::get: kind test at %s (%s, pathname ending %r): every kind goes on to Ok - not a directory '
                        'requirement' % (body.loc(body.term(u)), where, e))
                continue
            reqs.add(u)
            if u not in loop:
                finals[e].add(u)
            cx.site('FileSystem::get: %s kind test at %s, pathname ending %r: reaches Ok for %s; ENOTDIR for %s'
                    % (where, body.loc(body.term(u)), e, [v for v in variants if acc[v] is not None] or 'nothing', rejected))
            cx.cellcount(len(variants))
            for v in variants:
                if not live[v]:
                    continue
                if v == 'Directory':
                    if acc[v] is None:
                        cx.violation(raw.root, '%s:directory-rejected' % where, 'a directory does not pass the %s kind test of the simulated '
                                     'path walk: `dir/`, `dir/.`, `dir/name` cannot be resolved' % where, loc=body.loc(body.term(u)))
                    continue
                if acc[v] is not None:
                    what = {'trailing-slash': 'a pathname that ends with `/` or `/.` resolves (Ok) when its last component is a %s: a trailing '
                                              'slash names a directory only, and the walk does not follow links, so fstatat(nofollow) - the '
                                              'existence test of pathname expansion - reports `link/` as existing whatever the link points '
                                              'to, and `d/*/` lists links to regular files and dangling links; a real kernel says ENOTDIR '
                                              '(ENOENT for a dangling link)',
                            'path-walk': 'a name or `..` is looked up in a %s as if it were a directory: `file/..` or `file/x` resolve where '
                                         'a real kernel says ENOTDIR'}[where] % v
                    cx.violation(raw.root, '%s:non-directory-accepted:%s' % (where, v), what, loc=body.loc(body.term(u)),
                                 path=Q.render_path(body, acc[v]))
                elif _feasible_path(body, du, enotdir_blocks, force=(u, target[v]), ending=e, F=F) is None:
                    cx.violation(raw.root, '%s:not-enotdir:%s' % (where, v), 'a %s in place of a directory is refused, but not with ENOTDIR '
                                 '(the errno a real kernel gives)' % v, loc=body.loc(body.term(u)))
    # the final test cannot be walked around: with a trailing `/` (or `/.`) no Ok without it
    for e in _ENDINGS:
        p = _feasible_path(body, du, ok_blocks, avoid=finals[e], ending=e, F=F)
        cx.site('FileSystem::get: a pathname ending %r reaches Ok only through a directory requirement on the last file (%d test(s)): %s'
                % (e, len(finals[e]), p is None))
        if p is not None:
            cx.violation(raw.root, 'trailing-slash:unchecked:%s' % e, 'a pathname that ends with %r resolves without any test that its last '
                         'file is a directory: `file%s` is an existing pathname for the simulated fstatat/open, and pathname expansion of '
                         '`*%s` lists regular files' % (e, e, e), loc=body.loc(body.term(p[-1])), path=Q.render_path(body, p))
    cx.floor(len(reqs), 3, 'directory requirements (name lookup and `..` in the walk; the last file under a trailing `/` or `/.`)')


RS.explanation += (' Every kind test of the simulated path walk lets a Directory through and no other FileBody variant, a trailing `/` '
                   'or `/.` included, and the trailing test cannot be bypassed (R19b).')


# ---------------------------------------------------------------------------------------
# added for the independent seeds C19-a (RealSystem::write repeated the write after a short write and lost the count when the
# next one failed) and C19-b (the simulated open_fd_ge answered EMFILE when the NUMBER of open descriptors reached RLIMIT_NOFILE)
REAL_MOD = 'yash_env::system::real'
# the system calls of the wiring tables (R3) plus the two of the real directory stream; sigemptyset only fills a struct
_SYSCALLS = ({r[0] for rows in list(REAL_WIRING.values()) + list(HELPER_WIRING.values()) for r in rows} | {'readdir', 'closedir'}) - {'sigemptyset'}
_IS_NULL = re.compile(r'^core::ptr::(const_ptr|mut_ptr)::<impl \*(const|mut) T>::is_null$')
_ERRNO_LAST = re.compile(r'(^|::)(<impl )?' + re.escape(ERRNO) + r'>?::last$')


def _rshort(k):
    m = re.match(r'^<(.+?) as (.+?)>::(.*)$', k)
    return '%s::%s' % (last(re.sub(r'<.*$', '', m.group(2))), m.group(3)) if m else '::'.join(k.split('::')[-2:])


def _mir_callee(t):
    return (t['f'].get('def') or t['f'].get('decl') or '')


def _ref_origin(du, operand, depth=8):
    """Origin of an operand looked at through references and plain copies (`&Err(EINTR)` -> the aggregate)."""
    org = du.origin(operand)
    while depth:
        depth -= 1
        if org['k'] in ('ref', 'place') and all(e == '*' for e in (org['pl'].get('p') or [])):
            nxt = du.origin_place({'l': org['pl']['l']})
            if nxt['k'] == 'place' and nxt['pl'] == {'l': org['pl']['l']}:
                return nxt
            org = nxt
            continue
        return org
    return org


def _real_syscall_graph(F):
    """(bodies of the real module, family methods, {body: [(block, call, what)]}): `what` names the system call a call site performs -
    a libc function of the table, a helper function of the real module (not itself a method of the family: those are sites of
    their own) that performs one, or a closure that performs one handed to some call."""
    bodies = {k: b for k, b in F.bodies.items() if REAL_MOD in k and '::tests' not in k and '::tests' not in b.root}
    family = {it['def'] for i in F.impls if i.get('self_adt') == REAL and (i.get('trait_def') or '').startswith(SYS)
              for it in i['items'] if it['kind'] == 'Fn'}
    direct = {}
    for k, b in bodies.items():
        direct[k] = [(blk, t, 'libc::' + last(_mir_callee(t))) for blk, t in b.calls()
                     if is_libc(_mir_callee(t)) and last(_mir_callee(t)) in _SYSCALLS]
    makes = {k for k in bodies if direct[k]}
    dus = {}
    sites = {}
    changed = True
    while changed:
        changed = False
        for k, b in bodies.items():
            if k not in dus:
                dus[k] = Q.DefUse(b)
            du = dus[k]
            out = list(direct[k])
            for blk, t in b.calls():
                d = _mir_callee(t)
                if d in makes and d not in family and d != k:
                    out.append((blk, t, 'helper ' + _rshort(d)))
                    continue
                for a in t['a']:
                    if Q.operand_place(a) is None:
                        continue
                    org = _ref_origin(du, a)
                    if org['k'] == 'agg' and org['rv'].get('ak') == 'closure' and org['rv'].get('def') in makes:
                        out.append((blk, t, 'closure ' + _rshort(org['rv']['def'])))
                        break
            sites[k] = out
            if out and k not in makes:
                makes.add(k)
                changed = True
    return bodies, family, sites, dus


def _failure_edges(F, body, du, dest):
    """Switch edges that are taken only when the call that wrote `dest` FAILED: the Err / Break side of a Result computed from its
    value, the side of `x == Err(..)` / `errno == Errno::X` on which the equality holds (x computed from the value, errno read
    by Errno::last()), and the null side of an is_null() test of the value."""
    T = Q.forward_taint(body, {dest})

    def base_tainted(operand):
        p = Q.operand_place(operand)
        if p is None:
            return False
        if p['l'] in T:
            return True
        org = _ref_origin(du, operand)
        return org['k'] in ('place', 'ref') and org['pl']['l'] in T

    def failure_value(operand):
        if Q.operand_place(operand) is None:
            return str(operand.get('cdef') or '').startswith(ERRNO + '::')
        org = _ref_origin(du, operand)
        if org['k'] == 'agg':
            return org['rv'].get('adt') == 'core::result::Result' and org['rv'].get('variant') == 'Err'
        return org['k'] == 'const' and str(org['o'].get('cdef') or '').startswith(ERRNO + '::')

    def errno_read(operand):
        if Q.operand_place(operand) is None:
            return False
        org = _ref_origin(du, operand)
        return org['k'] == 'call' and bool(_ERRNO_LAST.search(_mir_callee(org['t'])))

    def fails(org, lab):
        org, lab = Q.peel_not(du, org, lab)
        if not lab:
            return False
        if org['k'] == 'discr':
            ty = re.sub(r'<.*$', '', (org.get('ty') or '').lstrip('&').strip())
            return lab[0] == 'variant' and lab[1] in ('Err', 'Break') and org['pl']['l'] in T and \
                ty in ('core::result::Result', 'core::ops::control_flow::ControlFlow')
        if lab[0] != 'bool':
            return False
        ops = ne = None
        if org['k'] == 'call':
            name = _mir_callee(org['t'])
            if _IS_NULL.match(name) and org['t']['a']:
                return lab[1] is True and base_tainted(org['t']['a'][0])
            if _CMP_EQ.search(name) and len(org['t']['a']) == 2:
                ops, ne = org['t']['a'], name.endswith('::ne')
            elif _CMP_EQ.search(str(org['t']['f'].get('decl') or '')) and len(org['t']['a']) == 2:
                ops, ne = org['t']['a'], str(org['t']['f']['decl']).endswith('::ne')
        elif org['k'] == 'binop' and org['rv']['op'] in ('Eq', 'Ne'):
            ops, ne = [org['rv']['a'], org['rv']['b']], org['rv']['op'] == 'Ne'
        if ops is None or lab[1] == ne:       # the edge on which the two are different
            return False
        a, b = ops
        return (failure_value(a) and (base_tainted(b) or errno_read(b))) or (failure_value(b) and (base_tainted(a) or errno_read(a)))

    out = set()
    for u in sorted(body.live_blocks()):
        ec = Q.edge_condition(F, body, du, u)
        if not ec:
            continue
        for tgt, labs in ec[1].items():
            if labs and all(fails(ec[0], lab) for lab in labs):
                out.add((u, tgt))
    return out


@RS.rule('C19.R26', 'K-EFFECT', 'a RealSystem method passes ONE system call on to the kernel and reports its result, partial results included (a '
         'short write, a short read): in the real module a system call of the wiring table - made directly, through a helper function '
         'or through a closure - is repeated within one invocation only after that call FAILED (the EINTR retries of close / dup2 / '
         'execve, the ERANGE retry of getcwd); no cycle of the method\'s control flow leads from a successful call back to the call, '
         'so the caller, who owns the retry policy (Concurrent::write waits for the pipe and resumes after the bytes written), always '
         'learns how much was done')
def r26(cx):
    F = cx.F
    bodies, family, sites, dus = _real_syscall_graph(F)
    cx.require(family, 'RealSystem implements no trait of yash_env::system any more')
    nsites = nloops = 0
    for k in sorted(sites):
        b = bodies[k]
        du = dus[k]
        for blk, t, what in sites[k]:
            nsites += 1
            cx.fn(b.root)
            cx.cellcount(1)
            succ = b.succ(blk)
            if not any(blk in b.reachable(s) for s in succ):
                cx.site('%s: %s at %s is on no cycle of the function' % (_rshort(k), what, b.loc(t)))
                continue
            nloops += 1
            rem = _failure_edges(F, b, du, t['dest']['l'])
            again = [s for s in succ if (blk, s) not in rem and blk in b.reachable(s, removed_edges=rem)]
            cx.site('%s: %s at %s is in a loop; repeated only after it failed (%d failure edge(s) cut every cycle): %s'
                    % (_rshort(k), what, b.loc(t), len(rem), not again))
            if again:
                path = b.shortest_path(again[0], [blk], removed_edges=rem)
                cx.violation(b.root, 'syscall-repeated-after-success:%s' % what.replace(' ', ':'),
                             '%s performs %s again after a call that SUCCEEDED (a cycle leads from the call back to it without passing '
                             'an edge that is taken only on failure): a partial result of the earlier call - the bytes a short write put '
                             'into a non-blocking pipe - is lost when the repeated call fails (EAGAIN), and Concurrent::write, told that '
                             'nothing was written, waits and sends the buffer again from its first byte: the reader sees the first 64 KiB '
                             'repeated; the simulated system and the trait contract report the short count and leave the retry to the caller'
                             % (_rshort(b.root), what), loc=b.loc(t), path=Q.render_path(b, [blk] + list(path or [])))
    cx.floor(nsites, 45, 'system-call sites of the real module')
    cx.floor(nloops, 1, 'reviewed retry loops (close / dup2 / execve EINTR, getcwd ERANGE)')


RS.explanation += (' A RealSystem method repeats its system call only after the call failed - partial results always reach the caller, who owns '
                   'the retry policy (R26).')


# ----------------------------------------------------------------------------------------------------------------- C19-b
RESOURCE = 'yash_env::system::resource::Resource'
_NF_THROUGH = re.compile(r'^core::option::Option::<T>::\w+$|^core::result::Result::<T, E>::\w+$|Try>::branch$|'
                         r'::(from|into|try_from|try_into|clone|cloned|copied|min|max|clamp|to_owned|deref|borrow|as_ref|unwrap_or_default)$|'
                         r'^core::num::<impl [iu]\w+>::\w+$|^core::num::nonzero::NonZero::<T>::(get|new)$')
_NF_COUNT = re.compile(r'::(len|count)$')
_NF_ARITH = re.compile(r'^core::num::<impl [iu]\w+>::(checked|saturating|wrapping|overflowing|unchecked|strict)_(add|sub)$|'
                       r'^core::num::<impl [iu]\w+>::abs_diff$')
_NF_ORDER = re.compile(r'core::cmp::(PartialOrd(<[^>]*>)?>?::(lt|le|gt|ge|partial_cmp)|Ord>?::cmp)$')
_NF_CMP_BINOPS = {'Lt', 'Le', 'Gt', 'Ge', 'Eq', 'Ne', 'Cmp'}
_NF_ARITH_BINOPS = {'Add', 'Sub', 'AddWithOverflow', 'SubWithOverflow', 'AddUnchecked', 'SubUnchecked'}


class _NofileFlow:
    """Where the soft RLIMIT_NOFILE of a simulated process flows inside the simulated kernel, and what it is combined with.
    A value is described by the set of its LEAVES: 'limit' (the result of a call given `Resource::NOFILE`), 'const', 'fd' (the
    number of a descriptor: a place under an `Fd`, a value of type Fd), 'count:<callee>' (`len()` / `count()` of anything) and
    'other:<what>'. Leaves cross function boundaries of the kernel: a parameter has the leaves of the arguments of the kernel's
    calls, a closure parameter those of the other arguments of the call the closure is handed to, a capture those of the captured
    value, a call of a kernel function (or a combinator given a closure) the leaves of the result."""

    def __init__(self, F):
        self.F = F
        self.bodies = _kernel_bodies(F)
        self.du = {}
        self.param = {}          # (body key, local) / (closure key, 1, capture index) -> leaves
        self.ret = {}            # body key -> leaves of the result
        self.memo = {}

    def defuse(self, k):
        if k not in self.du:
            self.du[k] = Q.DefUse(self.bodies[k])
        return self.du[k]

    def is_nofile(self, k, operand):
        if Q.operand_place(operand) is None:
            return str(operand.get('cdef') or operand.get('c') or '').endswith('Resource::NOFILE')
        org = _ref_origin(self.defuse(k), operand)
        return org['k'] == 'agg' and org['rv'].get('adt') == RESOURCE and org['rv'].get('variant') == 'NOFILE'

    def is_source(self, k, t):
        return any(self.is_nofile(k, a) for a in t['a'])

    def closure_def(self, k, operand):
        if Q.operand_place(operand) is None:
            return None
        org = _ref_origin(self.defuse(k), operand)
        if org['k'] == 'agg' and org['rv'].get('ak') == 'closure' and org['rv'].get('def') in self.bodies:
            return org['rv']['def']
        return None

    def _ty(self, k, l):
        ty = str(self.bodies[k].locals[l].get('ty') or '').strip()
        while ty.startswith('&'):
            ty = ty[1:].strip()
            ty = ty[4:].strip() if ty.startswith('mut ') else ty
        return ty

    def leaves(self, k, operand, seen=None):
        if Q.operand_place(operand) is None:
            return {'const'}
        return self.place_leaves(k, Q.operand_place(operand), seen if seen is not None else set())

    def place_leaves(self, k, p, seen):
        proj = p.get('p') or []
        if any(isinstance(e, dict) and e.get('adt') == FD_TY for e in proj):
            return {'fd'}
        if p['l'] == 1:
            cap = [e.get('f') for e in proj if isinstance(e, dict) and e.get('adt') == k]
            if cap:
                return set(self.param.get((k, 1, str(cap[0]))) or {'other:captured variable'})
        return self.local_leaves(k, p['l'], seen)

    def call_leaves(self, k, t, seen):
        name = _mir_callee(t)
        decl = str(t['f'].get('decl') or '')
        if self.is_source(k, t):
            return {'limit'}
        if _NF_COUNT.search(name) or _NF_COUNT.search(decl):
            return {'count:' + re.sub(r'::<[^>]*>', '', _short(name))}
        if name in self.bodies:
            return set(self.ret.get(name) or {'other:result of %s' % _short(name)})
        if _NF_THROUGH.search(name) or _NF_THROUGH.search(decl):
            out = set()
            for a in t['a']:
                if isinstance(a, dict) and 'fn' in a:
                    continue
                c = self.closure_def(k, a)
                out |= (self.ret.get(c) or set()) if c else self.leaves(k, a, seen)
            return out
        return {'other:result of %s' % re.sub(r'::<[^>]*>', '', _short(name))}

    def local_leaves(self, k, l, seen):
        if (k, l) in self.memo:
            return self.memo[(k, l)]
        if l in seen:
            return set()
        top = not seen
        seen = seen | {l}
        b = self.bodies[k]
        out = set()
        defs = self.defuse(k).defs.get(l, [])
        if not defs:
            out |= self.param.get((k, l)) or {'other:parameter `%s`' % b.local_name(l) if 1 <= l <= b.argc else 'other:undefined local'}
        for blk, j, node in defs:
            if j == 't':
                out |= self.call_leaves(k, node, seen)
                continue
            if node['k'] != 'assign':
                out.add('other:discriminant write')
                continue
            rv = node['rv']
            if rv['k'] in ('use', 'cast', 'unop', 'binop', 'repeat'):
                for o in Q.rvalue_operands(rv):
                    out |= self.leaves(k, o, seen)
            elif rv['k'] == 'agg' and rv.get('ak') != 'closure':
                for o in rv.get('ops') or []:
                    out |= self.leaves(k, o, seen)
                if not rv.get('ops'):
                    out.add('const')
            elif rv['k'] == 'agg':
                out.add('other:closure')
            elif rv['k'] == 'ref':
                out |= self.place_leaves(k, rv['pl'], seen)
            else:
                out.add('other:%s' % rv['k'])
        if self._ty(k, l) == FD_TY and not any(x == 'limit' or x.startswith('count:') for x in out):
            out = {'fd'}
        if top:
            self.memo[(k, l)] = out
        return out

    def solve(self):
        """Fixpoint of the leaves of parameters, closure captures and results."""
        for _ in range(10):
            self.memo = {}
            param, ret = {}, {}
            for k, b in self.bodies.items():
                ret[k] = set(self.local_leaves(k, 0, set()))
                for blk, j, s in b.stmts():
                    if s['k'] == 'assign' and s['rv']['k'] == 'agg' and s['rv'].get('ak') == 'closure' and s['rv'].get('def') in self.bodies:
                        for i, o in enumerate(s['rv'].get('ops') or []):
                            param.setdefault((s['rv']['def'], 1, str(i)), set()).update(self.leaves(k, o))
                for blk, t in b.calls():
                    name = _mir_callee(t)
                    if name in self.bodies:
                        for i, a in enumerate(t['a']):
                            param.setdefault((name, i + 1), set()).update(self.leaves(k, a))
                    clos = [c for c in (self.closure_def(k, a) for a in t['a']) if c]
                    if clos:
                        rest = set()
                        for a in t['a']:
                            if not self.closure_def(k, a) and not (isinstance(a, dict) and 'fn' in a):
                                rest |= self.leaves(k, a)
                        for c in clos:
                            for l in range(2, self.bodies[c].argc + 1):
                                param.setdefault((c, l), set()).update(rest)
            if param == self.param and ret == self.ret:
                break
            self.param, self.ret = param, ret
        self.memo = {}

    def combinations(self, k):
        """[(block, node, kind 'order'|'equality'|'arithmetic', [operands])] of a body: comparisons and sums / differences."""
        b = self.bodies[k]
        out = []
        for blk, j, s in b.stmts():
            if s['k'] == 'assign' and s['rv']['k'] == 'binop':
                op = s['rv']['op']
                if op in _NF_CMP_BINOPS:
                    out.append((blk, s, 'equality' if op in ('Eq', 'Ne') else 'order', [s['rv']['a'], s['rv']['b']]))
                elif op in _NF_ARITH_BINOPS:
                    out.append((blk, s, 'arithmetic', [s['rv']['a'], s['rv']['b']]))
        for blk, t in b.calls():
            names = [_mir_callee(t), str(t['f'].get('decl') or '')]
            if len(t['a']) != 2:
                continue
            if any(_NF_ORDER.search(n) for n in names):
                out.append((blk, t, 'order', list(t['a'])))
            elif any(_CMP_EQ.search(n) for n in names):
                out.append((blk, t, 'equality', list(t['a'])))
            elif any(_NF_ARITH.search(n) for n in names):
                out.append((blk, t, 'arithmetic', list(t['a'])))
        return out


@RS.rule('C19.R27', 'K-TAINT', 'RLIMIT_NOFILE bounds the NUMBER a new descriptor may get, not how many descriptors are open (`exec 20>&1 .. '
         '28>&1; ulimit -n 12; pwd >out` works on a real kernel: descriptors opened above a limit lowered later stay open and the free '
         'numbers below it stay usable): in the simulated kernel the soft NOFILE limit - wherever it is read with Resource::NOFILE, '
         'returned by a helper or handed to one - is compared / combined only with descriptor numbers (`fd.0`, an Fd) and constants '
         '(INFINITY), never with a count (`len()`, `count()`) of the descriptor table; unit rule of the family C12.R7 / C13.R7')
def r27(cx):
    F = cx.F
    cx.require(RESOURCE in F.adts and any(v['name'] == 'NOFILE' for v in F.adts[RESOURCE]['variants']), 'Resource::NOFILE not found')
    flow = _NofileFlow(F)
    sources = [(k, blk, t) for k, b in sorted(flow.bodies.items()) for blk, t in b.calls() if flow.is_source(k, t)]
    cx.require(sources, 'the simulated kernel no longer reads a limit with Resource::NOFILE (anchor moved: where is RLIMIT_NOFILE enforced?)')
    for k, blk, t in sources:
        cx.site('%s: the NOFILE limit is read by %s at %s' % (_short(k), _short(_mir_callee(t)), flow.bodies[k].loc(t)))
    flow.solve()
    for k in sorted(flow.ret):
        if 'limit' in flow.ret[k]:
            cx.site('%s returns a value computed from the NOFILE limit' % _short(k))
    for key in sorted(flow.param, key=str):
        if 'limit' in flow.param[key]:
            cx.site('%s receives the NOFILE limit in %s' % (_short(key[0]), 'capture %s' % key[2] if len(key) == 3 else
                                                            '`%s`' % flow.bodies[key[0]].local_name(key[1])))
    nfd = 0
    for k in sorted(flow.bodies):
        b = flow.bodies[k]
        for blk, node, kind, ops in flow.combinations(k):
            lv = [flow.leaves(k, o) for o in ops]
            allv = set().union(*lv)
            if 'limit' not in allv:
                continue
            cx.fn(b.root)
            cx.cellcount(1)
            counts = sorted(x[6:] for x in allv if x.startswith('count:'))
            others = sorted(x[6:] for x in allv if x.startswith('other:'))
            with_fd = 'fd' in allv
            cx.site('%s: %s of the NOFILE limit at %s with %s' % (_short(k), kind, b.loc(node), ', '.join(sorted(
                ('a descriptor number' if x == 'fd' else 'a constant' if x == 'const' else x) for x in allv if x != 'limit')) or 'itself'))
            if counts:
                cx.violation(b.root, 'nofile-limit-against-count:%s' % '+'.join(counts),
                             '%s compares / combines the soft RLIMIT_NOFILE with a count (%s): the limit bounds the number of a new '
                             'descriptor, not how many are open. After `exec 20>&1 21>&1 .. 28>&1; ulimit -n 12` the table holds 12 '
                             'descriptors although 3..11 are free: a real kernel opens `pwd >out` on descriptor 3, the simulated one answers '
                             'EMFILE ("Too many open files")' % (_short(b.root), ', '.join(counts)), loc=b.loc(node))
                continue
            cx.require(not others, '%s: the NOFILE limit meets a value this rule cannot classify as a descriptor number or a count at %s (%s)'
                       % (_short(k), b.loc(node), '; '.join(others)))
            if with_fd and kind == 'order':
                nfd += 1
    cx.floor(nfd, 1, 'order comparisons of a descriptor number with the NOFILE limit (set_fd: `fd.0 < limit`)')


RS.explanation += (' In the simulated kernel the NOFILE limit is compared with descriptor numbers only, never with the number of open '
                   'descriptors (R27).')


# ---------------------------------------------------------------- added after seed wave 5 (C05-s10, C19-s10)
def _const_fd_number(F, operand):
    """Number of a named constant of type Fd (`const X: Fd = Fd(n)`), None when it cannot be evaluated."""
    cdef = operand.get('cdef') if isinstance(operand, dict) else None
    h = F.hir.get(cdef) if cdef else None
    if h is None:
        return None
    try:
        v = H.const_eval(h['body'])
    except Exception:
        return None
    if isinstance(v, tuple) and len(v) == 3 and v[0] == 'ctor' and v[1] == FD_TY and len(v[2]) == 1:
        v = v[2][0]
    return v if isinstance(v, int) and not isinstance(v, bool) else None


def _lower_bound_class(F, cx, body, du, t, idx, depth=4):
    """Classify the lower-bound operand `t['a'][idx]` of an allocating call in `body`:
    ('zero', n) | ('const', n or None, name) | ('caller', fn, param) | ('other', text).  A parameter of a function that is not a system
    call is followed into the callers of that function."""
    o = t['a'][idx]
    n = _int_value(body, du, o)
    org = du.origin(o)
    named = o.get('cdef') or (org['o'].get('cdef') if org['k'] == 'const' else None)
    if n is None and named:
        n = _const_fd_number(F, o if o.get('cdef') else org['o'])
    if n is not None:
        return [('zero', n)] if n == 0 else [('const', n, named or str(n))]
    if named:
        return [('const', None, named)]
    root = _fd_root(body, du, o) if Q.operand_place(o) is not None else None
    if root is not None and 1 <= root <= body.argc and root not in du.defs and body.fn == body.root:
        if body.root.startswith('<'):
            return [('caller', body.root, root)]
        if not depth:
            return [('other', 'parameter chain too deep')]
        out = []
        callers = [(cb, cblk, ct) for cb, cblk, ct in F.callers_of(lambda names, ct_: body.root in names)
                   if '::tests' not in cb.fn and '::tests' not in cb.root]
        for cb, cblk, ct in callers:
            cx.fn(cb.fn)
            for c in _lower_bound_class(F, cx, cb, Q.DefUse(cb), ct, root - 1, depth - 1):
                out.append(c + ((cb, ct),) if len(c) < 4 else c)
        return out
    return [('other', Q.operand_name(body, du, o) or 'a computed value')]


@RS.rule('C19.R28', 'K-SIBLING', 'a simulated system call that allocates a descriptor on its own (open, opendir, open_tmpfile, pipe ..) takes the '
         'LOWEST free one, as open(2) / pipe(2) / opendir(3) do: every allocation of the simulated kernel is Process::open_fd or '
         'open_fd_ge with the lower bound 0; a lower bound other than 0 is only ever the argument the caller of the system call passed '
         'for that purpose (dup = fcntl F_DUPFD: `to_min`) - otherwise `ulimit -n 10; echo dir/*` fails in the simulator only (EMFILE '
         'with descriptors 3-9 free) and descriptor numbers differ between the two systems')
def r28(cx):
    F = cx.F
    alloc_ge = PROCESS + '::open_fd_ge'
    alloc = PROCESS + '::open_fd'
    setfd = PROCESS + '::set_fd'
    for f in (alloc_ge, alloc, setfd):
        cx.require(f in F.bodies, '%s not found' % f)
    dup = _impl_fn(F, VIRT, 'Dup::dup')
    dup2 = _impl_fn(F, VIRT, 'Dup::dup2')
    cx.require(dup is not None and dup2 is not None, 'VirtualSystem does not implement Dup::dup / Dup::dup2')

    def nontest(cb):
        return '::tests' not in cb.fn and '::tests' not in cb.root

    # (1) the lower bound of every open_fd_ge
    sites = [(cb, cblk, ct) for cb, cblk, ct in F.callers_of(lambda names, ct_: alloc_ge in names) if nontest(cb)]
    cx.require(sites, 'nobody calls Process::open_fd_ge (anchor moved)')
    nzero = ncaller = 0
    for cb, cblk, ct in sorted(sites, key=lambda x: (x[0].fn, x[0].loc(x[2]))):
        cx.fn(cb.fn)
        du = Q.DefUse(cb)
        for c in _lower_bound_class(F, cx, cb, du, ct, 1):
            at_b, at_t = c[-1] if isinstance(c[-1], tuple) and len(c[-1]) == 2 and hasattr(c[-1][0], 'fn') else (cb, ct)
            where = '%s at %s' % (_short(at_b.root), at_b.loc(at_t))
            cx.cellcount(1)
            if c[0] == 'zero':
                nzero += 1
                cx.site('%s: allocation with lower bound 0 (the lowest free descriptor)' % where)
                continue
            if c[0] == 'caller':
                fn, par = c[1], c[2]
                body = F.bodies[fn]
                fdp = [p for p in range(1, body.argc + 1) if body.locals[p].get('ty') == FD_TY]
                ok = fn == dup and len(fdp) == 2 and par == fdp[1]
                cx.site('%s: allocation whose lower bound is the parameter `%s` of %s - the F_DUPFD minimum of dup: %s'
                        % (where, body.local_name(par), _short(fn), ok))
                if ok:
                    ncaller += 1
                    continue
                cx.require(fn.startswith('<' + VIRT + ' as ') or fn == dup,
                           '%s passes its parameter `%s` as the lower bound of a descriptor allocation: not a system call of the simulated '
                           'kernel this rule knows' % (fn, body.local_name(par)))
                cx.violation(at_b.root, 'allocation-lower-bound:param-%s' % body.local_name(par),
                             'the simulated %s allocates its descriptor at or above its argument `%s`, which is not a lower bound the caller '
                             'asked for: only dup (fcntl F_DUPFD) has one; every other system call returns the lowest free descriptor'
                             % (_short(fn), body.local_name(par)), loc=at_b.loc(at_t))
                continue
            what = ('the constant %s%s' % (c[2], '' if c[1] is None else ' (= %d)' % c[1])) if c[0] == 'const' else c[1]
            cx.site('%s: allocation with lower bound %s: NOT the lowest free descriptor' % (where, what))
            cx.violation(at_b.root, 'allocation-lower-bound:%s' % (c[2].split('::')[-1] if c[0] == 'const' else 'computed'),
                         'the simulated %s does not take the lowest free descriptor: it allocates at or above %s. open(2), pipe(2), '
                         'opendir(3) and mkstemp(3) return the lowest free descriptor, so with a soft RLIMIT_NOFILE at or below that bound '
                         '(`ulimit -n 10`) the call fails with EMFILE in the simulator although low descriptors are free (pathname '
                         'expansion then silently returns the pattern), and descriptor numbers seen by scripts differ from a real system'
                         % (_short(at_b.root), what), loc=at_b.loc(at_t))
    cx.floor(nzero, 1, 'allocations at the lowest free descriptor (Process::open_fd)')
    cx.floor(ncaller, 1, 'allocations at the F_DUPFD minimum (dup)')

    # (2) who allocates: the system calls of the simulated kernel that reach open_fd (no lower bound to get wrong) - evidence, and the
    #     explicit slots (set_fd): inside a system call only dup2's target
    users = sorted({cb.root for cb, cblk, ct in F.callers_of(lambda names, ct_: alloc in names) if nontest(cb)})
    cx.site('Process::open_fd (lowest free descriptor) is used by: %s' % ', '.join(_short(u) for u in users))
    for cb, cblk, ct in F.callers_of(lambda names, ct_: setfd in names):
        if not nontest(cb):
            continue
        cx.fn(cb.fn)
        du = Q.DefUse(cb)
        o = ct['a'][1]
        root = _fd_root(cb, du, o) if Q.operand_place(o) is not None else None
        cx.cellcount(1)
        if cb.root == alloc_ge:
            src = Q.value_source(cb, du, o)
            fdp = [p for p in range(1, cb.argc + 1) if cb.locals[p].get('ty') == FD_TY]
            ok = src is not None and bool(src['a']) and len(fdp) == 1 and cb.fn == cb.root and _fd_root(cb, du, src['a'][0]) == fdp[0]
            cx.site('open_fd_ge: the slot filled at %s is computed by %s from the lower bound `%s`: %s'
                    % (cb.loc(ct), pp.callee(src).split(' [')[0].split('::')[-1] if src else '?', 'min_fd', ok))
            if not ok:
                cx.violation(alloc_ge, 'slot-not-from-lower-bound', 'Process::open_fd_ge fills a slot that is not computed from its lower '
                             'bound: the descriptor returned by dup / open is not the lowest free one at or above the minimum',
                             loc=cb.loc(ct))
            continue
        if not cb.root.startswith('<' + VIRT + ' as '):
            cx.site('%s: explicit slot at %s (not a system call: initial descriptor table)' % (_short(cb.root), cb.loc(ct)))
            continue
        body = F.bodies[cb.root]
        fdp = [p for p in range(1, body.argc + 1) if body.locals[p].get('ty') == FD_TY]
        ok = cb.fn == cb.root == dup2 and len(fdp) == 2 and root == fdp[1]
        cx.site('%s: explicit slot at %s is the target argument of dup2: %s' % (_short(cb.root), cb.loc(ct), ok))
        if not ok:
            cx.violation(cb.root, 'explicit-slot', 'the simulated %s installs a descriptor at a number it chose itself (Process::set_fd) '
                         'instead of the lowest free one: only dup2 names its target' % _short(cb.root), loc=cb.loc(ct))


def _copy_root(body, du, operand, depth=12):
    """The local an operand is a plain copy / move / reference of (copies followed back to a local that is computed)."""
    p = Q.operand_place(operand)
    while depth and p is not None:
        depth -= 1
        if any(e != '*' for e in (p.get('p') or [])):
            return None
        l = p['l']
        d = du.single_def(l)
        if d is None or d[1] == 't' or d[2]['k'] != 'assign':
            return l
        rv = d[2]['rv']
        if rv['k'] == 'use' and Q.operand_place(rv['o']) is not None:
            p = Q.operand_place(rv['o'])
        elif rv['k'] == 'ref':
            p = rv['pl']
        else:
            return l
    return None


def _is_empty_set(body, du, operand):
    """The operand is `EnumSet::empty()` / `EnumSet::new()` / `Default::default()` (no flag)."""
    if Q.operand_place(operand) is None:
        return False
    t = Q.value_source(body, du, operand)
    return t is not None and bool(re.search(r'^enumset::impl_set::EnumSet::<T>::(empty|new)$|Default>::default$', pp.callee(t).split(' [')[0])) \
        and not t['a']


@RS.rule('C19.R29', 'K-SIBLING', 'open_tmpfile returns a descriptor WITHOUT close-on-exec on both systems: the simulated one installs an '
         'FdBody whose flags are empty, so on the real system - where the descriptor comes from a std::fs::File, which is always opened '
         'O_CLOEXEC - every Ok return has passed F_SETFD with an empty flag set on that descriptor. Otherwise a here-document that lands '
         'exactly on its target descriptor (`exec 3<<EOF`: no dup2 in between) keeps FD_CLOEXEC on the real system only and the shell then '
         'refuses it as one of its reserved descriptors')
def r29(cx):
    F = cx.F
    vfn = _impl_fn(F, VIRT, 'Open::open_tmpfile')
    rfn = _impl_fn(F, REAL, 'Open::open_tmpfile')
    cx.require(vfn is not None and rfn is not None, 'open_tmpfile is not implemented by both systems')
    cx.require(vfn in F.bodies and rfn in F.bodies, 'body of open_tmpfile missing')
    cx.fn(vfn)
    cx.fn(rfn)
    # simulated side: the flags of the descriptor that is installed
    vb = _kernel_inlined(F, F.bodies[vfn])
    vdu = Q.DefUse(vb)
    allocs = Q.find_calls(vb, [PROCESS + '::open_fd', PROCESS + '::open_fd_ge', PROCESS + '::set_fd'])
    cx.require(allocs, 'the simulated open_tmpfile no longer installs a descriptor through Process::open_fd / open_fd_ge / set_fd')
    fields = [f['name'] for f in F.adts[VKERNEL + '::io::FdBody']['variants'][0]['fields']] if VKERNEL + '::io::FdBody' in F.adts else []
    cx.require('flags' in fields, 'FdBody has no field `flags` any more')
    vstate = set()
    for blk, t in allocs:
        org = vdu.origin(t['a'][-1])
        cx.require(org['k'] == 'agg' and str(org['rv'].get('adt')) == VKERNEL + '::io::FdBody',
                   'the simulated open_tmpfile installs a descriptor body at %s that is not built in the function (not understood)' % vb.loc(t))
        fo = org['rv']['ops'][fields.index('flags')]
        if _is_empty_set(vb, vdu, fo):
            vstate.add('empty')
        else:
            src = Q.value_source(vb, vdu, fo) if Q.operand_place(fo) is not None else None
            cx.require(src is not None and pp.callee(src).split(' [')[0].endswith('EnumSet::<T>::only'),
                       'the flags of the descriptor installed by the simulated open_tmpfile at %s are neither empty nor a single flag '
                       '(not understood)' % vb.loc(t))
            vstate.add('cloexec')
    cx.require(len(vstate) == 1, 'the simulated open_tmpfile installs descriptors with different flags on different paths')
    vstate = vstate.pop()
    cx.site('%s: the descriptor is installed with %s flags' % (_short(vfn), 'EMPTY' if vstate == 'empty' else 'FD_CLOEXEC'))
    # real side
    rb = F.inlined(F.bodies[rfn])
    rdu = Q.DefUse(rb)
    oks = [(blk, st) for blk, j, st in Q.find_aggregates(rb, 'core::result::Result', 'Ok') if st['lhs']['l'] == 0]
    cx.require(oks, 'the real open_tmpfile has no `Ok(fd)` return in its body (anchor moved)')
    for blk, st in oks:
        fdv = _copy_root(rb, rdu, st['rv']['ops'][0])
        d = rdu.single_def(fdv) if fdv is not None else None
        num = None
        if d is not None and d[1] != 't' and d[2]['k'] == 'assign' and d[2]['rv']['k'] == 'agg' and str(d[2]['rv'].get('adt')) == FD_TY:
            num = Q.value_source(rb, rdu, d[2]['rv']['ops'][0]) if Q.operand_place(d[2]['rv']['ops'][0]) is not None else None
        from_file = num is not None and pp.callee(num).split(' [')[0].endswith('IntoRawFd>::into_raw_fd') and \
            str((num.get('at') or [''])[0]) == 'std::fs::File'
        cx.require(from_file, 'the descriptor returned by the real open_tmpfile at %s is no longer the raw descriptor of a std::fs::File '
                   '(whether it is close-on-exec is not known to this rule)' % rb.loc(st))
        src_blk = [b for b, t in rb.calls() if t is num][0]
        clears, sets = set(), set()
        for cblk, ct in rb.calls():
            name = pp.callee(ct).split(' [')[0]
            if Q.callee_is(ct, ['*::Fcntl::fcntl_setfd']) or name.endswith('::fcntl_setfd'):
                if len(ct['a']) == 3 and _copy_root(rb, rdu, ct['a'][1]) == fdv:
                    (clears if _is_empty_set(rb, rdu, ct['a'][2]) else sets).add(cblk)
            elif name == 'libc::fcntl' or name.endswith('::libc::fcntl'):
                cmd = ct['a'][1] if len(ct['a']) > 1 else {}
                corg = rdu.origin(cmd) if Q.operand_place(cmd) is not None else {'k': 'const', 'o': cmd}
                if str((corg.get('o') or {}).get('cdef') or '').endswith('::F_SETFD'):
                    n = _int_value(rb, rdu, ct['a'][2]) if len(ct['a']) > 2 else None
                    (clears if n == 0 else sets).add(cblk)
        witness = Q.must_pass(rb, rb.succ(src_blk), clears, goal_blocks={blk})
        # a later F_SETFD that sets a flag again undoes the clearing
        reset = [c for c in sets if any(rb.reachable(x) and c in rb.reachable(x) for x in clears) and blk in rb.reachable(c)]
        rstate = 'empty' if witness is None and clears and not reset else 'cloexec'
        cx.site('%s: `Ok(%s)` at %s: descriptor of a std::fs::File (O_CLOEXEC); F_SETFD with an empty set on every path to it: %s (%d clearing '
                'call(s))' % (_short(rfn), rb.local_name(fdv), rb.loc(st), rstate == 'empty', len(clears)))
        cx.cellcount(1)
        if rstate == vstate:
            continue
        if vstate == 'empty':
            cx.violation(rfn, 'tmpfile-close-on-exec-differs', 'the real open_tmpfile returns the descriptor of a std::fs::File - opened '
                         'O_CLOEXEC - without having cleared the descriptor flags (F_SETFD with an empty set) on every path, while the '
                         'simulated one returns a descriptor with empty flags: a here-document opened at exactly its target descriptor '
                         '(`exec 3<<EOF`, no dup2) stays close-on-exec on a real system only and later redirections from it are refused '
                         'as "reserved file descriptor"', loc=rb.loc(st), path=Q.render_path(rb, witness) if witness else None)
        else:
            cx.violation(rfn, 'tmpfile-close-on-exec-differs', 'the simulated open_tmpfile installs a close-on-exec descriptor while the '
                         'real one clears the flag: the two systems disagree on the flags of a here-document descriptor', loc=rb.loc(st))


RS.explanation += (' Every descriptor allocation of the simulated kernel takes the lowest free descriptor - a lower bound other than 0 is '
                   'only the F_DUPFD minimum of dup, an explicit slot only the target of dup2 (R28); open_tmpfile returns a descriptor without FD_CLOEXEC on both systems (R29).')
