"""C17 - alias substitution terminates and rewrites exactly the eligible words.

Structural clauses decided: the eligibility guards in front of the splice, the
single caller chain of the splice, what the splice constructs (origin tag, index
reset), the transitive recursion guard Source::is_alias_for, and the
Rec::AliasSubstituted restart protocol in every production that consumes a Rec."""
import re
from engine import RuleSet
import mirq as Q
import hirq as H
import pp

RS = RuleSet(
    'C17',
    explanation=(
        'Guard, caller, construction and protocol rules over MIR/HIR of the parser: in Parser::substitute_alias the call '
        'of Lexer::substitute_alias is dominated by: glossary non-empty, token id Token(_), to_string_if_literal() Some, '
        'is_alias_for(name) false on the source of the token itself, look_up(name) Some, and is entered only through '
        'the is_command_name / alias.global / is_after_blank_ending_alias(token.index) true edges; the splice has the '
        'single caller chain LexerCore <- Lexer <- Parser::substitute_alias <- take_token_manual / take_token_auto, '
        'take_token_auto returns a listed keyword before attempting substitution and loops only on AliasSubstituted; '
        'the splice tags the replacement with Source::Alias{original: location_range(begin..end), alias} and resets '
        'index to begin (replacement text is re-lexed: reserved words and operators emerging from it are recognised); '
        'Source::is_alias_for is name equality OR recursion on the original location, false for every other origin '
        '(so a name is substituted at most once per nesting chain: termination); every production that inspects a '
        'Rec either returns Rec::AliasSubstituted, or re-invokes the producer, on the AliasSubstituted edge.'),
    not_decided='the token sequence produced for a given alias table and line; the termination measure itself '
                '(bounded chain length is implied by the transitive guard, not proved); blank-ending continuation '
                'across several aliases (only its trigger edge is decided)',
    assumptions=['dominance is computed on normal control flow (unwind edges dropped)'],
)

PSUB = "yash_syntax::parser::core::Parser::<'a, 'b>::substitute_alias"
LSUB = "yash_syntax::parser::lex::core::Lexer::<'a>::substitute_alias"
CSUB = "yash_syntax::parser::lex::core::LexerCore::<'a>::substitute_alias"
MANUAL = "yash_syntax::parser::core::Parser::<'a, 'b>::take_token_manual"
AUTO = "yash_syntax::parser::core::Parser::<'a, 'b>::take_token_auto"
RAW = "yash_syntax::parser::core::Parser::<'a, 'b>::take_token_raw"
IS_ALIAS_FOR = 'yash_env::source::Source::is_alias_for'
REC = 'yash_syntax::parser::core::Rec'
REREAD = [re.compile(r"^yash_syntax::parser::core::Parser::<'a, 'b>::(peek_token|take_token_raw|take_token_manual|take_token_auto)$"),
          re.compile(r"^yash_syntax::parser::\w+::<impl yash_syntax::parser::core::Parser<'_, '_>>::\w+$")]


DEREFS = [re.compile(r' as core::ops::deref::Deref(Mut)?>::deref(_mut)?$'), re.compile(r'::as_str$'), re.compile(r'AsRef<.*>>::as_ref$')]


def _deep_name(body, du, o, depth=6):
    """operand_name that also looks through Deref::deref / as_str calls: `&*rc.field` -> 'rc.field'."""
    nm = Q.operand_name(body, du, o)
    for _ in range(depth):
        m = re.match(r'^_(\d+)((\.\w+)*)$', nm or '')
        if not m:
            return nm
        l = int(m.group(1))
        defs = du.defs.get(l, [])
        if len(defs) != 1 or defs[0][1] != 't' or not Q.callee_is(defs[0][2], DEREFS):
            return nm
        inner = Q.operand_name(body, du, defs[0][2]['a'][0])
        nm = (inner or '?') + m.group(2)
    return nm


def _switch_edges(F, body, du, pred):
    out = []
    for b in sorted(body.live_blocks()):
        ec = Q.edge_condition(F, body, du, b)
        if ec is None:
            continue
        org, labels = ec
        for tgt, labs in labels.items():
            for lab in labs:
                if pred(org, lab):
                    out.append((b, tgt, lab, org))
    return out


@RS.rule('C17.R1', 'K-GUARD', 'Parser::substitute_alias: the splice is dominated by the five eligibility tests and entered only through the position tests')
def r1(cx):
    F = cx.F
    # private helpers of the parser core (e.g. an extracted eligibility test) are inlined, with jump threading,
    # so that the guard chain is seen where the substitution happens
    body = F.inlined(F.body(PSUB))
    cx.fn(body.fn)
    du = Q.DefUse(body)
    sub = Q.find_calls(body, [LSUB])
    if not sub:
        cx.site('%s: no Lexer::substitute_alias call' % body.fn)
        cx.violation(PSUB, 'no-splice', 'Parser::substitute_alias no longer performs the substitution', loc=body.loc(body.d))
        return
    for b, t in sub:
        cx.site('%s: Lexer::substitute_alias at %s' % (body.fn, body.loc(t)))
        conds = Q.dominating_conditions(F, body, du, b)

        def has(pred):
            return any(pred(org, lab) for org, lab, e in conds)

        def call_cond(pat, lab_want, argcheck=None):
            for org, lab, e in conds:
                if lab == lab_want and org['k'] == 'call' and Q.callee_is(org['t'], pat):
                    if argcheck is None or argcheck(org['t']):
                        return True
            return False

        def variant_of_call(pat, variant, argcheck=None):
            for org, lab, e in conds:
                if lab == ('variant', variant) and org['k'] == 'discr':
                    src = Q.value_source(body, du, {'cp': {'l': org['pl']['l']}})
                    if src is not None and Q.callee_is(src, pat) and (argcheck is None or argcheck(src)):
                        return True
            return False

        def names(t):
            return [_deep_name(body, du, a) or '' for a in t['a']]

        checks = [
            ('glossary-non-empty', call_cond(['yash_env::alias::Glossary::is_empty', '*::Glossary::is_empty'], ('bool', False)),
             'substitution is attempted without testing that the alias glossary is non-empty'),
            ('token-is-word', has(lambda org, lab: org['k'] == 'discr' and lab == ('variant', 'Token') and 'TokenId' in org['ty']),
             'operators, IO numbers and end-of-input tokens are not excluded (token.id is not tested to be Token(_))'),
            ('literal-word', variant_of_call(['*::MaybeLiteral::to_string_if_literal'], 'Some',
                                             lambda t: names(t)[0].endswith('word')),
             'quoted or expanding words are not excluded (to_string_if_literal() is not required to be Some)'),
            ('not-own-replacement', call_cond([IS_ALIAS_FOR], ('bool', False),
                                              lambda t: names(t)[1] == 'name' and 'source' in names(t)[0].split('.')),
             'a name is substituted again inside its own replacement: `alias a=a` (or a cycle a->b->a) never terminates'),
            ('defined-alias', variant_of_call(['yash_env::alias::Glossary::look_up', '*::Glossary::look_up'], 'Some',
                                              lambda t: names(t)[1] == 'name'),
             'the splice is reached without a definition found by look_up(name)'),
        ]
        for key, ok, msg in checks:
            cx.site('%s: guard %s: %s' % (body.fn, key, 'present' if ok else 'MISSING'))
            if not ok:
                cx.violation(PSUB, 'guard:%s' % key, msg, loc=body.loc(t))
        # the position disjunction: is_command_name || alias.global || is_after_blank_ending_alias(token.index)
        def pos_edge(org, lab):
            if lab != ('bool', True):
                return False
            if org['k'] == 'arg' and body.locals[org['l']].get('ty') == 'bool':
                return True
            if org['k'] == 'place' and any(isinstance(e, dict) and e.get('f') == 'global' and
                                           (e.get('adt') or '').endswith('alias::Alias') for e in (org['pl'].get('p') or [])):
                return True
            if org['k'] == 'call' and Q.callee_is(org['t'], ['*::is_after_blank_ending_alias']):
                return (names(org['t'])[1] or '').endswith('token.index')
            return False
        edges = _switch_edges(F, body, du, pos_edge)
        kinds = set()
        for u, v, lab, org in edges:
            kinds.add('command-name' if org['k'] == 'arg' else ('global' if org['k'] == 'place' else 'after-blank-ending-alias'))
        cx.site('%s: position tests found: %s' % (body.fn, sorted(kinds)))
        for k, msg in (('command-name', 'a command-name word is not eligible'), ('global', 'global aliases are not eligible in argument position'),
                       ('after-blank-ending-alias', 'the word after an alias value ending in a blank is not eligible')):
            if k not in kinds:
                cx.violation(PSUB, 'position-test-missing:%s' % k, msg, loc=body.loc(t))
        if b in body.reachable(0, removed_edges={(u, v) for u, v, lab, org in edges}):
            cx.violation(PSUB, 'position-unguarded', 'the splice is reachable without any of the position tests being true: '
                         'ordinary argument words are alias-substituted', loc=body.loc(t))
        # what is spliced: token.index and the alias that was looked up
        an = names(t)
        if not (an[1].endswith('token.index') and an[2] == 'alias'):
            cx.violation(PSUB, 'splice-args', 'the splice does not replace the token just taken (from token.index) by the alias '
                         'looked up (found %s)' % an[1:], loc=body.loc(t))
        # result: AliasSubstituted after the splice, Parsed(token) otherwise
        subst = [blk for blk, j, s in Q.find_aggregates(body, REC, 'AliasSubstituted')]
        parsed = [blk for blk, j, s in Q.find_aggregates(body, REC, 'Parsed')]
        if not subst or not all(body.dominates(b, x) for x in subst):
            cx.violation(PSUB, 'result-substituted', 'Rec::AliasSubstituted is not returned exactly after the splice', loc=body.loc(t))
        if any(x in body.reachable(b) for x in parsed):
            cx.violation(PSUB, 'result-parsed-after-splice', 'Rec::Parsed(token) can be returned although the token was replaced',
                         loc=body.loc(t))
    cx.sample({'function': body.fn, 'splice': [body.loc(t) for _, t in sub]})


@RS.rule('C17.R2', 'K-CALLERS', 'the splice has one caller chain; take_token_auto returns listed keywords first and loops only on AliasSubstituted')
def r2(cx):
    F = cx.F
    chain = [(CSUB, {LSUB}), (LSUB, {PSUB}), (PSUB, {MANUAL, AUTO})]
    for callee, allowed in chain:
        callers = F.callers_of(lambda names, t: callee in names)
        cx.floor(len(callers), len(allowed), 'callers of %s' % callee)
        for b, i, t in callers:
            cx.site('%s <- %s at %s' % (callee.split('::')[-2] + '::' + callee.split('::')[-1], b.root, b.loc(t)))
            if b.root not in allowed:
                cx.violation(b.root, 'caller:%s' % callee.split('::')[-2].split('<')[0], '%s is called from %s: substitution '
                             'bypasses the eligibility tests of Parser::substitute_alias' % (callee, b.root), loc=b.loc(t))
    # take_token_manual passes its own is_command_name
    mb = F.main_body(MANUAL)
    cx.fn(mb.fn)
    du = Q.DefUse(mb)
    for b, t in Q.find_calls(mb, [PSUB]):
        org = du.origin(t['a'][2])
        nm = Q.operand_name(mb, du, t['a'][2])
        ok = (nm or '').endswith('is_command_name') or org['k'] == 'arg' or \
            (org['k'] == 'place' and org['pl']['l'] == 1 and (org['pl'].get('p') or [{}])[-1].get('ty') == 'bool')
        cx.site('%s: substitute_alias(token, %s)' % (mb.fn, nm))
        if not ok:
            cx.violation(MANUAL, 'is-command-name-arg', 'take_token_manual does not pass on its is_command_name argument', loc=mb.loc(t))
    # take_token_auto
    ab = F.main_body(AUTO)
    cx.fn(ab.fn)
    du = Q.DefUse(ab)
    subs = Q.find_calls(ab, [PSUB])
    raws = Q.find_calls(ab, [RAW])
    cx.require(subs and raws, 'take_token_auto does not call take_token_raw / substitute_alias')
    for b, t in subs:
        arg = t['a'][2]
        cx.site('%s: substitute_alias(token, %s) at %s' % (ab.fn, arg.get('c', Q.operand_name(ab, du, arg)), ab.loc(t)))
        if arg.get('c') != 'false':
            cx.violation(AUTO, 'is-command-name-arg', 'take_token_auto must not treat the token as a command name '
                         '(is_command_name must be the constant false)', loc=ab.loc(t))
    # keyword in the list => returned before substitution is attempted
    contains = _switch_edges(F, ab, du, lambda org, lab: lab == ('bool', True) and org['k'] == 'call' and
                             Q.callee_is(org['t'], [re.compile(r'^core::slice::<impl \[T\]>::contains$')]))
    if not contains:
        cx.violation(AUTO, 'keyword-test-missing', 'take_token_auto does not test the token against the expected keywords: '
                     'an alias named like the expected reserved word replaces it', loc=ab.loc(ab.d))
    for u, v, lab, org in contains:
        cx.site('%s: keywords.contains(..) true edge bb%d->bb%d' % (ab.fn, u, v))
        reach = ab.reachable(v)
        if any(b in reach for b, _ in subs):
            cx.violation(AUTO, 'keyword-then-substitute', 'an expected keyword can still be alias-substituted', loc=ab.loc(ab.term(u)))
    # Parsed => return without taking another token
    parsed = _switch_edges(F, ab, du, lambda org, lab: org['k'] == 'discr' and org['ty'].startswith(REC + '<') and lab == ('variant', 'Parsed'))
    cx.require(parsed, 'no Rec::Parsed edge in take_token_auto')
    for u, v, lab, org in parsed:
        reach = ab.reachable(v)
        cx.site('%s: Rec::Parsed edge bb%d->bb%d' % (ab.fn, u, v))
        if any(b in reach for b, _ in raws):
            cx.violation(AUTO, 'loops-after-parsed', 'take_token_auto takes another token although no substitution happened '
                         '(a token is dropped)', loc=ab.loc(ab.term(u)))


@RS.rule('C17.R3', 'K-PASS', 'the splice tags the replacement with Source::Alias{original, alias} and rewinds to its beginning')
def r3(cx):
    F = cx.F
    body = F.body(CSUB)
    cx.fn(body.fn)
    du = Q.DefUse(body)
    aggs = Q.find_aggregates(body, 'yash_env::source::Source', 'Alias')
    if not aggs:
        cx.site('%s: no Source::Alias' % body.fn)
        cx.violation(CSUB, 'no-alias-origin', 'the replacement text is not tagged with Source::Alias: the recursion guard '
                     'is_alias_for can never see that the text came from this alias', loc=body.loc(body.d))
        return
    splice = Q.find_calls(body, ['alloc::vec::Vec::<T, A>::splice'])
    cx.require(len(splice) == 1, 'expected one Vec::splice in LexerCore::substitute_alias')
    sb, st = splice[0]
    for b, j, s in aggs:
        rv = s['rv']
        fields = dict(zip(rv.get('fields') or [], rv['ops']))
        cx.site('%s: Source::Alias{%s} at %s' % (body.fn, ', '.join(fields), body.loc(s)))
        o_src = Q.value_source(body, du, fields.get('original', rv['ops'][0]))
        a_src = Q.value_source(body, du, fields.get('alias', rv['ops'][-1]))
        ok_o = o_src is not None and Q.callee_is(o_src, ['*::location_range'])
        if ok_o:
            rng = du.origin(o_src['a'][1])
            ok_o = rng['k'] == 'agg' and 'Range' in rng['rv'].get('adt', '') and \
                Q.operand_name(body, du, rng['rv']['ops'][0]) == 'begin'
        if not ok_o:
            cx.violation(CSUB, 'original-location', 'Source::Alias.original is not the location of the replaced word '
                         '(location_range(begin..end)): the origin chain walked by is_alias_for is broken', loc=body.loc(s))
        ok_a = a_src is not None and Q.callee_is(a_src, [re.compile(r'Clone>::clone$')]) and \
            Q.operand_name(body, du, a_src['a'][0]) == 'alias'
        if not ok_a:
            cx.violation(CSUB, 'alias-field', 'Source::Alias.alias is not the alias being substituted', loc=body.loc(s))
        # the tagged source reaches the spliced characters
        taint = Q.forward_taint(body, {s['lhs']['l']})
        if Q.operand_local(st['a'][2]) not in taint:
            cx.violation(CSUB, 'tag-not-spliced', 'the characters spliced into the buffer do not carry the Source::Alias origin',
                         loc=body.loc(st))
    # the replaced range starts at `begin` and ends at the current index
    rng = du.origin(st['a'][1])
    ok = rng['k'] == 'agg' and 'Range' in rng['rv'].get('adt', '') and Q.operand_name(body, du, rng['rv']['ops'][0]) == 'begin'
    if ok:
        endname = Q.operand_name(body, du, rng['rv']['ops'][1])
        ok = endname in ('end', 'self.index')
    cx.site('%s: splice(begin..end) at %s' % (body.fn, body.loc(st)))
    if not ok:
        cx.violation(CSUB, 'splice-range', 'the replaced range is not begin..index (the word just read)', loc=body.loc(st))
    # the replacement is the alias value
    chars = Q.find_calls(body, ['*::source_chars'])
    okc = False
    for b, t in chars:
        nm = Q.operand_name(body, du, t['a'][0]) or ''
        src = Q.value_source(body, du, t['a'][0])
        if src is not None and src.get('a'):
            nm = Q.operand_name(body, du, src['a'][0]) or nm
        org = du.origin(t['a'][0])
        if 'replacement' in nm or 'replacement' in str(org):
            okc = True
    if not okc:
        okc = any('replacement' in str(s) for b, j, s in body.stmts())
    if not okc:
        cx.violation(CSUB, 'replacement-text', 'the spliced characters are not made from alias.replacement', loc=body.loc(st))
    # index = begin on every path to return
    writes = [(b, j, s) for b, j, s, how, f in Q.field_writes(body, 'yash_syntax::parser::lex::core::LexerCore', 'index') if how == 'assign']
    good = [b for b, j, s in writes if s['rv']['k'] == 'use' and Q.operand_name(body, du, s['rv']['o']) == 'begin']
    for b, j, s in writes:
        cx.site('%s: self.index = %s at %s' % (body.fn, Q.operand_name(body, du, s['rv']['o']) if s['rv']['k'] == 'use' else '?', body.loc(s)))
    if len(good) != len(writes) or not good:
        cx.violation(CSUB, 'index-not-rewound', 'after the splice the index is not reset to `begin`: the replacement text is '
                     'skipped instead of being re-lexed (keywords/operators/nested aliases in it are not recognised)',
                     loc=body.loc(st))
    else:
        p = Q.must_pass(body, body.succ(sb), set(good))
        if p:
            cx.violation(CSUB, 'index-not-rewound', 'a path from the splice to return does not reset the index to `begin`',
                         loc=body.loc(st), path=Q.render_path(body, p))


def _contains(node, pred):
    return any(pred(x) for x in H.walk(node))


@RS.rule('C17.R4', 'K-TABLE', 'Source::is_alias_for: Alias => name equality OR recursion on the original; CommandSubst => recursion on the original (its body is text of the enclosing code, parsed later); every other origin => false')
def r4(cx):
    F = cx.F
    h = F.hir_of(IS_ALIAS_FOR)
    cx.fn(IS_ALIAS_FOR)
    loc = '%s:%d' % (h['file'], h['line'])
    params = [p.get('name') for p in h['params']]
    cx.require(len(params) == 2, 'is_alias_for(&self, name) expected')
    pname = params[1]
    # decompose into (alias branch, other branches)
    alias_branch = None
    subst_branch = None
    others = []
    body = H.peel(h['body'])
    while body.get('k') == 'block' and not body.get('stmts') and body.get('e'):
        body = H.peel(body['e'])

    def is_alias_pat(p):
        vs = H.pat_variants(p)
        return vs == {'yash_env::source::Source::Alias'}
    if body.get('k') == 'if' and H.peel(body['c']).get('k') == 'letexpr' and is_alias_pat(H.peel(body['c'])['pat']):
        alias_branch = body['t']
        others = [body.get('f')]
    elif body.get('k') == 'match':
        for arm in body['arms']:
            if is_alias_pat(arm['pat']) and not arm.get('guard') and alias_branch is None:
                alias_branch = arm['body']
            elif H.pat_variants(arm['pat']) == {'yash_env::source::Source::CommandSubst'} and not arm.get('guard'):
                subst_branch = arm['body']
            else:
                others.append(arm['body'])
    cx.require(alias_branch is not None, 'is_alias_for is not a single test for Source::Alias (if let / match)')
    cx.cellcount(len(H.enum_variants(F, 'yash_env::source::Source')))

    def is_name_eq(x):
        if x.get('k') == 'binary' and x.get('op') == '==':
            sides = [x['a'], x['b']]
        elif x.get('k') == 'mcall' and x.get('name') == 'eq':
            sides = [x['recv']] + x['a']
        else:
            return False
        has_field = any(_contains(s, lambda y: y.get('k') == 'field' and y.get('name') == 'name' and
                                  (y.get('adt') or '').endswith('alias::Alias')) for s in sides)
        has_param = any(_contains(s, lambda y: y.get('k') == 'local' and y.get('name') == pname) for s in sides)
        return has_field and has_param

    def is_rec(x):
        if x.get('k') not in ('mcall', 'call') or not H.callee_matches(x, [IS_ALIAS_FOR]):
            return False
        recv = x.get('recv') or (x['a'][0] if x.get('a') else None)
        args = x['a'] if x.get('k') == 'mcall' else x['a'][1:]
        on_original = recv is not None and _contains(recv, lambda y: y.get('k') == 'field' and y.get('name') == 'source') and \
            _contains(recv, lambda y: y.get('k') == 'local' and y.get('name') == 'original')
        return on_original and any(_contains(a, lambda y: y.get('k') == 'local' and y.get('name') == pname) for a in args)

    has_eq = _contains(alias_branch, is_name_eq)
    has_rec = _contains(alias_branch, is_rec)
    cx.site('is_alias_for: Alias arm: name equality=%s, recursion on original=%s' % (has_eq, has_rec))
    if not has_eq:
        cx.violation(IS_ALIAS_FOR, 'alias-arm:name-equality', 'the Alias arm does not compare alias.name with the name: '
                     '`alias a=a` is substituted forever', loc=loc)
    if not has_rec:
        cx.violation(IS_ALIAS_FOR, 'alias-arm:recursion', 'the Alias arm does not recurse on the source of the original location: '
                     'a cycle through two aliases (a->b, b->a) is substituted forever', loc=loc)
    if has_eq and has_rec:
        ors = [x for x in H.walk(alias_branch) if x.get('k') == 'binary' and x.get('op') == '||' and
               ((_contains(x['a'], is_name_eq) and _contains(x['b'], is_rec)) or (_contains(x['b'], is_name_eq) and _contains(x['a'], is_rec)))]
        top = H.peel(alias_branch)
        while top.get('k') == 'block' and not top.get('stmts') and top.get('e'):
            top = H.peel(top['e'])
        if not ors or ors[0] is not top:
            cx.violation(IS_ALIAS_FOR, 'alias-arm:not-disjunction', 'the Alias arm is not `alias.name == name || original...is_alias_for(name)`',
                         loc=loc)
        if _contains(alias_branch, lambda y: y.get('k') == 'unary' and y.get('op') == '!'):
            cx.violation(IS_ALIAS_FOR, 'alias-arm:negation', 'the Alias arm negates part of the test', loc=loc)
    # fix (hunt C17-1): the body of a command substitution is parsed when it is executed, with Source::CommandSubst{original}; it is
    # still text of the enclosing code, so the chain continues through its original (`alias pwd='echo $(pwd)'` recursed for ever)
    sub_rec = False
    if subst_branch is not None:
        top = H.peel(subst_branch)
        while top.get('k') == 'block' and not top.get('stmts') and top.get('e'):
            top = H.peel(top['e'])
        sub_rec = is_rec(top)
    cx.site('is_alias_for: CommandSubst arm recurses on its original: %s' % sub_rec)
    if not sub_rec:
        cx.violation(IS_ALIAS_FOR, 'command-subst-arm:no-recursion', 'a command substitution inside an alias replacement loses the chain of '
                     'substituted names: its body is parsed later with Source::CommandSubst{original}, for which is_alias_for answers false, so '
                     '`alias pwd=\'echo "dir: $(pwd)"\'; pwd` substitutes pwd again at every level until the stack overflows (the manual: "an '
                     'alias is not substituted in the result of its own expansion, preventing infinite loops")', loc=loc)
    for o in others:
        v = H.lit_value(o) if o is not None else None
        if o is not None:
            x = H.peel(o)
            while x.get('k') == 'block' and not x.get('stmts') and x.get('e'):
                x = H.peel(x['e'])
            v = H.lit_value(x)
        cx.site('is_alias_for: non-Alias branch => %s' % v)
        if v is not False:
            cx.violation(IS_ALIAS_FOR, 'other-arm', 'a non-alias origin is reported as being inside an alias replacement '
                         '(aliases in files/eval/command substitutions would never be substituted)', loc=loc)


@RS.rule('C17.R5', 'K-SIBLING', 'restart protocol: every AliasSubstituted edge returns AliasSubstituted or looks at the token stream again; Rec::unwrap only without aliases')
def r5(cx):
    F = cx.F
    n = 0
    fns = set()
    for body in F.bodies_in(['yash_syntax::parser::']):
        if body.root.startswith('yash_syntax::parser::core::Rec::<T>::'):
            continue
        du = None
        for b in sorted(body.live_blocks()):
            t = body.term(b)
            if t['k'] != 'switch':
                continue
            du = du or Q.DefUse(body)
            ec = Q.edge_condition(F, body, du, b)
            if ec is None or ec[0]['k'] != 'discr' or not ec[0]['ty'].startswith(REC + '<'):
                continue
            org, labels = ec
            src = Q.value_source(body, du, {'cp': {'l': org['pl']['l']}})
            n += 1
            fns.add(body.root)
            cx.fn(body.root)
            prod = pp.callee(src).split('::')[-1] if src is not None else '?'
            cx.site('%s: match on Rec from %s at %s' % (body.root, prod, body.loc(t)))
            if src is None:
                cx.violation(body.root, 'rec-producer-unknown', 'a Rec value of unknown origin is matched', loc=body.loc(t))
                continue
            # after a substitution the token stream must be looked at again (the replacement was spliced in front
            # of the lexer position): any token access or production call of the parser does that
            ok_through = {pb for pb, pt in body.calls() if pt is src}
            ok_through |= {x for x, pt in Q.find_calls(body, REREAD)}
            ok_through |= {x for x, j, s in Q.find_aggregates(body, REC, 'AliasSubstituted')}
            ok_through |= {x for x, pt in Q.find_calls(body, Q.FROM_RESIDUAL)}
            ok_through |= {x for x, j, s in Q.find_aggregates(body, 'core::result::Result', 'Err')}
            for tgt, labs in labels.items():
                if ('variant', 'AliasSubstituted') not in labs:
                    continue
                if len(labs) > 1:
                    # a wildcard edge shared with Parsed: the substitution is not distinguished at all
                    cx.violation(body.root, 'restart:%s:undistinguished' % prod, 'AliasSubstituted is not distinguished from Parsed',
                                 loc=body.loc(t))
                    continue
                p = Q.must_pass(body, [tgt], ok_through)
                if p:
                    cx.violation(body.root, 'restart:%s' % prod, 'after %s reported an alias substitution the function can '
                                 'finish without returning Rec::AliasSubstituted and without looking at the token stream again: '
                                 'the substituted text is parsed in the wrong context or dropped' % prod,
                                 loc=body.loc(t), path=Q.render_path(body, p))
    cx.floor(n, 14, 'matches on Rec in the parser')
    cx.floor(len(fns), 8, 'production functions matching on Rec')
    # Rec::unwrap / is_alias_substituted
    for b, i, t in F.callers_of(lambda names, t: REC + '::<T>::unwrap' in names):
        cx.site('%s calls Rec::unwrap at %s' % (b.root, b.loc(t)))
        bodies = F.logical(b.root)
        with_aliases = [x for bb in bodies for x in Q.find_calls(bb, ["yash_syntax::parser::core::Config::<'a>::aliases"])]
        news = [x for bb in bodies for x in Q.find_calls(bb, ["yash_syntax::parser::core::Parser::<'a, 'b>::new"])]
        if with_aliases or not news or not b.root.startswith('yash_syntax::parser::from_str::'):
            cx.violation(b.root, 'rec-unwrap', 'Rec::unwrap (panics on AliasSubstituted) is used where the parser may have '
                         'aliases: a defined alias in command position aborts the shell', loc=b.loc(t))
    # the default configuration has no aliases
    cb = F.body("yash_syntax::parser::core::Config::<'a>::new")
    empty = Q.find_aggregates(cb, 'yash_env::alias::EmptyGlossary')
    cx.site('Config::new uses EmptyGlossary: %s' % bool(empty))
    if not empty:
        cx.violation(cb.fn, 'default-glossary', 'the default parser configuration is no longer the empty glossary '
                     '(FromStr implementations unwrap Rec values)', loc=cb.loc(cb.d))


@RS.rule('C17.R1b', 'K-GUARD', 'the blank-ending-alias test is consulted whenever the other two position tests fail: no extra condition guards it')
def r1b(cx):
    F = cx.F
    fn = [f for f in F.bodies if Q.re.search(r'parser::core::Parser::<.*>::substitute_alias$', f)]
    cx.require(len(fn) == 1, 'Parser::substitute_alias not found')
    body = F.inlined(F.bodies[fn[0]])
    cx.fn(body.fn)
    du = Q.DefUse(body)
    sites = Q.find_calls(body, [Q.re.compile(r'::is_after_blank_ending_alias$')])
    cx.require(len(sites) == 1, 'is_after_blank_ending_alias call not found in Parser::substitute_alias')
    blk, t = sites[0]
    allowed_calls = [Q.re.compile(r'::is_empty$'), Q.re.compile(r'::to_string_if_literal$'), Q.re.compile(r'::is_alias_for$'),
                     Q.re.compile(r'::look_up$')]
    for org, lab, edge in Q.dominating_conditions(F, body, du, blk):
        desc = None
        if org['k'] == 'call':
            if any(Q.callee_is(org['t'], [p]) for p in allowed_calls):
                desc = 'call ' + pp.callee(org['t']).split('::')[-1]
            else:
                desc = None
                bad = 'result of ' + pp.callee(org['t'])
        elif org['k'] == 'discr':
            desc = 'discriminant of %s' % org['ty'][:40]       # Option / TokenId tests of the eligibility chain
            if not any(x in org['ty'] for x in ('core::option::Option', 'TokenId')):
                desc = None
                bad = 'discriminant of ' + org['ty']
        elif org['k'] in ('place', 'arg'):
            p = org.get('pl') or {'l': org.get('l')}
            nm = Q.operand_name(body, du, {'cp': p}) if p.get('l') is not None else None
            fields = [e['f'] for e in (p.get('p') or []) if isinstance(e, dict) and 'f' in e]
            if nm == 'is_command_name' or (fields and fields[-1] == 'global'):
                desc = 'flag %s' % (nm or fields[-1])
            else:
                bad = 'value of %s' % (nm or fields or p)
        elif org['k'] == 'unop' and org['rv']['op'] == 'Not':
            desc = 'negation'
        else:
            bad = org['k']
        cx.site('%s: is_after_blank_ending_alias guarded by %s = %s' % (body.fn, desc or bad, lab))
        if desc is None:
            cx.violation(body.fn, 'extra-guard-on-blank-ending-test', 'whether a word follows a blank-ending alias value is additionally made to '
                         'depend on %s: POSIX makes the word eligible whenever it follows such a value (state kept outside the lexer '
                         'goes stale, e.g. across the parsers created for successive lines of a multi-line alias value)' % bad,
                         loc=body.loc(t))


BYTE_LEN = ['core::str::<impl str>::len', 'alloc::string::String::len']


@RS.rule('C17.R6', 'K-CALLERS', 'the lexer buffer and source locations count characters: no byte length of text is used in the lexer core')
def r6(cx):
    F = cx.F
    # positive example for the matcher: the arithmetic tokenizer (a byte-indexed lexer) does call str::len
    pos = [1 for b in F.bodies_in(['yash_arith::token::']) for _ in Q.find_calls(b, BYTE_LEN)]
    cx.require(pos, 'the byte-length matcher no longer matches its positive example (yash_arith tokenizer)')
    n = 0
    for b in F.bodies_in(['yash_syntax::parser::lex::core::', 'yash_syntax::parser::core::']):
        n += 1
        for blk, t in Q.find_calls(b, BYTE_LEN):
            cx.violation(b.root, 'byte-length-in-char-indexed-lexer', 'a byte length (%s) is used in the lexer core, whose buffer indices and '
                         'Location ranges count characters: any comparison or arithmetic with it is wrong as soon as the text contains a '
                         'multi-byte character (e.g. an alias value with é or a U+3000 blank)' % pp.callee(t), loc=b.loc(t))
    cx.site('lexer/parser core: %d bodies scanned for byte lengths; matcher validated on %d yash_arith sites' % (n, len(pos)))
    cx.floor(n, 40, 'lexer core bodies')


NEWLINE_SKIP = [re.compile(r"^yash_syntax::parser::list::<impl yash_syntax::parser::core::Parser<'_, '_>>::newline_and_here_doc_contents$"),
                re.compile(r'::newline_and_here_doc_contents$')]


@RS.rule('C17.R5b', 'K-SIBLING', 'where the grammar allows line breaks before a command (after `&&`, `||`, `|`, ...), they are skipped again '
         'when the command is re-parsed after an alias substitution (the replacement may be blank and be followed by a newline)')
def r5b(cx):
    F = cx.F
    n = 0
    for body in F.bodies_in(['yash_syntax::parser::']):
        skips = Q.find_calls(body, NEWLINE_SKIP)
        if not skips:
            continue
        du = Q.DefUse(body)
        for b in sorted(body.live_blocks()):
            if body.term(b)['k'] != 'switch':
                continue
            ec = Q.edge_condition(F, body, du, b)
            if ec is None or ec[0]['k'] != 'discr' or not ec[0]['ty'].startswith(REC + '<'):
                continue
            org, labels = ec
            src = Q.value_source(body, du, {'cp': {'l': org['pl']['l']}})
            if src is None:
                continue
            sb = [pb for pb, pt in body.calls() if pt is src]
            if not sb:
                continue
            sb = sb[0]
            # the first attempt comes after a newline skip (the skip loop's exit dominates the producer call)
            pre = [(kb, kt) for kb, kt in skips if body.dominates(kb, sb)]
            if not pre:
                continue
            for tgt, labs in labels.items():
                if set(labs) != {('variant', 'AliasSubstituted')}:
                    continue
                if sb not in body.reachable(tgt):
                    continue          # not a retry loop (AliasSubstituted is returned to the caller)
                n += 1
                cx.fn(body.root)
                p = body.shortest_path(tgt, {sb}, removed={kb for kb, _ in skips})
                cx.site('%s: %s retried after an alias substitution at %s; line breaks skipped again: %s'
                        % (body.root, pp.callee(src).split('::')[-1], body.loc(src), p is None))
                if p is not None:
                    cx.violation(body.root, 'retry-without-linebreak:%s' % pp.callee(src).split('::')[-1], 'after an alias substitution the '
                                 'command is parsed again without skipping line breaks, although they were skipped before the first '
                                 'attempt: with `alias b=" "`, `true && b<newline>echo ok` is a syntax error while the text obtained by '
                                 'substituting by hand (`true &&  <newline>echo ok`) is valid', loc=body.loc(src), path=Q.render_path(body, p))
    cx.floor(n, 1, 'alias-retry loops preceded by a line-break skip')


ALIAS_INSPECTORS = {
    # functions of the lexer/parser that look at Source::Alias themselves, with the reason they may
    "yash_syntax::parser::lex::core::LexerCore::<'a>::next_index": 'numbers the characters of a replacement (no identity test)',
    "yash_syntax::parser::lex::core::LexerCore::<'a>::is_after_blank_ending_alias": 'walks from the previous character up its chain of alias origins; '
                                                                                   'the identity test itself is delegated to is_alias_for',
}


@RS.rule('C17.R4b', 'K-CALLERS', '"does this character come from alias X" is answered only by Source::is_alias_for (which follows the whole chain '
         'of nested substitutions); the blank-ending test uses it for the next character')
def r4b(cx):
    F = cx.F
    n = 0
    for k, b in F.bodies.items():
        if not k.startswith('yash_syntax::parser::'):
            continue
        du = None
        for u in sorted(b.live_blocks()):
            if b.term(u)['k'] != 'switch':
                continue
            du = du or Q.DefUse(b)
            ec = Q.edge_condition(F, b, du, u)
            if not (ec and ec[0]['k'] == 'discr' and ec[0]['ty'].endswith('source::Source')):
                continue
            if not any(set(labs) == {('variant', 'Alias')} for labs in ec[1].values()):
                continue
            n += 1
            cx.fn(b.fn)
            owner = re.sub(r'(::\{closure#\d+\})+$', '', b.fn)          # a closure belongs to the function that contains it
            ok = owner in ALIAS_INSPECTORS
            cx.site('%s inspects Source::Alias at %s: %s' % (b.fn, b.loc(b.term(u)), ALIAS_INSPECTORS.get(owner, 'NOT REVIEWED')))
            if not ok:
                cx.violation(b.fn, 'direct-alias-test', 'the origin of a character is compared with an alias by looking at the innermost '
                             'Source::Alias only: a word that came from a nested substitution inside a blank-ending alias value is then taken '
                             'for text after that value and is alias-substituted although it is not in command position', loc=b.loc(b.term(u)))
    cx.floor(n, 2, 'functions of the parser that inspect Source::Alias')
    root = "yash_syntax::parser::lex::core::LexerCore::<'a>::is_after_blank_ending_alias"
    users = [b for b, blk, t in F.callers_of(lambda names, t: any(x.endswith('Source::is_alias_for') for x in names)) if b.fn.startswith(root)]
    cx.site('is_after_blank_ending_alias asks Source::is_alias_for in %s' % sorted({b.fn for b in users}))
    if not users:
        cx.violation(root, 'no-is_alias_for', 'is_after_blank_ending_alias no longer asks Source::is_alias_for whether the next character still '
                     'belongs to the blank-ending alias', loc=F.body(root).loc(F.body(root).d))


@RS.rule('C17.R1c', 'K-PASS', 'Parser::substitute_alias refuses a substitution only through the reviewed tests (no glossary, not a word token, '
         'not literal, inside its own replacement, undefined, no eligible position): no other condition can veto it')
def r1c(cx):
    F = cx.F
    body = F.inlined(F.body(PSUB))
    cx.fn(body.fn)
    du = Q.DefUse(body)
    parsed = {blk for blk, j, s in Q.find_aggregates(body, REC, 'Parsed')}
    cx.require(parsed, 'Parser::substitute_alias has no Rec::Parsed exit')

    def src_is(org, pats):
        if org['k'] != 'discr':
            return False
        src = Q.value_source(body, du, {'cp': {'l': org['pl']['l']}})
        return src is not None and Q.callee_is(src, pats)

    def reject(org, lab):
        if org['k'] == 'call' and Q.callee_is(org['t'], ['yash_env::alias::Glossary::is_empty', '*::Glossary::is_empty']):
            return lab == ('bool', True)
        if org['k'] == 'discr' and 'TokenId' in (org.get('ty') or ''):
            return lab != ('variant', 'Token')
        if src_is(org, ['*::MaybeLiteral::to_string_if_literal']) or src_is(org, ['yash_env::alias::Glossary::look_up', '*::Glossary::look_up']):
            return lab == ('variant', 'None')
        if org['k'] == 'call' and Q.callee_is(org['t'], [IS_ALIAS_FOR]):
            return lab == ('bool', True)
        if org['k'] == 'arg' and body.locals[org['l']].get('ty') == 'bool':
            return lab == ('bool', False)
        if org['k'] == 'place' and any(isinstance(e, dict) and e.get('f') == 'global' for e in (org['pl'].get('p') or [])):
            return lab == ('bool', False)
        if org['k'] == 'call' and Q.callee_is(org['t'], ['*::is_after_blank_ending_alias']):
            return lab == ('bool', False)
        return False

    edges = set()
    for u in sorted(body.live_blocks()):
        ec = Q.edge_condition(F, body, du, u)
        if ec is None:
            continue
        org, labels = ec
        for tgt, labs in labels.items():
            if labs and all(reject(org, lab) for lab in labs):
                edges.add((u, tgt))
    cx.site('%s: %d reviewed refusal edges; exits without substitution: %s' % (body.fn, len(edges), sorted(parsed)))
    cx.require(len(edges) >= 6, 'fewer than 6 reviewed refusal edges found in substitute_alias (shape changed: review)')
    p = body.shortest_path(0, parsed, removed_edges=edges)
    if p is not None:
        cx.violation(PSUB, 'unreviewed-refusal', 'Parser::substitute_alias can return the token unsubstituted without any of the reviewed '
                     'tests failing: an additional condition vetoes alias substitution (e.g. a word spelled like a reserved word in '
                     'command-name position after an assignment or redirection, `X=1 if`, where it IS an ordinary command name)',
                     loc=body.loc(body.term(p[min(len(p) - 1, 1)])), path=Q.render_path(body, p))



# ---------------------------------------------------------------------------------------------------------------------
# restart protocol, second half (R7) and "a token becomes a word only behind a test of its own id" (R8)
TOKEN = 'yash_syntax::parser::lex::core::Token'
PRODUCTION = re.compile(r"^yash_syntax::parser::\w+::<impl yash_syntax::parser::core::Parser<'_, '_>>::\w+$")
VEC_IS_EMPTY = ['alloc::vec::Vec::<T, A>::is_empty']
VEC_PUSH = ['alloc::vec::Vec::<T, A>::push']
PLUMBING = Q.AWAIT_CALLS + Q.TRY_BRANCH + Q.PROPAGATING_CALLS + ['*::Pin::<Ptr>::new_unchecked']


def _place_chain(du, p, depth=16):
    """A place and its successive resolutions through single-definition temporaries, copies and references:
    `(*_r).f` with `_r = &x.g` -> `x.g.f` (unlike DefUse.deref_origin this also looks through NAMED locals, e.g. the
    `self` of an inlined helper)."""
    out = [p]
    for _ in range(depth):
        d = du.single_def(p['l'])
        if d is None or d[1] == 't' or d[2]['k'] != 'assign':
            break
        rv = d[2]['rv']
        proj = p.get('p') or []
        if rv['k'] == 'use' and Q.operand_place(rv['o']) is not None:
            q = Q.operand_place(rv['o'])
            p = {'l': q['l'], 'p': (q.get('p') or []) + proj}
        elif rv['k'] == 'ref' and proj and proj[0] == '*':
            q = rv['pl']
            p = {'l': q['l'], 'p': (q.get('p') or []) + proj[1:]}
        else:
            break
        out.append(p)
    return out


def _place_keys(du, p):
    """{(local, field names)} over the resolutions of a place (derefs ignored; a resolution through an index etc. is skipped)."""
    keys = set()
    for q in _place_chain(du, p):
        fields = []
        for e in q.get('p') or []:
            if isinstance(e, dict) and 'f' in e:
                fields.append(e['f'])
            elif e == '*':
                continue
            else:
                fields = None
                break
        if fields is not None:
            keys.add((q['l'], tuple(fields)))
    return keys


def _conds_plus(F, body, du, block):
    """implied_conditions, plus: a bool local known to be v whose only definition able to give v is the result of a call
    (the last conjunct of an inlined `x() && y() && z()`) makes that call's result v, together with what dominates the call."""
    out = list(Q.implied_conditions(F, body, du, block, depth=6))
    for org, lab, e in list(out):
        for _ in range(3):          # `if !x` : the switch is on Not(x)
            if lab[0] == 'bool' and org['k'] == 'unop' and org['rv']['op'] == 'Not':
                org, lab = du.origin(org['rv']['o']), ('bool', not lab[1])
                out.append((org, lab, e))
    seen = set()
    work = [(org['pl']['l'], lab[1]) for org, lab, e in out if lab[0] == 'bool' and org['k'] == 'place' and not org['pl'].get('p')]
    while work:
        l, val = work.pop()
        if (l, val) in seen:
            continue
        seen.add((l, val))
        keep = []
        for b, j, node in du.defs.get(l, []):
            if j != 't':
                rv = node.get('rv') or {}
                cval = str(rv['o'].get('c')) if rv.get('k') == 'use' and 'c' in rv['o'] else None
                if cval in ('true', 'false') and (cval == 'true') != val:
                    continue
            keep.append((b, j, node))
        if not keep:
            continue
        copies = set()
        for b, j, node in keep:
            q = Q.operand_place(node['rv']['o']) if j != 't' and node.get('k') == 'assign' and node['rv']['k'] == 'use' else None
            copies.add(q['l'] if q is not None and not q.get('p') else None)
        if len(copies) == 1 and None not in copies:
            work.append((copies.pop(), val))          # every remaining definition copies the same local
            continue
        if len(keep) != 1 or keep[0][1] != 't':
            continue
        b, j, node = keep[0]
        extra = list(Q.implied_conditions(F, body, du, b, depth=6))
        out.append(({'k': 'call', 't': node, 'b': b}, ('bool', val), (b, b)))
        out.extend(extra)
        work.extend((org['pl']['l'], lab[1]) for org, lab, e in extra if lab[0] == 'bool' and org['k'] == 'place' and not org['pl'].get('p'))
    return out


def _rec_matches(F, body, du):
    """[(switch block, producing call, {target: labels})] for every match on a Rec value."""
    out = []
    for b in sorted(body.live_blocks()):
        if body.term(b)['k'] != 'switch':
            continue
        ec = Q.edge_condition(F, body, du, b)
        if ec is None or ec[0]['k'] != 'discr' or not ec[0]['ty'].startswith(REC + '<'):
            continue
        src = Q.value_source(body, du, {'cp': {'l': ec[0]['pl']['l']}})
        out.append((b, src, ec[1]))
    return out


def _consumption_events(F, body, du):
    """Points of a production body after which a token of the input has been consumed and kept:
    [(start block, description)]."""
    ev = []
    for b, t in Q.find_calls(body, [RAW, AUTO]):
        ev.append((t['to'], pp.callee(t).split('::')[-1], t))
    for b, src, labels in _rec_matches(F, body, du):
        if src is None or not Q.callee_is(src, [MANUAL]):
            continue
        for tgt, labs in labels.items():
            if ('variant', 'Parsed') in labs:
                ev.append((tgt, 'take_token_manual=>Parsed', src))
    # a production that returns Some(_) (directly or inside Rec::Parsed) has consumed what it parsed
    for b in sorted(body.live_blocks()):
        if body.term(b)['k'] != 'switch':
            continue
        ec = Q.edge_condition(F, body, du, b)
        if ec is None or ec[0]['k'] != 'discr' or not ec[0]['ty'].startswith('core::option::Option<'):
            continue
        src = Q.value_source(body, du, {'cp': {'l': ec[0]['pl']['l']}})
        if src is None or not Q.callee_is(src, [PRODUCTION]):
            continue
        for tgt, labs in ec[1].items():
            if ('variant', 'Some') in labs:
                ev.append((tgt, '%s=>Some' % pp.callee(src).split('::')[-1], src))
    return ev


@RS.rule('C17.R7', 'K-PASS', 'restart protocol: a production returns Rec::AliasSubstituted only while it has consumed nothing (after a kept token '
         'it retries locally, or proves by an emptiness test of its accumulator that nothing was kept)')
def r7(cx):
    F = cx.F
    n = 0
    nev = 0
    for b0 in F.bodies_in(['yash_syntax::parser::']):
        if b0.root.startswith('yash_syntax::parser::core::'):
            continue          # Rec::map and Parser::substitute_alias (the producer itself: the token it was given is replaced, not kept)
        if not Q.find_aggregates(b0, REC, 'AliasSubstituted'):
            continue
        body = F.inlined(b0)
        du = Q.DefUse(body)
        cx.fn(body.fn)
        events = _consumption_events(F, body, du)
        pushes = []
        for pb, pt in Q.find_calls(body, VEC_PUSH):
            org = du.origin(pt['a'][0])
            if org['k'] == 'ref':
                pushes.append((pb, _place_keys(du, org['pl'])))
        for gb, j, s in Q.find_aggregates(body, REC, 'AliasSubstituted'):
            n += 1
            # what is known to be empty where AliasSubstituted is returned
            empty = set()
            for org, lab, e in _conds_plus(F, body, du, gb):
                if lab == ('bool', True) and org['k'] == 'call' and Q.callee_is(org['t'], VEC_IS_EMPTY):
                    o = du.origin(org['t']['a'][0])
                    if o['k'] == 'ref':
                        empty |= {k for k in _place_keys(du, o['pl']) if k[1]}
            recorded = {pb for pb, ks in pushes if ks & empty}
            names = sorted({'%s.%s' % (body.local_name(l), '.'.join(fs)) for l, fs in empty if not re.match(r'^(_\d+|self)$', body.local_name(l))})
            cx.site('%s: returns Rec::AliasSubstituted at %s; %d consumption points in the function; known empty there: %s'
                    % (body.root, body.loc(s), len(events), names or 'nothing'))
            for start, what, src in events:
                nev += 1
                p = Q.must_pass(body, [start], recorded, {gb})
                if p:
                    cx.violation(body.root, 'alias-substituted-after-consuming:%s' % what, 'the production can return Rec::AliasSubstituted '
                                 'after it has consumed and kept a token (%s): the caller restarts at the replacement text, so what was '
                                 'consumed is silently dropped (`! a` with alias a=true parses as `true`: the negation is lost); after consuming '
                                 'something the production must parse the replacement itself' % what,
                                 loc=body.loc(s), path=Q.render_path(body, p))
    cx.floor(n, 5, 'returns of Rec::AliasSubstituted in productions')
    cx.floor(nev, 10, 'consumption points examined against a return of Rec::AliasSubstituted')


WORDLIKE = {('variant', 'Token'), ('variant', 'IoNumber'), ('variant', 'IoLocation')}


def _token_producers(body, du, local):
    """Follow a Token local back through moves, Rec::Parsed payloads, `?` and `.await` to every call that can have produced it.
    Returns (calls [(block, term)], locals of type Token on the way, from_argument)."""
    calls, toks, from_arg = [], set(), False
    seen = set()
    work = [local]
    while work:
        l = work.pop()
        if l in seen:
            continue
        seen.add(l)
        if body.locals[l].get('ty') == TOKEN:
            toks.add(l)
        defs = du.defs.get(l, [])
        if not defs:
            from_arg = from_arg or (1 <= l <= body.argc)
            continue
        for b, j, node in defs:
            if j == 't':
                if Q.callee_is(node, PLUMBING):
                    q = Q.operand_place(node['a'][0]) if node['a'] else None
                    if q is not None:
                        work.append(q['l'])
                else:
                    calls.append((b, node))
            elif node['k'] == 'assign':
                rv = node['rv']
                if rv['k'] == 'use' and Q.operand_place(rv['o']) is not None:
                    work.append(Q.operand_place(rv['o'])['l'])
                elif rv['k'] == 'ref':
                    work.append(rv['pl']['l'])
    return calls, toks, from_arg


def _id_switches(F, body, du):
    """Every test of a token id: [(block, key of the tested place (local, fields), {target: labels} or None for ==/!=)]."""
    out = []
    for b in sorted(body.live_blocks()):
        if body.term(b)['k'] != 'switch':
            continue
        ec = Q.edge_condition(F, body, du, b)
        if ec is None:
            continue
        org, labels = ec
        if org['k'] == 'discr' and org['ty'].endswith('lex::core::TokenId'):
            out.append((b, _place_keys(du, org['pl']), labels))
        elif org['k'] == 'call' and Q.callee_is(org['t'], [re.compile(r'^<yash_syntax::parser::lex::core::TokenId as core::cmp::PartialEq>::(eq|ne)$')]):
            for a in org['t']['a']:
                o = du.origin(a)
                if o['k'] == 'ref':
                    out.append((b, _place_keys(du, o['pl']), None))
    return out


def _is_id_of(keys, locals_):
    return any(l in locals_ and fs == ('id',) for l, fs in keys)


def _path_with_flags(F, body, du, start, goals, removed=(), removed_edges=()):
    """Body.shortest_path that respects a MATERIALISED verdict: `let ok = match id { Token(None) => true, Token(Some(_)) =>
    !result.is_empty(), _ => false }; if !ok { break }`. Along a path the last whole assignment to a bool local is
    remembered when it is a constant (copies and `!` of a remembered value too; any other assignment, or a call result,
    forgets it), and a switch on a remembered value follows only the edge of that value. Unlike Q.shortest_path_flags the
    local may also have computed definitions: after those both edges stay possible."""
    from collections import deque
    removed, goals, removed_edges = set(removed), set(goals), set(removed_edges)
    borrowed = {st['rv']['pl']['l'] for _, _, st in body.stmts()
                if st['k'] == 'assign' and st['rv']['k'] == 'ref' and st['rv'].get('mut') and not st['rv']['pl'].get('p')}

    def const_bool(o):
        if isinstance(o, dict) and 'c' in o and str(o['c']) in ('true', 'false', 'const true', 'const false'):
            return str(o['c']).endswith('true')
        return None

    def after_block(b, known):
        for st in body.blocks[b]['s']:
            if st['k'] != 'assign':
                continue
            l = st['lhs']['l']
            if st['lhs'].get('p') or l in borrowed or body.locals[l].get('ty') != 'bool':
                known.pop(l, None)
                continue
            rv = st['rv']
            v = None
            if rv['k'] == 'use':
                v = const_bool(rv['o'])
                src = Q.operand_place(rv['o'])
                if v is None and src is not None and not src.get('p'):
                    v = known.get(src['l'])
            elif rv['k'] == 'unop' and rv.get('op') == 'Not':
                src = Q.operand_place(rv['o'])
                v0 = const_bool(rv['o'])
                if v0 is None and src is not None and not src.get('p'):
                    v0 = known.get(src['l'])
                v = None if v0 is None else not v0
            if v is None:
                known.pop(l, None)
            else:
                known[l] = v
        t = body.term(b)
        if t['k'] == 'call' and t.get('dest') is not None:
            known.pop(t['dest']['l'], None)
        return known

    def allowed(b, known):
        t = body.term(b)
        if t['k'] != 'switch' or t.get('dty') != 'bool':
            return None
        pl = Q.operand_place(t['d'])
        if pl is None or pl.get('p') or pl['l'] not in known:
            return None
        v = 1 if known[pl['l']] else 0
        for value, tgt in t['ts']:
            if value == v:
                return {tgt}
        return {t['else']}

    st0 = (start, ())
    prev = {st0: None}
    q = deque([st0])
    while q:
        b, kn = q.popleft()
        if b in goals:
            path, cur = [], (b, kn)
            while cur is not None:
                path.append(cur[0])
                cur = prev[cur]
            return path[::-1]
        known = after_block(b, dict(kn))
        only = allowed(b, known)
        for nx in body.succ(b):
            if nx in removed or (b, nx) in removed_edges:
                continue
            if only is not None and nx not in only:
                continue
            st = (nx, tuple(sorted(known.items())))
            if st in prev:
                continue
            prev[st] = (b, kn)
            q.append(st)
    return None


@RS.rule('C17.R8', 'K-GUARD', 'a token becomes a word of the syntax tree only behind a test of ITS OWN id: the id of the very token taken '
         '(operators, redirections and newlines emerging from an alias replacement are never pushed as words)')
def r8(cx):
    F = cx.F
    n = 0
    peek_validated = 0
    CONSUMERS = [RAW, MANUAL, AUTO, PRODUCTION]
    for b0 in F.bodies_in(['yash_syntax::parser::']):
        uses = []
        for b, j, s in b0.stmts():
            if s['k'] == 'assign':
                for o in Q.rvalue_operands(s['rv']):
                    uses.append((b, s, o))
        for b, t in b0.calls():
            for o in t['a']:
                uses.append((b, t, o))

        def is_word_of_token(o):
            p = Q.operand_place(o)
            if p is None:
                return False
            pr = [e for e in (p.get('p') or []) if isinstance(e, dict) and 'f' in e]
            return bool(pr) and pr[-1]['f'] == 'word' and pr[-1].get('adt') == TOKEN
        if not any(is_word_of_token(o) for b, s, o in uses):
            continue
        body = F.inlined(b0)
        du = Q.DefUse(body)
        cx.fn(body.fn)
        switches = _id_switches(F, body, du)
        peeks = Q.find_calls(body, ["yash_syntax::parser::core::Parser::<'a, 'b>::peek_token"])
        consumers = Q.find_calls(body, CONSUMERS)
        uses = []
        for b, j, s in body.stmts():
            if s['k'] == 'assign':
                uses += [(b, s, o) for o in Q.rvalue_operands(s['rv']) if is_word_of_token(o)]
        for b, t in body.calls():
            uses += [(b, t, o) for o in t['a'] if is_word_of_token(o)]
        for ub, node, o in uses:
            n += 1
            x = Q.operand_place(o)['l']
            calls, toks, from_arg = _token_producers(body, du, x)
            own = [(sb, labels) for sb, pl, labels in switches if _is_id_of(pl, toks)]
            own_edges = {(sb, v) for sb, labels in own for v in body.succ(sb)}
            desc = []
            starts = [(t['to'], pb, t) for pb, t in calls] + ([(0, None, None)] if from_arg or not calls else [])
            for start, pb, t in starts:
                prod = pp.callee(t).split('::')[-1] if t is not None else 'argument'
                p = body.shortest_path(start, {ub}, removed_edges=own_edges)
                how = 'own id tested'
                if p is not None:
                    # accepted alternative: the token was peeked, the PEEKED id was tested to be a word, and the take that follows
                    # returns that very token (take_token_raw / the Parsed edge of take_token_manual; take_token_auto may substitute
                    # and return a later token) with nothing consumed in between
                    ok = False
                    if t is not None and Q.callee_is(t, [RAW, MANUAL]):
                        for kb, kt in peeks:
                            if not body.dominates(kb, pb):
                                continue
                            ksw = [(sb, labels) for sb, keys, labels in switches if labels is not None and
                                   any(fs == ('id',) and Q.value_source(body, du, {'cp': {'l': l}}) is kt for l, fs in keys)]
                            good = {(sb, v) for sb, labels in ksw for v, labs in labels.items() if labs and set(labs) <= WORDLIKE}
                            # every way from the peek to the take goes through a "this is a word" edge of that test - directly, or
                            # through a bool the match materialised (`let ok = match id {..}; if !ok { break }`)
                            if not good or (body.shortest_path(kt['to'], {pb}, removed={kb}, removed_edges=good) is not None and
                                            _path_with_flags(F, body, du, kt['to'], {pb}, removed={kb}, removed_edges=good) is not None):
                                continue
                            between = [cb for cb, ct in consumers if cb not in (pb, kb) and
                                       cb in body.reachable(kt['to'], removed={pb, kb}) and pb in body.reachable(ct['to'], removed={kb})]
                            if not between:
                                ok = True
                                break
                    if ok:
                        how = 'id of the peeked token tested, taken by %s with nothing consumed in between' % prod
                        peek_validated += 1
                    else:
                        how = 'NO TEST of its id'
                        cx.violation(body.root, 'word-without-own-id-test:%s' % prod, 'a token obtained from %s is used as a word although '
                                     'its own id was not looked at (an id tested earlier belongs to a token that alias substitution has since '
                                     'replaced): with `alias e="echo " r=">f"`, `e r a` makes `>` an argument of echo instead of a redirection; '
                                     'a `;` or newline from a replacement is swallowed as an argument' % prod,
                                     loc=body.loc(node), path=Q.render_path(body, p))
                desc.append('%s: %s' % (prod, how))
            # no edge that established "not a word" (operator, end of input) leads to the use without a new token being taken
            for sb, labels in own:
                if labels is None:
                    continue
                for v, labs in labels.items():
                    if not labs or set(labs) <= WORDLIKE:
                        continue
                    p = body.shortest_path(v, {ub}, removed={pb for pb, t in calls}, removed_edges={(sb, w) for w in body.succ(sb) if w != v})
                    if p is not None:
                        cx.violation(body.root, 'non-word-token-as-word', 'a token whose id is %s is used as a word'
                                     % '/'.join(sorted(l[1] for l in labs if len(l) > 1)), loc=body.loc(node), path=Q.render_path(body, [sb] + p))
            cx.site('%s: %s.word used at %s; %s' % (body.root, body.local_name(x) or '_%d' % x, body.loc(node), '; '.join(desc)))
    cx.floor(n, 12, 'uses of Token.word as a word in the parser')
    cx.floor(peek_validated, 1, 'words validated through the peeked token (simple_command)')


# ---------------------------------------------------------------------------------------------------------------------
# look-up side of the alias table (R9): every name the table can hold is looked up
GLOSSARY = 'yash_env::alias::Glossary'
ALIAS_ENTRY = 'yash_env::alias::HashEntry'
TABLE_GET = [re.compile(r'^std::collections::hash::set::HashSet::<T, S(, A)?>::get$')]
INNER_LOOK_UP = [GLOSSARY + '::look_up', re.compile(r' as yash_env::alias::Glossary>::look_up$')]
TABLE_IS_EMPTY = [re.compile(r'^std::collections::hash::set::HashSet::<T, S(, A)?>::is_empty$'), GLOSSARY + '::is_empty',
                  re.compile(r' as yash_env::alias::Glossary>::is_empty$')]
TABLE_WRITE = re.compile(r'^std::collections::hash::set::HashSet::<T, S(, A)?>::(insert|replace|get_or_insert\w*)$')
ENTRY_NEW = ['yash_env::alias::HashEntry::new']


def _comes_from_param(body, du, o, n, depth=12):
    """The operand is parameter n itself, seen through copies, reborrows (`&*name`) and Deref/as_str/as_ref only."""
    p = Q.operand_place(o)
    for _ in range(depth):
        if p is None or any(e != '*' for e in (p.get('p') or [])):
            return False
        l = p['l']
        defs = du.defs.get(l, [])
        if not defs:
            return l == n
        if len(defs) != 1:
            return False
        b, j, node = defs[0]
        if j == 't':
            if not Q.callee_is(node, DEREFS) or not node['a']:
                return False
            p = Q.operand_place(node['a'][0])
        elif node['k'] == 'assign' and node['rv']['k'] == 'use':
            p = Q.operand_place(node['rv']['o'])
        elif node['k'] == 'assign' and node['rv']['k'] == 'ref':
            p = node['rv']['pl']
        else:
            return False
    return False


def _is_table_lookup(t):
    if Q.callee_is(t, INNER_LOOK_UP):
        return True
    return Q.callee_is(t, TABLE_GET) and ALIAS_ENTRY in ((t.get('at') or [''])[0] or '')


def _definition_side_name_tests(cx, F):
    """Tests of the NAME that every insertion into the alias table is behind: {(callee path, bool the callee returned)}.
    A test that is only applied under an option (`portable`) does not dominate the insertion and is therefore not in the set."""
    writers = F.callers_of(lambda names, t: any(TABLE_WRITE.match(n) for n in names) and ALIAS_ENTRY in ((t.get('at') or [''])[0] or ''))
    cx.require(writers, 'no insertion into the alias table (HashSet<HashEntry>::insert/replace) found: the definition side is not where it was')
    common = None
    for b0, blk0, t0 in writers:
        body = F.inlined(b0)
        du = Q.DefUse(body)
        tests = None
        known = False
        for blk, t in body.calls():
            if not (any(TABLE_WRITE.match(n) for n in (t['f'].get('def'), t['f'].get('decl')) if n) and ALIAS_ENTRY in ((t.get('at') or [''])[0] or '')):
                continue
            src = Q.value_source(body, du, t['a'][1]) if len(t['a']) > 1 else None
            if src is None or not Q.callee_is(src, ENTRY_NEW):
                continue
            known = True
            nm = _deep_name(body, du, src['a'][0])
            here = set()
            for org, lab, e in _conds_plus(F, body, du, blk):
                if lab[0] == 'bool' and org['k'] == 'call' and nm and any(_deep_name(body, du, a) == nm for a in org['t']['a']):
                    here.add((org['t']['f'].get('def') or org['t']['f'].get('decl'), lab[1]))
            tests = here if tests is None else tests & here
        tests = tests or set()
        cx.fn(b0.root)
        cx.site('%s inserts into the alias table at %s; tests of the name every insertion is behind: %s'
                % (b0.root, b0.loc(t0), sorted(tests) if known else 'none (the entry is not built by HashEntry::new here)'))
        common = tests if common is None else common & tests
    return common or set(), len(writers)


@RS.rule('C17.R9', 'K-SIBLING', 'every name the alias table can hold is looked up: an implementation of Glossary::look_up consults the table '
         'under the very name it was given, on every path, and applies no test of the name that the insertions are not all behind')
def r9(cx):
    F = cx.F
    impls = [im for im in F.impls if im.get('trait_def') == GLOSSARY]
    cx.require(impls, 'no implementation of yash_env::alias::Glossary')
    defined_behind, nwriters = _definition_side_name_tests(cx, F)
    impl_fns = {it['def'] for im in impls for it in im['items']}
    n = consulted = 0
    for im in impls:
        items = {it['name']: it['def'] for it in im['items']}
        fn = items.get('look_up')
        cx.require(fn is not None and fn in F.bodies, 'impl Glossary for %s has no look_up body' % im['self'])
        b0 = F.body(fn)

        def accept(callee, b0=b0):
            sig = F.fns.get(callee)
            cb = F.bodies.get(callee)
            return sig is not None and sig.get('vis') != 'pub' and cb is not None and cb.file == b0.file and callee not in impl_fns
        body = F.inlined(b0, accept)
        cx.fn(fn)
        cx.require(body.argc == 2, '%s is not look_up(&self, name)' % fn)
        du = Q.DefUse(body)
        n += 1
        lookups = [(b, t) for b, t in body.calls() if _is_table_lookup(t)]
        if not lookups:
            # a glossary without a table: it must say it is empty (Parser::substitute_alias then never asks, R1)
            ie = F.bodies.get(items.get('is_empty') or '')
            rets = [s for _, _, s in ie.stmts() if s['k'] == 'assign' and s['lhs']['l'] == 0 and not s['lhs'].get('p')] if ie is not None else []
            always_empty = bool(rets) and all(s['rv']['k'] == 'use' and str(s['rv']['o'].get('c')) in ('true', 'const true') for s in rets)
            cx.site('%s: no table behind it; is_empty() is constantly true: %s' % (fn, always_empty))
            if not always_empty:
                cx.violation(fn, 'table-not-consulted', 'look_up answers without consulting an alias table although the glossary does not '
                             'declare itself empty: defined aliases are never substituted', loc=body.loc(body.d))
            continue
        consulted += 1
        lblocks = {b for b, _ in lookups}
        # (1) the key is the name itself
        for b, t in lookups:
            same = len(t['a']) == 2 and _comes_from_param(body, du, t['a'][1], 2)
            cx.site('%s: table consulted by %s at %s under the name it was given: %s' % (fn, pp.callee(t).split('::')[-1], body.loc(t), same))
            if not same:
                cx.violation(fn, 'looked-up-under-another-name', 'the table is consulted under something else than the name look_up was given '
                             '(a transformed or different string): an alias is found for a word that does not name it, or not found for '
                             'the word that does', loc=body.loc(t))
        # (2) no test of the name decides whether the table is consulted
        tainted = Q.forward_taint(body, {2}, stop_calls=TABLE_GET + INNER_LOOK_UP)
        refusing = set()
        for u in sorted(body.live_blocks()):
            t = body.term(u)
            if t['k'] != 'switch' or Q.operand_local(t['d']) not in tainted:
                continue
            ec = Q.edge_condition(F, body, du, u)
            org, labels = ec
            what = pp.callee(org['t']) if org['k'] == 'call' else 'a value computed from the name'
            for v, labs in labels.items():
                if lblocks & set(body.reachable(v, removed={u})) or v in lblocks:
                    continue
                refusing.add((u, v))
                ok = org['k'] == 'call' and labs and all(
                    lab[0] == 'bool' and ((org['t']['f'].get('def') or org['t']['f'].get('decl')), not lab[1]) in defined_behind for lab in labs)
                cx.site('%s: refuses without consulting the table when %s is %s; every insertion is behind the same test: %s'
                        % (fn, what, '/'.join(str(l[-1]) for l in labs), ok))
                if not ok:
                    cx.violation(fn, 'name-filter-before-table:%s' % what.split('::')[-1], 'look_up answers "no such alias" from a test of the '
                                 'name itself (%s) without consulting the table, but the alias built-in does not put every definition behind '
                                 'that test (a test it applies only under an option, as `is_portable_alias_name` under `portable`, does not count): an alias such as `..`, '
                                 '`a.b` or `ls+` can be defined and listed but is never substituted, and a blank at the end of its value no '
                                 'longer makes the next word eligible' % what, loc=body.loc(t))
        # (3) no other way round the table (a test that the table is empty is the only reviewed shortcut)
        shortcut = {(u, v) for u, v, lab, org in _switch_edges(F, body, du, lambda org, lab: lab == ('bool', True) and org['k'] == 'call' and
                                                                Q.callee_is(org['t'], TABLE_IS_EMPTY))}
        p = Q.must_pass(body, [0], lblocks, removed_edges=shortcut | refusing)
        if p:
            cx.violation(fn, 'table-bypassed', 'look_up can return without having consulted the alias table (and not because the table is '
                         'empty): defined aliases are not substituted on that path', loc=body.loc(body.term(p[-1])), path=Q.render_path(body, p))
        # (4) what is returned is what the table answered
        answered = Q.forward_taint(body, {t['dest']['l'] for _, t in lookups})
        if 0 not in answered:
            cx.violation(fn, 'answer-not-from-table', 'the value look_up returns does not depend on what the table answered', loc=body.loc(body.d))
    cx.floor(n, 6, 'implementations of Glossary::look_up')
    cx.floor(consulted, 5, 'implementations of Glossary::look_up that consult a table or an inner glossary')
    cx.floor(nwriters, 1, 'insertions into the alias table')



# wave 5 -----------------------------------------------------------------------------------------------------------
# R10: what follows an AliasSubstituted outcome; R11: what the is_command_name flag of take_token_manual is computed from
PEEK = "yash_syntax::parser::core::Parser::<'a, 'b>::peek_token"
WORDS_OWNERS = ('yash_syntax::parser::simple_command::Builder', 'yash_syntax::syntax::SimpleCommand')
SIMPLE_COMMAND = "yash_syntax::parser::simple_command::<impl yash_syntax::parser::core::Parser<'_, '_>>::simple_command"


@RS.rule('C17.R10', 'K-SIBLING', 'restart protocol: after an AliasSubstituted outcome the front token of the stream (first token of the '
         'replacement, itself possibly an alias) is never consumed by take_token_raw before another substitution attempt '
         '(take_token_manual / take_token_auto / a production), a return of Rec::AliasSubstituted, or a test of the re-read token id')
def r10(cx):
    F = cx.F
    n = nmanual = 0
    for b0 in F.bodies_in(['yash_syntax::parser::']):
        if b0.root.startswith('yash_syntax::parser::core::'):
            continue          # take_token_auto is the reviewed loop itself (R2): raw take, then Parser::substitute_alias again
        if not any(b0.term(b)['k'] == 'switch' for b in b0.live_blocks()):
            continue
        du0 = Q.DefUse(b0)
        if not _rec_matches(F, b0, du0):
            continue
        body = F.inlined(b0)
        du = Q.DefUse(body)
        matches = _rec_matches(F, body, du)
        raws = {rb for rb, rt in Q.find_calls(body, [RAW])}
        # another attempt at the front token / giving the decision back / an error / looking at the id of the re-read token
        through = {x for x, pt in Q.find_calls(body, [MANUAL, AUTO, PSUB, PRODUCTION])}
        through |= {x for x, j, s in Q.find_aggregates(body, REC, 'AliasSubstituted')}
        through |= {x for x, pt in Q.find_calls(body, Q.FROM_RESIDUAL)}
        through |= {x for x, j, s in Q.find_aggregates(body, 'core::result::Result', 'Err')}
        peeked_tests = set()
        for sb, keys, labels in _id_switches(F, body, du):
            for l, fs in keys:
                if fs != ('id',):
                    continue
                calls, toks, from_arg = _token_producers(body, du, l)
                if calls and all(Q.callee_is(ct, [PEEK]) for cb, ct in calls):
                    peeked_tests.add(sb)
        for b, src, labels in matches:
            if src is None:
                continue          # reported by R5
            prod = pp.callee(src).split('::')[-1]
            for tgt, labs in labels.items():
                if ('variant', 'AliasSubstituted') not in labs or len(labs) > 1:
                    continue          # an undistinguished edge is R5's violation
                n += 1
                nmanual += 1 if Q.callee_is(src, [MANUAL]) else 0
                cx.fn(body.root)
                p = Q.must_pass(body, [tgt], through | peeked_tests, raws) if raws else None
                cx.site('%s: AliasSubstituted edge of the match on %s at %s; %d raw takes in the function; reaches one without '
                        'another attempt: %s' % (body.root, prod, body.loc(body.term(b)), len(raws), bool(p)))
                if p:
                    cx.violation(body.root, 'raw-take-after-substitution:%s' % prod, 'after %s reported an alias substitution the next token '
                                 '(the first token of the replacement text) can be consumed by take_token_raw without another substitution '
                                 'attempt and without a test of its id: substitution stops after one level, so an alias whose value is another '
                                 'eligible alias name (after a blank-ending alias, or a global alias) is parsed as the intermediate name '
                                 '(r=\'cat < \', g=h, h=file: `r g` reads file `h`); take the token with take_token_auto or retry take_token_manual'
                                 % prod, loc=body.loc(body.term(p[-1])), path=Q.render_path(body, p))
    cx.floor(n, 12, 'AliasSubstituted edges of matches on Rec in the productions')
    cx.floor(nmanual, 5, 'AliasSubstituted edges of matches on the result of take_token_manual')


def _bool_leaves(F, body, du, operand, site_block):
    """Backward slice of a bool operand over data AND control dependence (a local with several definitions also depends on
    the conditions that choose between them: `a && b` is `false` on one edge and `b` on the other).
    Leaves: ('const', text) | ('call', term, block) | ('place', place) | ('arg', local) | ('other', text)."""
    leaves = []
    seen_l, seen_c = set(), set()
    site_conds = {e for org, lab, e in Q.dominating_conditions(F, body, du, site_block)}

    def from_operand(o):
        if 'cp' not in o and 'mv' not in o:
            leaves.append(('const', str(o.get('c'))))
            return
        from_place(Q.operand_place(o))

    def from_origin(org):
        k = org['k']
        if k == 'call':
            from_call(org['t'], org.get('b'))
        elif k == 'const':
            from_operand(org['o'])
        elif k in ('place', 'discr', 'ref'):
            from_place(org['pl'])
        elif k in ('binop', 'unop', 'cast', 'agg'):
            for o in Q.rvalue_operands(org['rv']):
                from_operand(o)
        elif k == 'arg':
            leaves.append(('arg', org['l']))
        else:
            leaves.append(('other', k))

    def from_call(t, b):
        if Q.callee_is(t, PLUMBING) and t['a']:
            from_operand(t['a'][0])
        else:
            leaves.append(('call', t, b))

    def from_place(p):
        if p is None:
            return
        if not Q.is_plain(p):
            leaves.append(('place', p))
            return
        l = p['l']
        if l in seen_l:
            return
        seen_l.add(l)
        defs = du.defs.get(l, [])
        if not defs:
            leaves.append(('arg', l))
            return
        for b, j, node in defs:
            if j == 't':
                from_call(node, b)
            elif node['k'] == 'assign':
                rv = node['rv']
                if rv['k'] in ('ref', 'discr'):
                    from_place(rv['pl']) if Q.is_plain(rv['pl']) else leaves.append(('place', rv['pl']))
                else:
                    for o in Q.rvalue_operands(rv):
                        from_operand(o)
            else:
                leaves.append(('other', node['k']))
            if len(defs) > 1:
                for org, lab, e in Q.dominating_conditions(F, body, du, b):
                    if e in site_conds or e in seen_c:
                        continue
                    seen_c.add(e)
                    from_origin(org)

    from_operand(operand)
    return leaves


def _words_is_empty(body, du, t):
    """Vec::is_empty on the `words` field of the simple-command accumulator."""
    if not Q.callee_is(t, VEC_IS_EMPTY + ['alloc::vec::Vec::<T, A>::len']) or not t['a']:
        return False          # (`words.len() == 0` is the same input; only the straight `is_empty` chain has its polarity checked)
    o = du.origin(t['a'][0])
    if o['k'] != 'ref':
        return False
    fields = [e for e in (o['pl'].get('p') or []) if isinstance(e, dict) and 'f' in e]
    return bool(fields) and fields[-1]['f'] == 'words' and fields[-1].get('adt') in WORDS_OWNERS


@RS.rule('C17.R11', 'K-TAINT', 'command position: the is_command_name flag given to take_token_manual is constant false, or computed from the '
         'emptiness of the WORDS collected so far only (never from assignments or redirections: POSIX 2.3.1, 2.9.1); simple_command passes '
         'that emptiness, not negated')
def r11(cx):
    F = cx.F
    n = nwords = 0
    for b0 in F.bodies_in(['yash_syntax::parser::']):
        if b0.root.startswith('yash_syntax::parser::core::') or not Q.find_calls(b0, [MANUAL]):
            continue
        body = F.inlined(b0)
        du = Q.DefUse(body)
        cx.fn(body.root)
        for b, t in Q.find_calls(body, [MANUAL]):
            n += 1
            cx.require(len(t['a']) == 2, 'take_token_manual(self, is_command_name) no longer has two arguments')
            leaves = _bool_leaves(F, body, du, t['a'][1], b)
            consts = sorted({x[1] for x in leaves if x[0] == 'const'})
            words = [x for x in leaves if x[0] == 'call' and _words_is_empty(body, du, x[1])]
            foreign = []
            for x in leaves:
                if x[0] == 'const' or x in words:
                    continue
                if x[0] == 'call':
                    foreign.append('%s(%s)' % (pp.callee(x[1]).split('::')[-1], ', '.join(str(_deep_name(body, du, a)) for a in x[1]['a'])))
                elif x[0] == 'place':
                    foreign.append(str(_deep_name(body, du, {'cp': x[1]})))
                elif x[0] == 'arg':
                    foreign.append('parameter %s' % body.local_name(x[1]))
                else:
                    foreign.append(x[1])
            foreign = sorted(set(foreign))
            nwords += 1 if words and body.root == SIMPLE_COMMAND else 0
            cx.site('%s: take_token_manual at %s: is_command_name from constants %s, words.is_empty x%d, other inputs %s'
                    % (body.root, body.loc(t), consts, len(words), foreign or 'none'))
            if foreign:
                cx.violation(body.root, 'command-name-flag-depends-on:%s' % ','.join(re.sub(r'^.*\.', '', f.rstrip(')')) if '(' in f else f
                                                                                   for f in foreign)[:120],
                             'the is_command_name flag of take_token_manual depends on %s: whether a word is in command position depends only on '
                             'whether a command WORD has been collected; assignment words and redirections in front of it do not take the '
                             'position (`FOO=1 a x` and `</dev/null a x` must substitute alias a)' % ', '.join(foreign), loc=body.loc(t))
            elif not words and consts != ['false']:
                cx.violation(body.root, 'command-name-flag-constant', 'take_token_manual is told unconditionally that the token is a command '
                             'name: non-global aliases are substituted in argument position', loc=body.loc(t))
            elif words:
                # polarity on a straight chain: is_command_name = words.is_empty(), not its negation
                org, flips = du.origin(t['a'][1]), 0
                for _ in range(4):
                    if org['k'] == 'unop' and org['rv']['op'] == 'Not':
                        org, flips = du.origin(org['rv']['o']), flips + 1
                if org['k'] == 'call' and _words_is_empty(body, du, org['t']) and flips % 2:
                    cx.violation(body.root, 'command-name-flag-negated', 'is_command_name is the negation of words.is_empty(): the command '
                                 'name is not substituted and every argument is', loc=body.loc(t))
    sc = F.main_body(SIMPLE_COMMAND)
    cx.fn(sc.root)
    if not nwords:
        cx.violation(sc.root, 'command-name-never-flagged', 'simple_command no longer tells take_token_manual that the first word is a '
                     'command name (emptiness of the collected words): aliases in command position are not substituted', loc=sc.loc(sc.d))
    cx.floor(n, 5, 'calls of take_token_manual in the productions')


# --- explanation addendum (generated catalogue in DESIGN.md reads RS.explanation)
RS.explanation += ' Added later: substitute_alias refuses a substitution only through the reviewed tests (R1c); alias identity is answered by Source::is_alias_for only (R4b); line breaks are skipped again in every alias-retry loop that skipped them before the first attempt (R5b).'
RS.explanation += ' Wave 3: a production returns Rec::AliasSubstituted only on paths where no token has been consumed and kept, unless an emptiness test of the accumulator that every consumed piece is pushed into dominates the return (R7); every Token.word moved into the syntax tree is behind a switch on the id of that very token, or of the peeked token that take_token_raw / take_token_manual=>Parsed is bound to return, never take_token_auto (R8).'
RS.explanation += ' R8 also accepts the test of the peeked id when its verdict is materialised in a bool (`let ok = match id {..}; if !ok { break }`): paths are followed with the constant last assigned to that bool.'
RS.explanation += ' R9 (sibling of the alias built-in): every implementation of Glossary::look_up consults the table (HashSet::get / inner look_up) under the unmodified name on every path except an is_empty shortcut, returns what the table answered, and refuses on a test of the name only if every insertion into the table (alias built-in define) is dominated by the same test - a test applied only under the portable option does not qualify.'
RS.explanation += ' Wave 5: on no path from an AliasSubstituted edge of a match on Rec is take_token_raw reached before another substitution attempt (take_token_manual / take_token_auto / a production call), a return of Rec::AliasSubstituted, an error, or a test of the id of a token re-read with peek_token (R10: substitution is repeated until no alias applies); the is_command_name argument of every take_token_manual call in the productions is, over data and control dependence, a function of constants and Vec::is_empty of the `words` field of the simple-command accumulator only, simple_command has such a call, and the flag is not its negation (R11).'
