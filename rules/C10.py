"""C10 - the script aborts exactly when errexit or a shell error says so.

Structural clauses decided (DESIGN.md 4/C10): who applies errexit and that its verdict is what
those commands return; where Condition frames come from and what they enclose; the errexit
predicate; the consequence tables of the three error handlers, of a built-in's redirection
error and of built-in errors; the exactly-once EXIT trap of every shell process; the
read-eval loop's abort/recovery table.

The decision tables are extracted with the path-enumerating abstract interpreter `Sym`
defined in rules/C02.py (shared helper, candidate for promotion into ycheck/)."""
import re
from engine import RuleSet
from facts import AnchorMissing
import mirq as Q
import hirq as H
import pp
from rules.C02 import (Sym, sym_paths, mk_enum, is_enum, enum_field, vfmt, ev_calls, ev_writes, UNIT, EXECUTE,
                       exec_fn, impl_fn, pp_rel, upvar_init, andor_traces, trace_of, PUSH_FRAME, ECP, CMD_TRAIT,
                       is_drop_of_guard, EQ, DIVERT_ORDER, hloc, check_if_table, check_iterate_table)

RS = RuleSet(
    'C10',
    explanation=(
        'Caller sets, frame scopes and decision tables extracted from the MIR of the executor: Env::apply_errexit is '
        'called by exactly the simple command, the multi-command pipeline, the subshell, the redirection-error arm '
        'of a compound command and the function definition, and every path of those that does not already carry a '
        'Divert returns the verdict of that call (if/loops/case/groups/and-or/single-command pipelines never apply '
        'it themselves); Frame::Condition is pushed by exactly evaluate_condition, the and-or list (around every '
        'pipeline but the last, and not at all for a single pipeline) and the negated pipeline, and if/while/until '
        'evaluate conditions only through evaluate_condition; errexit is applicable iff the option is on and no '
        'Condition frame is on the stack, and apply_errexit yields Exit(None) iff the status is non-zero and errexit '
        'is applicable; the handlers map syntax errors to Interrupt(ERROR) (READ_ERROR for input errors outside dot '
        'scripts), expansion/assignment errors to Exit(ERROR) under applicable errexit and Interrupt(ERROR) '
        'otherwise (an interrupted expansion keeps its status), redirection errors to $?=ERROR and continuation; a '
        "built-in's redirection error interrupts the shell iff the built-in is special, special built-ins assign "
        'without export in the current context and the others in a volatile context with export; a built-in error '
        'interrupts iff the innermost Builtin frame is special, which is `type == Special` for a directly executed '
        'built-in and constant false under `command`; run_exit_trap is called by exactly the shell process and the '
        'five subshell bodies, exactly once on every path and after the commands, for every way the read-eval loop can '
        'end (the Abort case, where the shell process and the subshell bodies disagree, is rule C10.R6b); in the '
        'read-eval loop a Divert ends the loop before the next command is read, and an Interrupt '
        'is absorbed only when the loop is interactive and the error recoverable.'),
    not_decided='the dynamic chain of enclosing contexts for arbitrary programs (which frames are on the stack when a '
                'given command runs), the numeric exit statuses of individual utilities, that the parser reports '
                'every syntax error; signal-triggered termination',
    trusted=['docs/src/termination.md "Shell errors" table transcribed in rules/C10.py',
             'rules/C02.py abstract interpreter (awaited futures complete; unwind edges dropped)'],
    assumptions=['calls without a model return an unconstrained value and every switch on it is explored on all edges; '
                 'effects of unmodelled callees on memory are not tracked; loops are unrolled a bounded number of times',
                 'a function reachable only through a function pointer stored in Env::any (RunFunction, '
                 'RunReadEvalLoop) is analysed at its definition, not at the indirect call'],
)

ENV = 'yash_env::Env::<S>::'
APPLY_ERREXIT = [ENV + 'apply_errexit']
APPLICABLE = [ENV + 'errexit_is_applicable']
IS_SUCCESSFUL = ['yash_env::semantics::ExitStatus::is_successful']
HANDLE = [re.compile(r'yash_semantics::handle::Handle<S>>::handle$'), 'yash_semantics::handle::Handle::handle']
STATUS = 'const yash_env::semantics::ExitStatus::'
SC = 'yash_semantics::command::'
ERREXIT = ('u', 'ERREXIT_VERDICT')


def bloc(b):
    return '%s:%d' % (pp_rel(b.file), b.line)


def is_break(v):
    return is_enum(v, 'Break')


# ====================================================================== C10.R1
def _errexit_oracle(extra=None):
    def oracle(sym, st, t, args):
        if Q.callee_is(t, APPLY_ERREXIT):
            return ERREXIT
        if extra is not None:
            return extra(sym, st, t, args)
        return None
    return oracle


def _check_returns_verdict(cx, F, body, label, extra=None, allow=None, init=None, max_visits=2):
    """Every returning path of `body` returns the verdict of apply_errexit, or a Break, or a value
    accepted by allow(outcome)."""
    outs = sym_paths(cx, F, body, _errexit_oracle(extra), init, max_visits=max_visits)
    rets = [o for o in outs if o['end'] == 'return']
    cx.require(rets, '%s: no returning path' % label)
    n_verdict = 0
    for o in rets:
        r = o['ret']
        calls = ev_calls(o, APPLY_ERREXIT)
        if r == ERREXIT and len(calls) == 1:
            n_verdict += 1
            # nothing that can change $? or run commands happens between the verdict and the return
            idx = o['events'].index(calls[0])
            after = [e for e in o['events'][idx + 1:] if e[0] == 'write' and e[1].endswith('.exit_status')]
            if after:
                cx.violation(body.root, 'status-after-verdict', '$? is changed after errexit was applied', loc=bloc(body))
            continue
        if is_break(r):
            continue
        if allow is not None and allow(o):
            continue
        cx.violation(body.root, 'returns-without-errexit',
                     '%s can complete with %s without returning the verdict of apply_errexit (%d errexit calls on that '
                     'path): a failing command here would not stop a shell running under `set -e`'
                     % (label, vfmt(r), len(calls)), loc=bloc(body))
        return 0
    cx.site('%s: %d returning paths, %d return the errexit verdict, the others a Divert' % (label, len(rets), n_verdict))
    if n_verdict == 0:
        cx.violation(body.root, 'never-applies-errexit', '%s never returns the verdict of apply_errexit' % label,
                     loc=bloc(body))
    return n_verdict


@RS.rule('C10.R1', 'K-CALLERS+K-PASS', 'apply_errexit is called by exactly the five POSIX-subject commands, and their '
                                       'non-divert paths return its verdict')
def r1(cx):
    F = cx.F
    simple = exec_fn(F, 'SimpleCommand')
    full = exec_fn(F, 'FullCompoundCommand')
    fdef = exec_fn(F, 'FunctionDefinition')
    want = {
        simple: 'simple command',
        SC + 'pipeline::execute_commands_in_pipeline': 'multi-command pipeline',
        SC + 'compound_command::subshell::execute': 'subshell',
        full: 'compound command with a failed redirection',
        fdef: 'function definition',
    }
    callers = F.callers_of(lambda names, t: APPLY_ERREXIT[0] in names)
    got = {}
    for b, i, t in callers:
        got.setdefault(b.root, []).append((b, t))
        cx.site('%s calls apply_errexit at %s' % (b.root, b.loc(t)))
    for root, lst in got.items():
        if root not in want:
            cx.violation(root, 'caller:apply_errexit', 'apply_errexit is applied here, but POSIX subjects only simple '
                         'commands, multi-command pipelines and subshells (plus the documented compound-redirection '
                         'and function-definition cases) to errexit', loc=lst[0][0].loc(lst[0][1]))
    for root, what in want.items():
        if root not in got:
            b = F.body(root)
            cx.violation(root, 'missing:apply_errexit', 'the %s does not apply errexit' % what, loc=bloc(b))
    # simple command
    sb = F.main_body(simple)
    cx.fn(sb.fn)

    def simple_extra(sym, st, t, args):
        if Q.callee_is(t, ['*::simple_command::expand_words']):
            return ('fork', [(('expand', 'Ok'), mk_enum('Ok', ('agg', {'0': ('u', 'fields'), '1': ('u', 'st')}, 'pair'))),
                             (('expand', 'Err'), mk_enum('Err', ('u', 'expansion_error')))])
        if Q.callee_is(t, HANDLE):
            return mk_enum('Break', ('u', 'expansion_error_divert'))
        return None
    if simple in got:
        _check_returns_verdict(cx, F, sb, 'the simple command', simple_extra)
    # pipeline
    pb = F.main_body(SC + 'pipeline::execute_commands_in_pipeline')
    cx.fn(pb.fn)
    for n in (0, 1, 2, 5):
        def extra(sym, st, t, args, n=n):
            if Q.callee_is(t, ['core::slice::<impl [T]>::len']):
                return ('c', n)
            if Q.callee_is(t, EXECUTE):
                return ('u', 'single_command_result')
            if Q.callee_is(t, [re.compile(r'ops::index::Index<.*>>::index$'), '*::Index::index']):
                return ('ref', ('M', 'cmd'), ())
            return None
        outs = [o for o in sym_paths(cx, F, pb, _errexit_oracle(extra)) if o['end'] == 'return']
        cx.cellcount(1)
        rets = sorted({vfmt(o['ret']) for o in outs})
        multi = ev_calls(outs[0], ['*::execute_multi_command_pipeline', '*::execute_job_controlled_pipeline']) if outs else []
        if n == 0:
            ok = rets == ['Continue(())'] and all([vfmt(e[2]) for e in ev_writes(o, '.exit_status')] == [STATUS + 'SUCCESS']
                                                  for o in outs)
            exp = 'Continue(()) with $? = 0'
        elif n == 1:
            ok = rets == ['<single_command_result>'] and not any(ev_calls(o, APPLY_ERREXIT) for o in outs)
            exp = "the single command's own result (it applies errexit itself)"
        else:
            ok = all(o['ret'] == ERREXIT or is_break(o['ret']) for o in outs) and any(o['ret'] == ERREXIT for o in outs) \
                and all(len(ev_calls(o, ['*::execute_multi_command_pipeline', '*::execute_job_controlled_pipeline'])) == 1
                        for o in outs)
            exp = 'the errexit verdict (or a Divert) after running the pipeline once'
        if not ok:
            cx.violation(pb.root, 'pipeline:%d' % n, 'a pipeline of %d command(s) completes with %s; expected %s'
                         % (n, rets, exp), loc=bloc(pb))
    # subshell
    ssb = F.main_body(SC + 'compound_command::subshell::execute')
    cx.fn(ssb.fn)
    if ssb.root in got:
        _check_returns_verdict(cx, F, ssb, 'the subshell command')
    # function definition
    fb = F.main_body(fdef)
    cx.fn(fb.fn)
    if fdef in got:
        _check_returns_verdict(cx, F, fb, 'the function definition command')
    # compound command: redirection error arm applies errexit, success arm returns the command's own result
    cb = F.main_body(full)
    cx.fn(cb.fn)
    for redir_ok in (True, False):
        def extra(sym, st, t, args, redir_ok=redir_ok):
            if Q.callee_is(t, ['*::compound_command::perform_redirs']):
                return mk_enum('Ok', ('u', 'st')) if redir_ok else mk_enum('Err', ('u', 'redir_error'))
            if Q.callee_is(t, HANDLE):
                return mk_enum('Continue', UNIT)
            if Q.callee_is(t, EXECUTE):
                return ('u', 'inner_result')
            return None
        outs = [o for o in sym_paths(cx, F, cb, _errexit_oracle(extra)) if o['end'] == 'return']
        cx.cellcount(1)
        rets = sorted({vfmt(o['ret']) for o in outs})
        if redir_ok:
            ok = rets == ['<inner_result>'] and not any(ev_calls(o, APPLY_ERREXIT) for o in outs)
        else:
            ok = rets == [vfmt(ERREXIT)] and not any(ev_calls(o, EXECUTE) for o in outs) and \
                all(len(ev_calls(o, HANDLE)) == 1 for o in outs)
        if not ok:
            cx.violation(cb.root, 'compound:%s' % ('redir-ok' if redir_ok else 'redir-error'),
                         'a compound command whose redirections %s completes with %s; expected %s'
                         % ('succeed' if redir_ok else 'fail', rets,
                            "the inner command's result" if redir_ok else 'the error to be handled once and the errexit verdict, '
                            'without running the command'), loc=bloc(cb))


# ====================================================================== C10.R2 Condition frames
FRAME = 'yash_env::stack::Frame'
EVAL_COND = SC + 'compound_command::evaluate_condition'


@RS.rule('C10.R2', 'K-CALLERS+K-ORDER', 'Frame::Condition comes from evaluate_condition, the and-or list (all but the last '
                                        'pipeline) and the negated pipeline only; if/while/until use evaluate_condition')
def r2(cx):
    F = cx.F
    andor = exec_fn(F, 'AndOrList')
    pipe = exec_fn(F, 'Pipeline')
    allowed = {EVAL_COND: 'push', andor: 'push', pipe: 'push', ENV + 'errexit_is_applicable': 'test'}
    n = 0
    for fn, b in F.bodies.items():
        if fn.startswith('<%s as ' % FRAME):
            continue   # derived Clone/PartialEq/Debug of Frame
        for blk, j, s in Q.find_aggregates(b, FRAME, 'Condition'):
            n += 1
            cx.site('%s constructs Frame::Condition at %s' % (b.root, b.loc(s)))
            if b.root not in allowed:
                cx.violation(b.root, 'constructs:Condition', 'a Condition frame is created here: everything executed under '
                             'it is exempt from errexit, which POSIX grants only to if/while/until conditions, non-final '
                             'and-or pipelines and negated pipelines', loc=b.loc(s))
    cx.floor(n, 4, 'Frame::Condition constructions')
    # evaluate_condition: pushes, runs the list, answers is_successful
    eb = F.main_body(EVAL_COND)
    cx.fn(eb.fn)
    for res in ('normal', 'divert'):
        for success in (True, False):
            def oracle(sym, st, t, args, res=res, success=success):
                if Q.callee_is(t, EXECUTE):
                    return mk_enum('Continue', UNIT) if res == 'normal' else mk_enum('Break', ('u', 'd'))
                if Q.callee_is(t, IS_SUCCESSFUL):
                    return ('c', success)
                return None
            outs = [o for o in sym_paths(cx, F, eb, oracle) if o['end'] == 'return']
            cx.cellcount(1)
            for o in outs:
                tr = [(nm, e) for nm, i, e in trace_of(o, [('run', EXECUTE), ('push', PUSH_FRAME)])]
                names = [nm for nm, e in tr]
                push_ok = names[:2] == ['push', 'run'] and any(is_enum(a, 'Condition') for a in tr[0][1][2]) and \
                    'pop' not in names[:names.index('run')]
                want = 'Break(<d>)' if res == 'divert' else 'Continue(%s)' % success
                if not push_ok or vfmt(o['ret']) != want or names.count('run') != 1:
                    cx.violation(eb.root, 'evaluate_condition:%s,%s' % (res, success),
                                 'evaluate_condition trace %s returns %s; expected push(Condition), one execution of the '
                                 'condition list under it, and %s' % (names, vfmt(o['ret']), want), loc=bloc(eb))
                    break
    # its callers: `if` and the while/until loop, on their condition lists
    users = F.callers_of(lambda names, t: EVAL_COND in names)
    ok_users = {SC + 'compound_command::r#if::execute', SC + "compound_command::while_loop::Loop::<'_, S>::iterate"}
    for b, i, t in users:
        cx.site('%s: evaluate_condition at %s' % (b.root, b.loc(t)))
        if b.root not in ok_users:
            cx.violation(b.root, 'caller:evaluate_condition', 'evaluate_condition (errexit-exempt execution) is used '
                         'outside if/while/until', loc=b.loc(t))
    # ... and exactly their condition lists go through it, their bodies never (decision tables shared with C02)
    check_if_table(cx)
    check_iterate_table(cx)
    for root in ok_users:
        if not any(b.root == root for b, i, t in users):
            cx.violation(root, 'no-evaluate_condition', 'this construct no longer evaluates its condition through '
                         'evaluate_condition (its condition would be subject to errexit)', loc=bloc(F.body(root)))
    # bodies of if / loops are executed directly (never under a Condition pushed by the construct itself)
    for root in ok_users:
        for b in F.logical(root):
            if Q.find_calls(b, PUSH_FRAME):
                cx.violation(root, 'pushes-frame', 'if/while push a frame themselves', loc=bloc(b))
    # and-or list
    named = [('first', EXECUTE), ('rest', ECP), ('push', PUSH_FRAME)]
    for n_rest in (0, 1, 2, 4):
        body, outs = andor_traces(cx, F, n_rest)
        cx.fn(body.fn)
        cx.cellcount(1)
        cx.require(outs, 'AndOrList::execute: no path for %d operators' % n_rest)
        for o in outs:
            tr = trace_of(o, named)
            names = [nm for nm, i, e in tr]
            if n_rest == 0:
                want = ['first']
            else:
                want = ['push', 'first'] + ['rest'] * (n_rest - 1) + ['pop', 'rest']
            ok = names == want
            if ok and n_rest:
                ok = any(is_enum(a, 'Condition') for a in tr[0][2][2])
                # the exempt pipelines run on the guarded environment, the last one on the plain one
                envs = [vfmt(e[2][1] if nm == 'first' else e[2][0]) for nm, i, e in tr if nm in ('first', 'rest')]
                ok = ok and len(set(envs[:-1])) == 1 and envs[-1] != envs[0]
            if not ok:
                cx.violation(body.root, 'andor-scope:%d' % n_rest,
                             'and-or list with %d operator(s): frame/pipeline trace %s, expected %s (only the last '
                             'pipeline is subject to errexit; a single pipeline always is)' % (n_rest, names, want),
                             loc=bloc(body))
                break
    # negated pipeline
    pb = F.main_body(pipe)
    cx.fn(pb.fn)
    ECIP = [SC + 'pipeline::execute_commands_in_pipeline']

    def oracle(sym, st, t, args):
        if Q.callee_is(t, ['yash_env::option::OptionSet::get']):
            return ('enum', 'On', {}, 'State')
        if Q.callee_is(t, ECIP):
            return mk_enum('Continue', UNIT)
        return None
    outs = [o for o in sym_paths(cx, F, pb, oracle) if o['end'] == 'return']
    seen = set()
    for o in outs:
        neg = [a for a in o['assume'] if str(a[0]).endswith('.negation')]
        cx.require(len(neg) == 1, 'Pipeline::execute: negation flag not tested exactly once')
        negated = neg[0][1]
        seen.add(negated)
        cx.cellcount(1)
        tr = trace_of(o, [('run', ECIP), ('push', PUSH_FRAME)])
        names = [nm for nm, i, e in tr]
        want = ['push', 'run'] if negated else ['run']
        ok = names[:len(want)] == want and names.count('run') == 1 and names.count('push') == (1 if negated else 0)
        if ok and negated:
            ok = any(is_enum(a, 'Condition') for a in tr[0][2][2])
        if not ok:
            cx.violation(pb.root, 'negation-scope:%s' % negated, '%s pipeline: frame/command trace %s, expected %s'
                         % ('negated' if negated else 'plain', names, want), loc=bloc(pb))
    cx.require(seen == {True, False}, 'Pipeline::execute: both negation cases expected')


# ====================================================================== C10.R3 the errexit predicate
@RS.rule('C10.R3', 'K-TABLE', 'errexit applies iff the option is on and no Condition frame is on the stack; apply_errexit '
                              'exits iff the status is non-zero and errexit applies')
def r3(cx):
    F = cx.F
    ab = F.body(APPLICABLE[0])
    cx.fn(ab.fn)
    for opt in ('On', 'Off'):
        for in_cond in (True, False):
            seen = {}

            def oracle(sym, st, t, args, opt=opt, in_cond=in_cond):
                if Q.callee_is(t, ['yash_env::option::OptionSet::get']):
                    seen['opt'] = vfmt(args[1])
                    return ('enum', opt, {}, 'State')
                if Q.callee_is(t, [re.compile(r'::contains$')]):
                    seen['frame'] = vfmt(sym.deref(st, args[1]))
                    return ('c', in_cond)
                return None
            outs = [o for o in sym_paths(cx, F, ab, oracle) if o['end'] == 'return']
            cx.cellcount(1)
            got = sorted({vfmt(o['ret']) for o in outs})
            want = [str(opt == 'On' and not in_cond)]
            if got != want:
                cx.violation(ab.fn, 'applicable:%s,%s' % (opt, 'condition' if in_cond else 'plain'),
                             'errexit %s, %s a Condition frame: errexit_is_applicable = %s, expected %s'
                             % (opt, 'inside' if in_cond else 'outside', got, want), loc=bloc(ab))
            if seen.get('opt') not in (None, 'ErrExit') or seen.get('frame') not in (None, 'Condition'):
                cx.violation(ab.fn, 'applicable-inputs', 'errexit_is_applicable consults option %s and frame %s instead of '
                             'ErrExit / Condition' % (seen.get('opt'), seen.get('frame')), loc=bloc(ab))
    # the option actually tested is ErrExit (when it is tested at all on some path) - checked statically too
    du = Q.DefUse(ab)
    gets = Q.find_calls(ab, ['yash_env::option::OptionSet::get'])
    conts = Q.find_calls(ab, [re.compile(r'::contains$')])
    cx.site('%s: %d option lookups, %d stack searches' % (ab.fn, len(gets), len(conts)))
    if len(gets) != 1 or len(conts) != 1:
        cx.violation(ab.fn, 'applicable-shape', 'errexit_is_applicable must look at exactly the ErrExit option and the '
                     'stack', loc=bloc(ab))
    else:
        o = du.origin(gets[0][1]['a'][1])
        if not (o['k'] == 'agg' and o['rv'].get('variant') == 'ErrExit'):
            cx.violation(ab.fn, 'applicable-option', 'the option consulted is not ErrExit', loc=bloc(ab))
        recv = Q.arg_names(ab, du, conts[0][1])
        if not any(n and n.endswith('stack') for n in recv) and not Q.find_calls(ab, ['*::Deref::deref']):
            cx.violation(ab.fn, 'applicable-stack', 'the frame search is not on self.stack', loc=bloc(ab))
    eb = F.body(APPLY_ERREXIT[0])
    cx.fn(eb.fn)
    for success in (True, False):
        for appl in (True, False):
            def oracle(sym, st, t, args, success=success, appl=appl):
                if Q.callee_is(t, IS_SUCCESSFUL):
                    return ('c', success) if vfmt(args[0]).endswith('.exit_status') else None
                if Q.callee_is(t, APPLICABLE):
                    return ('c', appl)
                return None
            outs = [o for o in sym_paths(cx, F, eb, oracle) if o['end'] == 'return']
            cx.cellcount(1)
            got = sorted({vfmt(o['ret']) for o in outs})
            cx.sample({'apply_errexit': {'status_zero': success, 'errexit_applicable': appl, 'result': got}})
            want = ['Break(Exit(None))'] if (not success and appl) else ['Continue(())']
            if not success and appl and got and all(re.match(r'^Break\(Exit\((None|Some\(<[^()]*exit_status>\)|<call:then_some#\d+>)\)\)$', g) for g in got):
                got = want          # inside a trap action the failing status is carried explicitly: Exit(in_trap.then_some($?)) (C10.R10b)
            if got != want:
                cx.violation(eb.fn, 'apply:%s,%s' % ('zero' if success else 'nonzero', 'applicable' if appl else 'exempt'),
                             '$? %s, errexit %s: apply_errexit = %s, expected %s'
                             % ('zero' if success else 'non-zero', 'applicable' if appl else 'not applicable', got, want),
                             loc=bloc(eb))


# ====================================================================== C10.R4 error families
PRINT = ['yash_env::io::print_report', '*::print_report']


def _handle_body(F, self_adt):
    fn = impl_fn(F, 'yash_semantics::handle::Handle', self_adt, 'handle')
    return F.main_body(fn)


@RS.rule('C10.R4', 'K-TABLE', 'consequences of shell errors: syntax -> Interrupt(ERROR|READ_ERROR), expansion -> Exit/'
                              'Interrupt(ERROR) by errexit, redirection -> $?=ERROR and continue')
def r4(cx):
    F = cx.F
    impls = sorted(i['self_adt'] for i in F.impls if i.get('trait_def') == 'yash_semantics::handle::Handle')
    cx.site('Handle impls: %s' % impls)
    known = {'yash_syntax::parser::error::Error', 'yash_semantics::expansion::Error', 'yash_semantics::redir::Error',
             'yash_cli::startup::init_file::DefaultFilePathError'}
    for adt in impls:
        if adt not in known:
            cx.violation(adt, 'new-error-family', 'a new error type implements Handle: its consequence (abort / continue) '
                         'is not in the documented table', loc='?')
    # the assignment error IS the expansion error (documented: "follows expansion")
    asg = [k for k in F.adts if k.startswith('yash_semantics::assign::') and k.endswith('Error')]
    cx.site('assign error types: %s' % (asg or 're-export of expansion::Error'))
    for k in asg:
        cx.violation(k, 'assign-error-family', 'assignment errors have their own type: they must be handled like '
                     'expansion errors', loc='%s:%s' % (F.adts[k]['file'], F.adts[k]['line']))
    # ---- parser error
    pb = _handle_body(F, 'yash_syntax::parser::error::Error')
    cx.fn(pb.fn)
    outs = [o for o in sym_paths(cx, F, pb, None) if o['end'] == 'return']
    cx.require(len(outs) >= 3, 'parser error handler: expected >= 3 decision paths, found %d' % len(outs))
    src_variants = [v['name'] for v in F.adt('yash_env::source::Source')['variants']]
    seen = set()
    for o in outs:
        cause = [a[1] for a in o['assume'] if a[1] in ('Syntax', 'Io')]
        src = [a[1] for a in o['assume'] if a[1] in src_variants]
        cx.require(len(cause) == 1, 'parser error handler: cause not decided on a path (%s)' % o['assume'])
        cx.cellcount(1)
        if cause[0] == 'Syntax':
            want = 'ERROR'
        else:
            cx.require(len(src) == 1, 'parser error handler: source not decided for an Io error (%s)' % o['assume'])
            want = 'ERROR' if src[0] == 'DotScript' else 'READ_ERROR'
        seen.add((cause[0], src[0] if src else '*'))
        got = vfmt(o['ret'], 5)
        cx.sample({'parser error': cause[0], 'source': src[0] if src else 'any', 'result': got})
        if got != 'Break(Interrupt(Some(%s%s)))' % (STATUS, want) or len(ev_calls(o, PRINT)) != 1:
            cx.violation(pb.root, 'parser-error:%s,%s' % (cause[0], src[0] if src else 'any'),
                         'a %s error in %s source yields %s after %d message(s); documented: message once, '
                         'Interrupt with status %s' % (cause[0], src[0] if src else 'any', got, len(ev_calls(o, PRINT)), want),
                         loc=bloc(pb))
    if not {c for c, s in seen} >= {'Syntax', 'Io'} or ('Io', 'DotScript') not in seen:
        cx.violation(pb.root, 'parser-error:coverage', 'the handler no longer distinguishes syntax errors, input errors '
                     'and input errors in dot scripts (%s)' % sorted(seen), loc=bloc(pb))
    # ---- expansion error
    eb = _handle_body(F, 'yash_semantics::expansion::Error')
    cx.fn(eb.fn)
    causes = [v['name'] for v in F.adt('yash_semantics::expansion::ErrorCause')['variants']]
    for appl in (True, False):
        def oracle(sym, st, t, args, appl=appl):
            if Q.callee_is(t, APPLICABLE):
                return ('c', appl)
            return None
        outs = [o for o in sym_paths(cx, F, eb, oracle) if o['end'] == 'return']
        seen = set()
        for o in outs:
            cause = [a[1] for a in o['assume'] if a[1] in causes]
            cx.cellcount(1)
            got = vfmt(o['ret'], 5)
            interrupted = cause == ['Interrupted']
            seen.add(interrupted)
            if interrupted:
                want = re.compile(r'^Break\(Interrupt\(Some\(<[^()]*cause\.0>\)\)\)$')
                ok = bool(want.match(got)) and not ev_calls(o, PRINT)
                exp = 'Interrupt carrying the status of the interruption, silently'
            else:
                exp = 'Break(%s(Some(%sERROR)))' % ('Exit' if appl else 'Interrupt', STATUS)
                ok = got == exp and len(ev_calls(o, PRINT)) == 1
            if not ok:
                cx.violation(eb.root, 'expansion-error:%s,%s' % ('interrupted' if interrupted else 'error',
                                                                  'errexit' if appl else 'plain'),
                             'an expansion/assignment error (%s) with errexit %s yields %s after %d message(s); '
                             'documented: %s' % (cause or 'any other cause', 'applicable' if appl else 'not applicable',
                                                 got, len(ev_calls(o, PRINT)), exp), loc=bloc(eb))
        if seen != {True, False}:
            cx.violation(eb.root, 'expansion-error:coverage', 'the handler does not distinguish an interrupted expansion '
                         'from an erroneous one', loc=bloc(eb))
    # ---- redirection error
    rb = _handle_body(F, 'yash_semantics::redir::Error')
    cx.fn(rb.fn)
    outs = [o for o in sym_paths(cx, F, rb, None) if o['end'] == 'return']
    cx.cellcount(1)
    EXPH = [re.compile(r'expansion::Error as yash_semantics::handle::Handle<S>>::handle$')]
    for o in outs:
        writes = [vfmt(e[2]) for e in ev_writes(o, '.exit_status')]
        if ev_calls(o, EXPH):
            # the operand could not be expanded: the consequence is that of the expansion error (cell decided above, and C10.R4b)
            if not vfmt(o['ret']).startswith('<call:handle') or writes or ev_calls(o, PRINT):
                cx.violation(rb.root, 'redir-error:expansion', 'an expansion error in a redirection operand is handed to the expansion-error '
                             'handler but its verdict is not returned unchanged (%s, $? writes %s)' % (vfmt(o['ret']), writes), loc=bloc(rb))
            continue
        if vfmt(o['ret']) != 'Continue(())' or writes != [STATUS + 'ERROR'] or len(ev_calls(o, PRINT)) != 1:
            cx.violation(rb.root, 'redir-error', 'a redirection error yields %s with $? writes %s after %d message(s); '
                         'documented: message once, $? = 2, execution continues (the caller decides)'
                         % (vfmt(o['ret']), writes, len(ev_calls(o, PRINT))), loc=bloc(rb))
    # statuses are the documented numbers
    for name, val in (('ERROR', 2), ('READ_ERROR', 128), ('NOEXEC', 126), ('NOT_FOUND', 127), ('SUCCESS', 0), ('FAILURE', 1)):
        h = F.hir_of('yash_env::semantics::ExitStatus::' + name)
        v = H.const_eval(h['body'])
        cx.cellcount(1)
        if not (isinstance(v, tuple) and v[0] == 'ctor' and v[2] == [val]):
            cx.violation('yash_env::semantics::ExitStatus::' + name, 'status-value', 'ExitStatus::%s is %s, documented %d'
                         % (name, v, val), loc=hloc(h))


# ====================================================================== C10.R5 execute_builtin
TYPES = ['Special', 'Mandatory', 'Elective', 'Extension', 'Substitutive']
XB = SC + 'simple_command::builtin::execute_builtin'


def _builtin_oracle(redir_ok, extra=None):
    def oracle(sym, st, t, args):
        if Q.callee_is(t, ["yash_semantics::redir::RedirGuard::<'e, S>::perform_redirs", '*::perform_redirs']):
            return mk_enum('Ok', ('u', 'st')) if redir_ok else mk_enum('Err', ('u', 'redir_error'))
        if Q.callee_is(t, HANDLE):
            return mk_enum('Continue', UNIT)
        if Q.callee_is(t, ['*::simple_command::perform_assignments']):
            return mk_enum('Continue', ('u', 'assign_status'))
        if Q.callee_is(t, ['*::search::resolve_builtin']):
            return mk_enum('Ok', ('u', 'path'))
        if Q.callee_is(t, ['<T as core::convert::Into<U>>::into']) and 'stack::Frame' in (t.get('dty') or ''):
            return mk_enum('Builtin', args[0])
        if Q.callee_is(t, [ENV + 'is_interactive']):
            return ('c', False)
        if Q.callee_is(t, ['alloc::vec::Vec::<T, A>::remove']):
            return ('u', 'the_name')
        if extra:
            return extra(sym, st, t, args)
        return None
    return oracle


@RS.rule('C10.R5', 'K-TABLE', "a built-in's redirection error interrupts iff the built-in is special; special built-ins "
                              'assign in the current context without export, others in a volatile context with export')
def r5(cx):
    F = cx.F
    b = F.main_body(XB)
    cx.fn(b.fn)
    for ty in TYPES:
        init = upvar_init(b, {('ty', 'yash_env::builtin::Builtin<'): ('agg', {'type': ('enum', ty, {}, 'Type'),
                                                  'handles_signals_internally': ('c', True)}, 'the_builtin')})
        # redirection error
        outs = [o for o in sym_paths(cx, F, b, _builtin_oracle(False), init) if o['end'] == 'return']
        cx.cellcount(1)
        cx.require(outs, 'execute_builtin: no returning path on a redirection error')
        got = sorted({vfmt(o['ret']) for o in outs})
        want = ['Break(Interrupt(None))'] if ty == 'Special' else ['Continue(())']
        bad = [o for o in outs if len(ev_calls(o, HANDLE)) != 1 or ev_calls(o, ['*::perform_assignments'])]
        if got != want or bad:
            cx.violation(b.root, 'redir-error:%s' % ty, 'a redirection error of a %s built-in yields %s%s; documented: %s '
                         '(the error is reported once and the built-in is not run)'
                         % (ty, got, ' (handler calls or assignments out of order)' if bad else '', want[0]), loc=bloc(b))
        # normal path: assignment context and frame
        outs = [o for o in sym_paths(cx, F, b, _builtin_oracle(True), init) if o['end'] == 'return']
        cx.cellcount(1)
        cx.require(outs, 'execute_builtin: no returning path on the normal path')
        for o in outs:
            pa = ev_calls(o, ['*::simple_command::perform_assignments'])
            pc = ev_calls(o, ['*::push_context'])
            pf = [e for e in ev_calls(o, PUSH_FRAME)]
            special = ty == 'Special'
            ok = len(pa) == 1 and pa[0][2][2] == ('c', not special)
            ok = ok and (len(pc) == (0 if special else 1)) and all(is_enum(e[2][1], 'Volatile') for e in pc)
            if ok and pc:
                ok = o['events'].index(pc[0]) < o['events'].index(pa[0])
            if not ok:
                cx.violation(b.root, 'assign-context:%s' % ty, 'a %s built-in performs its assignments with export=%s in '
                             '%s; POSIX: special built-ins keep assignments (current context, no export), the others get '
                             'a temporary exported environment' % (ty, vfmt(pa[0][2][2]) if pa else '?',
                                                                  'a volatile context' if pc else 'the current context'),
                             loc=bloc(b))
                break
            if len(pf) != 1 or not is_enum(pf[0][2][1], 'Builtin'):
                cx.violation(b.root, 'frame:%s' % ty, 'the built-in does not run under exactly one Frame::Builtin', loc=bloc(b))
                break
            fr = enum_field(pf[0][2][1])
            flag = fr[1].get('is_special') if fr[0] == 'agg' else None
            if flag != ('c', special):
                cx.violation(b.root, 'frame-flag:%s' % ty, 'a %s built-in runs under a Builtin frame with is_special=%s: '
                             'its errors would %s the shell' % (ty, vfmt(flag), 'interrupt' if not special else 'not interrupt'),
                             loc=bloc(b))
                break


# ====================================================================== C10.R6 EXIT trap
RUN_EXIT_TRAP = ['yash_semantics::trap::exit::run_exit_trap']
APPLY_RESULT = [ENV + 'apply_result']
SUBSHELL_START = ['yash_env::subshell::config::Config::start', 'yash_env::subshell::config::Config::start_and_wait',
                  'yash_env::subshell::Subshell::<S, F>::start', 'yash_env::subshell::Subshell::<S, F>::start_and_wait',
                  ENV + 'run_in_child_process', 'yash_env::system::process::Fork::run_in_child_process']
# logical function -> what its subshell/child body runs
EXIT_TRAP_CALLERS = {
    'yash_cli::run_as_shell_process': 'the shell process',
    SC + 'compound_command::subshell::subshell_main': 'the ( ) subshell',
    SC + 'item::async_body': 'the asynchronous item',
    SC + 'pipeline::execute_job_controlled_pipeline': 'the job-controlled pipeline subshell',
    SC + 'pipeline::execute_multi_command_pipeline': 'a pipeline member',
    'yash_semantics::expansion::initial::command_subst::expand': 'the command substitution',
}
# subshell starters whose child runs no user command list (nothing can set or need an EXIT trap there)
NO_TRAP_CHILDREN = {
    SC + 'simple_command::absent::execute_absent_target': 'performs redirections only',
    'yash_env::semantics::command::run_external_utility_in_subshell': 'replaces the child with the utility (exec)',
    'yash_env::subshell::Subshell::<S, F>::start': 'deprecated wrapper, forwards the task',
    'yash_env::subshell::Subshell::<S, F>::start_and_wait': 'deprecated wrapper, forwards the task',
    'yash_env::subshell::config::Config::start_and_wait': 'forwards to start',
    'yash_env::subshell::config::Config::start': 'the subshell primitive itself (runs the task it is given)',
    ENV + 'run_in_child_process': 'the fork primitive itself',
}
RUNS_COMMANDS = EXECUTE + ['*::read_eval_loop', '*::interactive_read_eval_loop', '*::subshell_body',
                           '*::connect_pipe_and_execute_command', '*::execute_multi_command_pipeline']


@RS.rule('C10.R6', 'K-CALLERS+K-EFFECT', 'the EXIT trap runs exactly once in every shell process: called by the shell and the '
                                         'subshell bodies only, once on every path, after the commands (Abort: see R6b)')
def r6(cx):
    F = cx.F
    callers = F.callers_of(lambda names, t: RUN_EXIT_TRAP[0] in names)
    by_root = {}
    for b, i, t in callers:
        by_root.setdefault(b.root, []).append((b, t))
        cx.site('%s calls run_exit_trap at %s' % (b.fn, b.loc(t)))
    for root, lst in by_root.items():
        if root not in EXIT_TRAP_CALLERS:
            cx.violation(root, 'caller:run_exit_trap', 'the EXIT trap is run from here: it would run in addition to the '
                         'run at the end of the shell process (more than once)', loc=lst[0][0].loc(lst[0][1]))
    for root, what in EXIT_TRAP_CALLERS.items():
        if root not in by_root:
            b0 = F.body(root)
            cx.violation(root, 'missing:run_exit_trap', '%s ends without running the EXIT trap' % what, loc=bloc(b0))
    # every subshell starter is either a known trap-running one or a known command-less one
    starters = F.callers_of(lambda names, t: any(n in SUBSHELL_START for n in names))
    for b, i, t in starters:
        cx.site('%s starts a subshell at %s' % (b.root, b.loc(t)))
        if b.root not in EXIT_TRAP_CALLERS and b.root not in NO_TRAP_CHILDREN and \
                not b.root.startswith('yash_env::system::') and \
                not (b.root == SC + 'compound_command::subshell::execute' or b.root == SC + 'item::execute_async'):
            cx.violation(b.root, 'subshell-without-exit-trap', 'a subshell is started here whose body is not known to run '
                         'the EXIT trap', loc=b.loc(t))
    # in each subshell body: result applied, then the trap, exactly once, after the commands, on every path
    for root, lst in by_root.items():
        if root == 'yash_cli::run_as_shell_process' or root not in EXIT_TRAP_CALLERS:
            continue
        for body in {b.fn: b for b, t in lst}.values():
            cx.fn(body.fn)

            def oracle(sym, st, t, args):
                if Q.callee_is(t, RUNS_COMMANDS):
                    return ('u', 'command_result')
                return None
            outs = [o for o in sym_paths(cx, F, body, oracle) if o['end'] == 'return']
            cx.require(outs, '%s: no returning path' % body.fn)
            cx.cellcount(1)
            for o in outs:
                tr = trace_of(o, [('run', RUNS_COMMANDS), ('apply', APPLY_RESULT), ('trap', RUN_EXIT_TRAP)])
                names = [nm for nm, i, e in tr if nm != 'pop']
                ok = names.count('trap') == 1 and names[-1] == 'trap' and names.count('run') >= 1 and \
                    names.count('apply') == 1 and names.index('apply') > max(i for i, n in enumerate(names) if n == 'run')
                if ok:
                    ap = [e for nm, i, e in tr if nm == 'apply'][0]
                    ok = vfmt(ap[2][1]) == '<command_result>'
                if not ok:
                    cx.violation(root, 'exit-trap-sequence', 'the subshell body (%s) performs %s; expected: run the commands, '
                                 'apply their result to $?, then run the EXIT trap exactly once as the last step on every '
                                 'path' % (EXIT_TRAP_CALLERS[root], names), loc=bloc(body))
                    break
    # the closures that contain the trap call are the ones handed to Config::start / start_and_wait
    for root, lst in by_root.items():
        if root in (SC + 'pipeline::execute_job_controlled_pipeline', SC + 'pipeline::execute_multi_command_pipeline',
                    'yash_semantics::expansion::initial::command_subst::expand'):
            outer = F.main_body(root)
            if not Q.find_calls(outer, SUBSHELL_START):
                cx.violation(root, 'trap-closure-not-subshell', 'the closure running the EXIT trap is no longer the body of a '
                             'subshell', loc=bloc(outer))
    for helper, starter in ((SC + 'compound_command::subshell::subshell_main', SC + 'compound_command::subshell::execute'),
                            (SC + 'item::async_body', SC + 'item::execute_async')):
        users = F.callers_of(lambda names, t, helper=helper: helper in names)
        roots = {b.root for b, i, t in users}
        cx.site('%s is called from %s' % (helper.split('::')[-1], sorted(roots)))
        if roots != {starter}:
            cx.violation(helper, 'caller:%s' % helper.split('::')[-1], '%s (which runs the EXIT trap) must be called only as '
                         'the subshell body in %s; found %s' % (helper, starter, sorted(roots)), loc=bloc(F.body(helper)))
    # the shell process
    _shell_exit_table(cx, [v for v in ['normal'] + DIVERT_ORDER if v != 'Abort'])
    # run_exit_trap itself: at most one execution of the trap action, result applied to $?
    tb = F.main_body(RUN_EXIT_TRAP[0])
    cx.fn(tb.fn)
    RUN_TRAP = ['yash_semantics::trap::run_trap']
    outs = [o for o in sym_paths(cx, F, tb, lambda sym, st, t, args: ('u', 'trap_result') if Q.callee_is(t, RUN_TRAP) else None)
            if o['end'] == 'return']
    cx.cellcount(1)
    n_run = 0
    for o in outs:
        rt = ev_calls(o, RUN_TRAP)
        if len(rt) > 1:
            cx.violation(tb.root, 'trap-action-twice', 'run_exit_trap can run the trap action twice', loc=bloc(tb))
        if rt:
            n_run += 1
            ap = ev_calls(o, APPLY_RESULT)
            if not is_enum(rt[0][2][1], 'Exit') or len(ap) != 1 or vfmt(ap[0][2][1]) != '<trap_result>':
                cx.violation(tb.root, 'trap-action', 'run_exit_trap must run the action registered for Condition::Exit and '
                             'apply its result to $?', loc=bloc(tb))
    if not n_run:
        cx.violation(tb.root, 'trap-action-never', 'run_exit_trap never runs the trap action', loc=bloc(tb))


def _shell_exit_table(cx, labels):
    """What the shell process does after the read-eval loop ended with each outcome."""
    F = cx.F
    cb = F.main_body('yash_cli::run_as_shell_process')
    cx.fn(cb.fn)
    LOOPS = ['*::read_eval_loop', '*::interactive_read_eval_loop']
    for label in labels:
        x = mk_enum('Continue', UNIT) if label == 'normal' else mk_enum('Break', ('enum', label, {}, 'D'))

        def oracle(sym, st, t, args, x=x):
            if Q.callee_is(t, LOOPS):
                return x
            if Q.callee_is(t, ['yash_cli::startup::args::parse']):
                return mk_enum('Ok', mk_enum('Run', ('u', 'run')))
            if Q.callee_is(t, ['yash_cli::startup::input::prepare_input']):
                return mk_enum('Ok', ('u', 'lexer'))
            return None
        outs = [o for o in sym_paths(cx, F, cb, oracle, max_visits=3) if o['end'] == 'return' and ev_calls(o, LOOPS)]
        cx.cellcount(1)
        cx.require(outs, 'run_as_shell_process: no path runs the read-eval loop')
        for o in outs:
            tr = trace_of(o, [('loop', LOOPS), ('apply', APPLY_RESULT), ('trap', RUN_EXIT_TRAP)])
            names = [nm for nm, i, e in tr if nm != 'pop']
            want = ['loop', 'apply', 'trap']
            if names != want:
                extra = ''
                if label == 'Abort':
                    prod = sorted({b.root for fn, b in F.bodies.items() if not fn.startswith('<yash_env::semantics::Divert as ')
                                   for blk, j, s in Q.find_aggregates(b, 'yash_env::semantics::Divert', 'Abort')})
                    extra = (' Abort is produced by %s (a failed `exec` in a non-interactive shell): e.g. '
                             '`trap "echo bye" EXIT; exec /nonexistent` exits 127 without printing bye, although every '
                             'subshell body runs the trap unconditionally (`(trap "echo bye" EXIT; exec /nonexistent)` '
                             'prints bye) and docs/src/termination.md says the trap runs regardless of how the shell '
                             'exits.' % prod)
                cx.violation(cb.root, 'shell-exit:%s' % label, 'when the script ends with %s the shell process performs %s; '
                             'expected %s (the EXIT trap runs exactly once at every exit of the shell).%s'
                             % (vfmt(x), names, want, extra), loc=bloc(cb))
                break


@RS.rule('C10.R6b', 'K-SIBLING', 'the shell process runs the EXIT trap after Divert::Abort too, as every subshell body does')
def r6b(cx):
    _shell_exit_table(cx, ['Abort'])


# ====================================================================== C10.R8 built-in errors
PREP = 'yash_builtin::common::report::prepare_report_message_and_divert'


@RS.rule('C10.R8', 'K-TABLE+K-CONST', 'a built-in error interrupts the shell iff the innermost Builtin frame is special; '
                                      '`command` runs every built-in as non-special')
def r8(cx):
    F = cx.F
    b = F.body(PREP)
    cx.fn(b.fn)
    for case in ('special', 'regular', 'none'):
        def oracle(sym, st, t, args, case=case):
            if Q.callee_is(t, ['yash_env::stack::Stack::current_builtin']):
                if case == 'none':
                    return mk_enum('None')
                return mk_enum('Some', ('ref', ('M', 'frame'), ()))
            return None
        init = {('M', 'frame'): ('agg', {'is_special': ('c', case == 'special')}, 'frame')}
        outs = [o for o in sym_paths(cx, F, b, oracle, init, max_visits=3) if o['end'] == 'return']
        cx.cellcount(1)
        cx.require(outs, 'prepare_report_message_and_divert: no returning path')
        got = sorted({vfmt(enum_or_field(o['ret'], '1')) for o in outs})
        want = ['Break(Interrupt(None))'] if case == 'special' else ['Continue(())']
        if got != want:
            cx.violation(b.fn, 'divert:%s' % case, 'an error reported by %s yields the divert %s; documented: %s'
                         % ({'special': 'a special built-in', 'regular': 'a regular built-in',
                             'none': 'code outside any built-in'}[case], got, want[0]), loc=bloc(b))
    # report(): the divert of prepare_report... is what the built-in result carries
    rb = [x for fn, x in F.bodies.items() if fn.startswith('yash_builtin::common::report::report::')
          and Q.find_calls(x, [PREP])]
    cx.require(len(rb) == 1, 'report(): body calling prepare_report_message_and_divert not found')
    rb = rb[0]
    cx.fn(rb.fn)

    def oracle(sym, st, t, args):
        if Q.callee_is(t, [PREP]):
            return ('agg', {'0': ('u', 'message'), '1': ('u', 'the_divert')}, 'pair')
        if Q.callee_is(t, ['yash_env::builtin::Result::with_exit_status_and_divert']):
            return ('agg', {'exit_status': args[0], 'divert': args[1]}, 'Result')
        return None
    outs = [o for o in sym_paths(cx, F, rb, oracle) if o['end'] == 'return']
    cx.cellcount(1)
    for o in outs:
        r = o['ret']
        d = r[1].get('divert') if r[0] == 'agg' else None
        if vfmt(d) != '<the_divert>':
            cx.violation(rb.root, 'report-divert', 'report() does not pass the computed divert on (%s)' % vfmt(r), loc=bloc(rb))
    # who builds Builtin frames, and with which flag
    n = 0
    for fn, body in F.bodies.items():
        if fn.startswith('<yash_env::stack::Builtin as '):
            continue
        for blk, j, s in Q.find_aggregates(body, 'yash_env::stack::Builtin'):
            n += 1
            rv = s['rv']
            fields = dict(zip(rv.get('fields') or [], rv['ops']))
            flag = fields.get('is_special')
            du = Q.DefUse(body)
            cx.site('%s builds a Builtin frame (is_special = %s) at %s' % (body.root, pp.operand(body, flag) if flag else '?',
                                                                            body.loc(s)))
            if body.root == XB:
                continue      # decided by C10.R5 (type == Special)
            if body.root == 'yash_builtin::command::invoke::invoke_target':
                if not (flag and flag.get('c') == 'false'):
                    cx.violation(body.root, 'command-frame-flag', 'a built-in run through `command` must run with '
                                 'is_special = false (its errors must not abort the shell)', loc=body.loc(s))
                continue
            cx.violation(body.root, 'builds-builtin-frame', 'a Builtin frame is constructed outside execute_builtin and '
                         '`command`', loc=body.loc(s))
    cx.floor(n, 2, 'Builtin frame constructions')


def enum_or_field(v, f):
    if v is not None and v[0] == 'agg':
        return v[1].get(f)
    return v


# ====================================================================== C10.R7 read-eval loop
REL = 'yash_semantics::runner::read_eval_loop_impl'


@RS.rule('C10.R7', 'K-TABLE', 'read-eval loop: a Divert ends the loop before the next command is read; an Interrupt is '
                              'absorbed only if the loop is interactive and the error recoverable')
def r7(cx):
    F = cx.F
    b = F.main_body(REL)
    cx.fn(b.fn)
    CMDLINE = [re.compile(r'Parser<.*>::command_line$'), '*::command_line']
    RUN = ['yash_semantics::runner::run_command']
    causes = [v['name'] for v in F.adt('yash_syntax::parser::error::ErrorCause')['variants']]
    inputs = [('normal', mk_enum('Continue', UNIT))]
    for v in ('Break', 'Return', 'Interrupt', 'Exit', 'Abort'):
        inputs.append((v, mk_enum('Break', ('enum', v, {'0': mk_enum('Some', ('u', 'st'))}, 'D'))))
    for interactive in (True, False):
        for source in ('command', 'error'):
            for label, x in inputs:
                if source == 'error' and label not in ('Interrupt', 'normal'):
                    continue

                def oracle(sym, st, t, args, x=x, source=source):
                    if Q.callee_is(t, CMDLINE):
                        k = len([e for e in st.events if e[0] == 'call' and Q.callee_is(e[1], CMDLINE)])
                        if k >= 1:
                            return mk_enum('Ok', mk_enum('None'))
                        if source == 'command':
                            return mk_enum('Ok', mk_enum('Some', ('u', 'cmd')))
                        return mk_enum('Err', ('u', 'perr'))
                    if Q.callee_is(t, RUN) or Q.callee_is(t, HANDLE):
                        return x
                    return None
                init = upvar_init(b, {('ty', 'bool'): ('c', interactive)})
                outs = [o for o in sym_paths(cx, F, b, oracle, init, max_visits=3) if o['end'] == 'return']
                cx.require(outs, 'read_eval_loop_impl: no returning path')
                for o in outs:
                    cx.cellcount(1)
                    reads = len(ev_calls(o, CMDLINE))
                    recoverable = True
                    if source == 'error':
                        c = [a[1] for a in o['assume'] if a[1] in causes]
                        cx.require(len(c) == 1, 'read_eval_loop_impl: error cause not decided (%s)' % o['assume'])
                        recoverable = c[0] == 'Syntax'
                    absorbed = label == 'Interrupt' and interactive and recoverable
                    cont = label == 'normal' or absorbed
                    want = (2, 'Continue(())') if cont else (1, vfmt(x))
                    got = (reads, vfmt(o['ret']))
                    writes = [vfmt(e[2]) for e in ev_writes(o, '.exit_status')]
                    wwrites = ['<st>'] if absorbed else []
                    if got != want or [w for w in writes if w == '<st>'] != wwrites:
                        cx.violation(b.root, 'loop:%s,%s,%s%s' % ('interactive' if interactive else 'script', source, label,
                                                                 '' if recoverable else ',unrecoverable'),
                                     '%s loop, %s ending with %s%s: %d command line(s) read, result %s, $? <- %s; expected '
                                     '%d read(s), %s%s' % ('interactive' if interactive else 'non-interactive',
                                                          'a command' if source == 'command' else 'a parser error',
                                                          vfmt(x), '' if recoverable else ' (input error)', reads, got[1], writes,
                                                          want[0], want[1], ', $? <- the interrupt status' if absorbed else ''),
                                     loc=bloc(b))
                        break
    # the two entry points fix the flag
    for fn, val in (('yash_semantics::runner::read_eval_loop', 'false'), ('yash_semantics::runner::interactive_read_eval_loop', 'true')):
        eb = F.main_body(fn)
        cx.fn(eb.fn)
        calls = Q.find_calls(eb, [REL])
        flag = calls[0][1]['a'][2].get('c') if len(calls) == 1 and len(calls[0][1]['a']) == 3 else None
        cx.site('%s -> read_eval_loop_impl(.., %s)' % (fn, flag))
        if flag != val:
            cx.violation(fn, 'interactive-flag', '%s must run the loop with is_interactive = %s' % (fn.split('::')[-1], val),
                         loc=bloc(eb))
    # only the shell binary's top level may use the interactive loop
    for bb, i, t in F.callers_of(lambda names, t: 'yash_semantics::runner::interactive_read_eval_loop' in names):
        cx.site('interactive_read_eval_loop called by %s' % bb.root)
        if bb.root != 'yash_cli::run_as_shell_process':
            cx.violation(bb.root, 'caller:interactive-loop', 'the interrupt-absorbing loop is used outside the top level of '
                         'the shell (a shell error inside it would not abort the script)', loc=bb.loc(t))


# ====================================================================== C10.R5b ordinary commands
@RS.rule('C10.R5b', 'K-TABLE', 'functions and external utilities: a redirection error or command-not-found only sets $? '
                               '(the command is not run, nothing but the errexit verdict can stop the shell)')
def r5b(cx):
    F = cx.F
    PERF = ["yash_semantics::redir::RedirGuard::<'e, S>::perform_redirs"]
    for fn, runs in ((SC + 'simple_command::function::execute_function', ['*::execute_function_body']),
                     (SC + 'simple_command::external::execute_external_utility',
                      ['*::start_external_utility_in_subshell_and_wait'])):
        b = F.main_body(fn)
        cx.fn(b.fn)

        def oracle(sym, st, t, args):
            if Q.callee_is(t, PERF):
                return mk_enum('Err', ('u', 'redir_error'))
            if Q.callee_is(t, HANDLE):
                return ('u', 'handled')
            return None
        outs = [o for o in sym_paths(cx, F, b, oracle) if o['end'] == 'return']
        cx.cellcount(1)
        cx.require(outs, '%s: no returning path' % fn)
        for o in outs:
            if vfmt(o['ret']) != '<handled>' or len(ev_calls(o, HANDLE)) != 1 or ev_calls(o, runs) or \
                    ev_calls(o, ['*::simple_command::perform_assignments']):
                cx.violation(b.root, 'redir-error', 'on a redirection error the command yields %s (ran the command: %s); '
                             'expected the redirection handler\'s result ($?=2, continue) without running anything'
                             % (vfmt(o['ret']), bool(ev_calls(o, runs))), loc=bloc(b))
                break
    # command not found
    b = F.main_body(SC + 'simple_command::external::execute_external_utility')

    def oracle2(sym, st, t, args):
        if Q.callee_is(t, PERF):
            return mk_enum('Ok', ('u', 'st'))
        if Q.callee_is(t, ['*::simple_command::perform_assignments']):
            return mk_enum('Continue', ('u', 'a'))
        if Q.callee_is(t, ['core::str::<impl str>::contains']):
            return ('c', False)
        if Q.callee_is(t, ['*::search::search_path']):
            return mk_enum('None')
        return None
    outs = [o for o in sym_paths(cx, F, b, oracle2, max_visits=3) if o['end'] == 'return']
    cx.cellcount(1)
    cx.require(outs, 'execute_external_utility: no returning path for an unknown command')
    for o in outs:
        writes = [vfmt(e[2]) for e in ev_writes(o, '.exit_status')]
        if vfmt(o['ret']) != 'Continue(())' or writes != [STATUS + 'NOT_FOUND'] or \
                ev_calls(o, ['*::start_external_utility_in_subshell_and_wait']):
            cx.violation(b.root, 'not-found', 'an unknown command yields %s with $? writes %s; documented: $? = 127 and '
                         'execution continues' % (vfmt(o['ret']), writes), loc=bloc(b))
            break


SET_DIVERT = 'yash_env::builtin::Result::set_divert'
INVOKE_TARGET = 'yash_builtin::command::invoke::invoke_target'


@RS.rule('C10.R9', 'K-CONST+K-PASS', "a Divert reported by a built-in is never erased on its way to the executor: set_divert only "
         "raises (its argument is always Break(..)), and the `command` built-in returns the invoked built-in's result as it is")
def r9(cx):
    F = cx.F
    # (a) who sets the divert of a built-in result, and to what
    sites = [(b, blk, t) for b, blk, t in F.callers_of(lambda names, t: SET_DIVERT in names)]
    cx.floor(len(sites), 1, 'call sites of builtin::Result::set_divert (exec: Abort)')
    for b, blk, t in sites:
        du = Q.DefUse(b)
        org = du.origin(t['a'][1])
        raised = org['k'] == 'agg' and org['rv'].get('adt') == 'core::ops::control_flow::ControlFlow' and org['rv'].get('variant') == 'Break'
        cx.site('%s: set_divert(%s) at %s' % (b.fn, 'Break(..)' if raised else pp.operand(b, t['a'][1]), b.loc(t)))
        if not raised:
            cx.violation(b.root, 'set_divert-not-raising', "a built-in result's divert is overwritten with something that is not a "
                         'freshly built Break(..): a pending Interrupt/Exit (shell error, errexit) can be cleared and the script '
                         'continues past the abort point', loc=b.loc(t))
    # (b) `command <built-in>`: the result of the invoked built-in is what invoke_target returns
    body = F.main_body(INVOKE_TARGET)
    cx.fn(body.fn)
    du = Q.DefUse(body)
    ind = [(blk, t) for blk, t in body.calls() if 'indirect' in t['f'] and 'Output = yash_env::builtin::Result' in t['f'].get('ty', '')]
    cx.require(len(ind) == 1, 'the call of the built-in\'s `execute` function pointer was not found in command::invoke_target')
    blk, call = ind[0]
    rets = [(b2, j, s) for b2, j, s in body.stmts() if s['k'] == 'assign' and s['lhs']['l'] == 0 and not s['lhs'].get('p')
            and call['to'] is not None and body.dominates(call['to'], b2)]
    ret_calls = [(b2, t) for b2, t in body.calls() if t['dest']['l'] == 0 and not t['dest'].get('p') and call['to'] is not None
                 and body.dominates(call['to'], b2)]
    cx.site('%s: (builtin.execute)(..) at %s; %d write(s) of the return value after it' % (body.fn, body.loc(call), len(rets) + len(ret_calls)))
    ok = bool(rets) and not ret_calls
    for b2, j, s in rets:
        src = Q.value_source(body, du, s['rv']['o']) if s['rv']['k'] == 'use' else None
        if src is not call:
            ok = False
    # nothing may modify the result in between (a &mut borrow of the awaited value passed to a call)
    if ok:
        res_locals = {Q.operand_place(s['rv']['o'])['l'] for _, _, s in rets}
        for b2, t in body.calls():
            if call['to'] is not None and body.dominates(call['to'], b2):
                for a in t['a']:
                    o = du.origin(a)
                    if o['k'] == 'ref' and o.get('mut') and o['pl']['l'] in res_locals:
                        ok = False
    if not ok:
        cx.violation(INVOKE_TARGET, 'builtin-result-altered', "the `command` built-in does not return the invoked built-in's result "
                     'unchanged: a Divert it carries (e.g. the Interrupt of a syntax error inside `command eval`, or of a failed '
                     '`command .`) can be lost and the script continues after a shell error', loc=body.loc(call))


REDIR_HANDLE = '<yash_semantics::redir::Error as yash_semantics::handle::Handle<S>>::handle'
EXP_HANDLE = '<yash_semantics::expansion::Error as yash_semantics::handle::Handle<S>>::handle'


def expansion_cause_in_redirection(cx):
    """An expansion error keeps the consequence of an expansion error when it happens in the operand of a redirection."""
    F = cx.F
    body = F.main_body(REDIR_HANDLE)
    cx.fn(body.fn)
    du = Q.DefUse(body)
    a = F.adts.get('yash_semantics::redir::ErrorCause')
    cx.require(a is not None, 'redir::ErrorCause not found')
    has_variant = any(v['name'].endswith('Expansion') for v in a['variants'])
    if not has_variant:
        cx.site('redir::ErrorCause has no Expansion variant: operand expansion errors are not wrapped as redirection errors')
        return
    deleg = Q.find_calls(body, [EXP_HANDLE, re.compile(r'expansion::Error as yash_semantics::handle::Handle<S>>::handle$')])
    guarded = False
    for blk, t in deleg:
        for org, lab, e in Q.implied_conditions(F, body, du, blk):
            if org['k'] == 'discr' and 'redir::ErrorCause' in (org.get('ty') or '') and lab == ('variant', 'Expansion'):
                guarded = True
    cx.site('%s: redir::ErrorCause::Expansion handed to the expansion-error handler: %s' % (body.fn, guarded))
    if not guarded:
        cx.violation(REDIR_HANDLE, 'expansion-error-as-redirection-error', 'an error of the expansion of a redirection operand '
                     '(redir::ErrorCause::Expansion: unset parameter under `set -u`, `${x?}`, division by zero in `$(( ))`) gets the '
                     'consequence of a redirection error ($? = 2, the script goes on) instead of that of an expansion error: '
                     '`yash -uc \'echo a >$u; echo survived\'` prints survived and exits 0, while `echo $u` stops the shell with status 2',
                     loc=body.loc(body.d))


@RS.rule('C10.R4b', 'K-TABLE', 'an expansion error stops a non-interactive shell wherever the word is: the redirection-error handler hands '
         'redir::ErrorCause::Expansion to the expansion-error handler')
def r4b(cx):
    expansion_cause_in_redirection(cx)


# --- explanation addendum (generated catalogue in DESIGN.md reads RS.explanation)
RS.explanation += " Added later: an expansion error in a redirection operand is handed to the expansion-error handler (R4b); set_divert only raises, and the `command` built-in returns the invoked built-in's result unchanged (R9)."


@RS.rule('C10.R10', 'K-TABLE', 'a shell error inside a trap action aborts with the status of that error: run_trap hands the Divert on with its payload '
         'unchanged (it does not replace the carried status by the $? saved before the trap)')
def r10(cx):
    from rules.C02 import _divert_inputs
    F = cx.F
    rt = F.main_body('yash_semantics::trap::run_trap')
    cx.fn(rt.fn)
    REL = ['yash_semantics::runner::read_eval_loop', '*::read_eval_loop']
    n = 0
    for label, x in _divert_inputs():
        if not label.endswith('-some'):
            continue

        def oracle(sym, st, t, args, x=x):
            if Q.callee_is(t, REL):
                return x
            return None
        outs = [o for o in sym_paths(cx, F, rt, oracle) if o['end'] == 'return' and ev_calls(o, REL)]
        cx.require(outs, 'run_trap does not run read_eval_loop')
        for o in outs:
            n += 1
            cx.cellcount(1)
            got, want = vfmt(o['ret'], 6), vfmt(x, 6)
            cx.site('run_trap: trap action ends with %s -> returns %s' % (want, got))
            if got != want:
                cx.violation(rt.root, 'trap-divert-payload:%s' % label.split('-')[0], 'a trap action that ends with %s makes run_trap return %s: the '
                             'status carried by the divert (the status of the shell error / exit / return) is replaced - `trap \'echo ${y?}\' USR1; '
                             'kill -USR1 $$` aborts the script with the exit status it had before the trap (0) instead of 2' % (want, got),
                             loc='%s:%d' % (pp_rel(rt.file), rt.line))
    cx.require(n >= 4, 'fewer than 4 divert inputs evaluated for run_trap')


@RS.rule('C10.R10b', 'K-SIBLING', 'errexit inside a trap action: run_trap restores the $? of before the trap for every Divert but Interrupt, so the '
         'errexit exit must carry the failing status itself while a Trap frame is on the stack (Exit(None) would exit with the old $?)')
def r10b(cx):
    F = cx.F
    rt = F.main_body('yash_semantics::trap::run_trap')
    cx.fn(rt.fn)
    REL = ['yash_semantics::runner::read_eval_loop', '*::read_eval_loop']
    x = mk_enum('Break', ('enum', 'Exit', {'0': mk_enum('None')}, 'D'))

    def oracle(sym, st, t, args):
        if Q.callee_is(t, REL):
            return x
        return None
    outs = [o for o in sym_paths(cx, F, rt, oracle) if o['end'] == 'return' and ev_calls(o, REL)]
    cx.require(outs, 'run_trap does not run read_eval_loop')
    restores = all(ev_writes(o, '.exit_status') for o in outs)
    eb = F.body(APPLY_ERREXIT[0])
    cx.fn(eb.fn)
    du = Q.DefUse(eb)
    looks_at_trap = False
    for b in [eb] + [F.bodies[k] for k in F.bodies if k.startswith(APPLY_ERREXIT[0] + '::')]:
        d2 = Q.DefUse(b)
        for u in b.live_blocks():
            ec = Q.edge_condition(F, b, d2, u)
            if ec and ec[0]['k'] == 'discr' and (ec[0].get('ty') or '').endswith('stack::Frame') and any(('variant', 'Trap') in labs for labs in ec[1].values()):
                looks_at_trap = True
    carries = any(s['rv'].get('variant') == 'Some' for b, j, s in Q.find_aggregates(eb, 'core::option::Option')) or \
        bool(Q.find_calls(eb, [re.compile(r'bool>::then_some$|::then_some$')]))
    cx.site('run_trap restores $? after Break(Exit(None)): %s; apply_errexit distinguishes a Trap frame: %s and can carry the status: %s'
            % (restores, looks_at_trap, carries))
    if restores and not (looks_at_trap and carries):
        cx.violation(APPLY_ERREXIT[0], 'errexit-status-lost-in-trap', 'apply_errexit always yields Exit(None), i.e. "exit with the current $?", and '
                     'run_trap puts the $? of before the trap back for that divert: `set -e; trap "(exit 7); echo more" USR1; kill -USR1 $$` aborts '
                     'the script as it must but with exit status 0 (the status before the trap) instead of 7', loc=bloc(eb))


from rules.C02 import r11 as _c02_assignment_status
from engine import Rule
RS.rules.append(Rule('C10.R11', 'K-GUARD', 'errexit sees the failure of a command substitution in ANY assignment of a command without a command '
                     'name: the status handed to apply_errexit is folded over the assignments (C02.R11)', _c02_assignment_status))
RS.explanation += ' The status of an assignment-only command, which errexit inspects, is folded over all its assignments (R11 = C02.R11).'


from rules.C02 import r3 as _c02_divert_max
from engine import Rule
RS.rules.append(Rule('C10.R12', 'K-TYPE+K-TABLE', 'an abort requested by a trap action is never dropped: the command combines its own divert and the divert of the traps '
                     'run after it by the Divert maximum (Continue < Break < Return < Interrupt < Exit < Abort), so a shell error / errexit / exit '
                     'raised in a trap action that runs right after `return`, `break` or `continue` still ends the script (C02.R3)', _c02_divert_max))
RS.explanation += ' A command combines its own divert and that of the traps run after it by the maximum (R12 = C02.R3).'



# ---------------------------------------------------------------------------------------
# added after the audit C10h4 (`set -e; x=$(true) </nonexistent; echo continued $?` printed "continued 0")
@RS.rule('C10.R13', 'K-GUARD', 'a failed redirection is not masked: in a command without a command name the redirections run in a subshell and their '
         'failure comes back only as an exit status - $? takes the status of a command substitution in the assignments only on a path where '
         'that redirection status was tested and found successful (or there is no redirection), so that the command fails and errexit applies')
def r13(cx):
    F = cx.F
    fn = 'yash_semantics::command::simple_command::absent::execute_absent_target'
    body = F.inlined(F.main_body(fn))
    cx.fn(body.fn)
    du = Q.DefUse(body)
    pa = Q.find_calls(body, ['yash_semantics::command::simple_command::perform_assignments', 'yash_semantics::assign::perform_assignments'])
    cx.require(pa, 'execute_absent_target no longer calls perform_assignments (anchor moved)')
    from_assign = Q.forward_taint(body, {t['dest']['l'] for b, t in pa}, through_calls=Q.PROPAGATING_CALLS + Q.AWAIT_CALLS + Q.TRY_BRANCH +
                                  [re.compile(r'option::Option::<T>::(unwrap_or|unwrap_or_else|unwrap_or_default|or|or_else|map_or|map_or_else|unwrap|expect)$')])
    redirs = [l for l in range(1, len(body.locals)) if body.locals[l].get('name') in ('redirs',)]
    n = 0
    for w in Q.field_writes(body, 'yash_env::Env', 'exit_status'):
        if w[3] != 'assign':
            continue
        blk, st = w[0], w[2]
        srcs = {p_['l'] for p_ in Q.rvalue_places(st['rv'])}
        if not (srcs & from_assign):
            continue
        # does the written value come ONLY from the assignments on this path? (a phi of both sources is decided by its defining blocks)
        defs = []
        for l in srcs & from_assign:
            for db, dj, dn in du.defs.get(l, []):
                if dj != 't' and dn.get('k') == 'assign' and any(p_['l'] in from_assign for p_ in Q.rvalue_places(dn['rv'])):
                    defs.append((db, dn))
        for l in srcs & from_assign:
            for db, dj, dn in du.defs.get(l, []):
                # `assignment_status.unwrap_or(redir_status)`: the value is chosen by a call
                if dj == 't' and any((Q.operand_place(a_) or {}).get('l') in from_assign for a_ in dn['a']):
                    defs.append((db, dn))
        sites = defs or [(blk, st)]
        for db, dn in sites:
            n += 1
            conds = Q.implied_conditions(F, body, du, db)
            ok = False
            succ_flags = Q.forward_taint(body, {t_['dest']['l'] for b_, t_ in Q.find_calls(body, [re.compile(r'semantics::ExitStatus::is_successful$')])})
            for org, lab, e in conds:
                org, lab = Q.peel_not(du, org, lab)
                # `let redir_failed = !redirs.is_empty() && !status.is_successful(); .. if !redir_failed`: a flag computed from the test
                if org['k'] == 'place' and not org['pl'].get('p') and org['pl']['l'] in succ_flags and body.locals[org['pl']['l']].get('ty') == 'bool':
                    ok = True
                if org['k'] == 'call' and Q.callee_is(org['t'], [re.compile(r'semantics::ExitStatus::is_successful$')]) and lab == ('bool', True):
                    ok = True
                if org['k'] == 'call' and Q.callee_is(org['t'], [re.compile(r'(Vec::<T, A>|slice::<impl \[T\]>)::is_empty$')]) and lab == ('bool', True):
                    ok = True
                if org['k'] == 'binop' and org['rv']['op'] in ('Eq',) and lab == ('bool', True) and \
                        any(str(x.get('c')) in ('0', '0_i32') for x in (org['rv']['a'], org['rv']['b']) if isinstance(x, dict)):
                    ok = True
            cx.site('execute_absent_target: $? takes the status of the assignments at %s only after the redirection status was found successful: %s'
                    % (body.loc(dn), ok))
            if not ok:
                cx.violation(fn, 'redirection-failure-masked', 'the status of a command substitution in the assignments overwrites the status of the '
                             'redirection subshell without a test that the redirection succeeded: `set -e; x=$(true) </nonexistent; echo continued $?` '
                             'prints the error and then "continued 0" (dash exits 2, bash 1; docs/src/termination.md)', loc=body.loc(dn))
    cx.require(n >= 1, 'no write of $? from the assignment status was found in execute_absent_target (shape not understood)')


RS.explanation += ' A failed redirection of a command without a command name is not masked by a command substitution status (R13).'


# --- wave 5: the producer side of "a shell error aborts the script" (seed C10-s10: the nounset test folded into the modifier match,
# so ${#unset} / ${unset#p} no longer raise the error that handle.rs turns into Interrupt(2))
from rules.C01 import r4 as _c01_nounset_error_raised
from engine import Rule
RS.rules.append(Rule('C10.R14', 'K-GUARD+K-ORDER', 'the unset-parameter shell error that aborts a script under `set -u` is raised for every '
                     'parameter expansion without a switch modifier - plain, length and trim forms alike - before the modifier is '
                     'applied (C01.R4): a form that silently expands to 0 or the empty string lets the script run on', _c01_nounset_error_raised))
RS.explanation += ' The nounset error is raised for every non-switch form of parameter expansion (R14 = C01.R4).'
