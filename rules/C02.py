"""C02 - control flow and exit status follow the POSIX command semantics.

Structural clauses decided (DESIGN.md 4/C02): the command-search decision table, the set of
special built-ins, the severity order of Divert, no silently dropped Divert, the break/continue
tables of the two loop implementations, who may turn a Return/Interrupt into normal completion,
and the and-or / negation tables.

This module also holds `Sym`, a small path-enumerating abstract interpreter over the MIR facts
(used by C02 and C10 to extract exact decision tables from function bodies)."""
import re
from engine import RuleSet
from facts import AnchorMissing, callee_names, same_module_private
import mirq as Q
import hirq as H
import pp

RS = RuleSet(
    'C02',
    explanation=(
        'Decision tables and inventories extracted from the MIR/HIR of the executor: command search classifies a '
        'name as special built-in, function, other built-in, external in exactly that order for every combination '
        'of (contains a slash, built-in kind, function defined) and looks PATH up only for external utilities and '
        'substitutive built-ins; the registered special built-ins are exactly the POSIX list (plus the documented '
        'alias `source`) and the registry is sorted; Divert is ordered Continue < Break < Return < Interrupt < '
        'Exit < Abort by a derived Ord and the main/trap results of a command are combined by that maximum; no '
        'ControlFlow<Divert> value produced by a call or an await is discarded in the executor crates; while/until '
        'and for implement the same break/continue table (count 0: leave loop / next iteration, count n>0: '
        'propagate n-1, anything else: propagate unchanged) under a Frame::Loop pushed before the first body '
        'execution, and loop_count treats exactly Loop, Condition, Builtin frames as transparent; only the function '
        'caller consumes Divert::Return, only the interactive read-eval loop consumes Divert::Interrupt, and '
        'nothing else inspects individual Divert variants outside a reviewed inventory; `&&` runs its pipeline iff '
        'the previous status is zero and `||` iff it is not, and `!` inverts only the status on the normal path.'),
    not_decided='that compositions of constructs yield the POSIX trace; the value of $? at every point (only which '
                'constructs decide it); parser-side structure of and-or lists (equal precedence is syntax); the '
                'dynamic depth of the frame stack',
    trusted=['POSIX XCU 2.15 special built-in list and XCU 2.9.1.4 search order transcribed in rules/C02.py',
             'the reviewed inventory of functions that inspect individual Divert variants (rules/C02.py)'],
    assumptions=['the abstract interpreter follows normal control flow only (unwind edges dropped) and treats every '
                 'awaited future as completing',
                 'calls without a model return an unconstrained value; every switch on such a value is explored on '
                 'all edges; effects of unmodelled callees on memory are not tracked (each table is per function)',
                 'paths that revisit a block more often than the unrolling bound (2-6 per rule) are cut off'],
)


# ====================================================================== abstract interpreter
class SymLimit(Exception):
    pass


def vfmt(v, depth=3):
    """Short rendering of an abstract value."""
    if v is None:
        return '?'
    k = v[0]
    if k == 'c':
        return str(v[1])
    if k == 'u':
        return '<%s>' % v[1]
    if k == 'enum':
        if not v[2] or depth == 0:
            return v[1]
        return '%s(%s)' % (v[1], ', '.join('%s' % vfmt(x, depth - 1) for _, x in sorted(v[2].items())))
    if k == 'agg':
        if not v[1] and v[2] == 'tuple':
            return '()'
        if depth == 0:
            return '{..}'
        return '{%s}' % ', '.join('%s: %s' % (f, vfmt(x, depth - 1)) for f, x in sorted(v[1].items()))
    if k == 'ref':
        return '&%s' % locfmt(v[1], v[2])
    if k == 'discr':
        return 'discr(%s)' % locfmt(v[1], v[2])
    return str(v)


def locfmt(root, path):
    base = ('_%d' % root[1]) if root[0] == 'L' else root[1]
    return '.'.join([base] + list(path))


def is_enum(v, variant=None):
    return v is not None and v[0] == 'enum' and (variant is None or v[1] == variant)


def enum_field(v, f='0'):
    if v is not None and v[0] == 'enum':
        x = v[2].get(f)
        if x is not None:
            return x
        return ('u', '%s.%s' % (v[3], f))
    return None


def mk_enum(variant, *fields, **named):
    d = {str(i): f for i, f in enumerate(fields)}
    d.update(named)
    return ('enum', variant, d, 'mk.' + variant)


UNIT = ('c', '()')


class State:
    __slots__ = ('mem', 'known', 'events', 'assume', 'visits', 'block', 'ncall', 'moved')

    def __init__(self):
        self.mem = {}
        self.known = {}
        self.events = []
        self.assume = []
        self.visits = {}
        self.block = 0
        self.ncall = {}
        self.moved = set()

    def fork(self):
        s = State()
        s.mem = dict(self.mem)          # values are immutable trees (never mutated in place)
        s.known = dict(self.known)
        s.events = list(self.events)
        s.assume = list(self.assume)
        s.visits = dict(self.visits)
        s.block = self.block
        s.ncall = dict(self.ncall)
        s.moved = set(self.moved)
        return s


PASS_THROUGH = ['<F as core::future::into_future::IntoFuture>::into_future', '*::IntoFuture::into_future',
                'core::pin::Pin::<Ptr>::new_unchecked', '<T as core::convert::From<T>>::from',
                'core::pin::Pin::<Ptr>::new', re.compile(r'FromResidual.*::from_residual$'),
                'alloc::boxed::Box::<T>::pin', 'alloc::boxed::Box::<T>::new', 'core::mem::drop']
POLL = ['*::Future::poll', 'core::future::future::Future::poll']
TRY_BRANCH = [re.compile(r'::Try>?::branch$'), '*::Try::branch']
DEREF = ['*::Deref::deref', '*::DerefMut::deref_mut', 'core::ops::deref::Deref::deref',
         'core::ops::deref::DerefMut::deref_mut']
EQ = [re.compile(r'PartialEq(<.*>)?>?::eq$'), 'core::cmp::PartialEq::eq']
NE = [re.compile(r'PartialEq(<.*>)?>?::ne$'), 'core::cmp::PartialEq::ne']
PRESENT = {'Continue', 'Ok', 'Some'}
ABSENT = {'Break', 'Err', 'None'}


class Sym:
    """Enumerates the paths of one MIR body under an oracle for calls.

    oracle(sym, state, term, argvals) -> value | ('fork', [(label, value), ...]) | None (no opinion).
    Values: ('c', python value) | ('enum', variant, {field: value}, tag) | ('agg', {field: value}, tag)
    | ('ref', root, path) | ('u', tag) unconstrained | ('discr', root, path, type, tag)."""

    def __init__(self, F, body, oracle=None, max_visits=2, max_paths=3000, max_steps=200000):
        self.F = F
        self.body = body
        self.oracle = oracle
        self.max_visits = max_visits
        self.max_paths = max_paths
        self.max_steps = max_steps
        self.steps = 0

    # ---------------------------------------------------------------- memory
    def roottag(self, root):
        if root[0] == 'M':
            return root[1]
        l = root[1]
        nm = self.body.locals[l].get('name')
        if 1 <= l <= self.body.argc:
            return nm or 'arg%d' % l
        return nm or 'local%d' % l

    def resolve(self, st, v):
        n = 0
        while v[0] == 'u' and v[1] in st.known and n < 8:
            v = st.known[v[1]]
            n += 1
        if v[0] == 'discr':
            cur = self.read(st, v[1], v[2])
            if cur[0] == 'enum':
                names = Q.variant_names(self.F, v[3])
                if names and cur[1] in names:
                    return ('c', names.index(cur[1]))
        return v

    def field(self, v, f):
        if v[0] == 'enum':
            x = v[2].get(f)
            return x if x is not None else ('u', '%s.%s' % (v[3], f))
        if v[0] == 'agg':
            x = v[1].get(f)
            return x if x is not None else ('u', '%s.%s' % (v[2], f))
        if v[0] == 'u':
            return ('u', '%s.%s' % (v[1], f))
        return ('u', 'field(%s).%s' % (vfmt(v, 1), f))

    def read(self, st, root, path):
        v = st.mem.get(root)
        if v is None:
            v = ('u', self.roottag(root))
        v = self.resolve_shallow(st, v)
        for f in path:
            v = self.resolve_shallow(st, self.field(v, f))
        return v

    def resolve_shallow(self, st, v):
        n = 0
        while v[0] == 'u' and v[1] in st.known and n < 8:
            v = st.known[v[1]]
            n += 1
        return v

    def _update(self, cur, path, val):
        f, rest = path[0], path[1:]
        if cur[0] == 'enum':
            fields = dict(cur[2])
            old = fields.get(f) or ('u', '%s.%s' % (cur[3], f))
            fields[f] = val if not rest else self._update(old, rest, val)
            return ('enum', cur[1], fields, cur[3])
        if cur[0] == 'agg':
            fields = dict(cur[1])
            old = fields.get(f) or ('u', '%s.%s' % (cur[2], f))
            fields[f] = val if not rest else self._update(old, rest, val)
            return ('agg', fields, cur[2])
        tag = cur[1] if cur[0] == 'u' else 'x'
        old = ('u', '%s.%s' % (tag, f))
        return ('agg', {f: val if not rest else self._update(old, rest, val)}, tag)

    def write(self, st, root, path, val, line=None, event=True):
        if root[0] == 'M' and event:
            st.events.append(('write', locfmt(root, path), val, line))
        if not path:
            st.mem[root] = val
            return
        cur = st.mem.get(root)
        if cur is None:
            cur = ('u', self.roottag(root))
        cur = self.resolve_shallow(st, cur)
        st.mem[root] = self._update(cur, path, val)

    def loc(self, st, place):
        root, path = ('L', place['l']), ()
        for e in place.get('p') or []:
            if e == '*':
                v = self.read(st, root, path)
                if v[0] == 'ref':
                    root, path = v[1], v[2]
                elif v[0] == 'u':
                    root, path = ('M', '*' + v[1]), ()
                else:
                    root, path = ('M', '*(%s)' % vfmt(v, 1)), ()
            elif isinstance(e, dict) and 'f' in e:
                path = path + (str(e['f']),)
            elif isinstance(e, dict) and 'v' in e:
                continue
            else:
                path = path + ('[]',)
        return root, path

    def deref(self, st, v, depth=6):
        """Follow references to the value they point to."""
        while v is not None and v[0] == 'ref' and depth > 0:
            v = self.read(st, v[1], v[2])
            depth -= 1
        return self.resolve(st, v)

    # ---------------------------------------------------------------- evaluation
    def const(self, o):
        ty = o.get('ty', '')
        c = o.get('c')
        if 'cdef' in o:
            return ('c', 'const ' + o['cdef'])
        if 'fn' in o:
            return ('c', 'fn ' + o['fn'])
        if ty == 'bool':
            return ('c', c == 'true')
        if ty == '()':
            return UNIT
        m = re.match(r'^(-?\d+)_[iu](\d+|size)$', str(c))
        if m:
            return ('c', int(m.group(1)))
        return ('c', c)

    def operand(self, st, o):
        p = Q.operand_place(o)
        if p is None:
            return self.const(o)
        root, path = self.loc(st, p)
        v = self.resolve(st, self.read(st, root, path))
        if 'mv' in o and not p.get('p'):
            st.moved.add(p['l'])
        return v

    def rvalue(self, st, rv):
        k = rv['k']
        if k == 'use':
            return self.operand(st, rv['o'])
        if k in ('ref', 'rawptr'):
            root, path = self.loc(st, rv['pl'])
            return ('ref', root, path)
        if k == 'discr':
            root, path = self.loc(st, rv['pl'])
            v = self.read(st, root, path)
            names = Q.variant_names(self.F, rv['ty'])
            if v[0] == 'enum' and names and v[1] in names:
                return ('c', names.index(v[1]))
            tag = v[1] if v[0] == 'u' else 'd'
            return ('discr', root, path, rv['ty'], tag)
        if k == 'unop':
            v = self.operand(st, rv['o'])
            if rv['op'] == 'Not':
                if v[0] == 'c' and isinstance(v[1], bool):
                    return ('c', not v[1])
                if v[0] == 'u':
                    return ('u', v[1][1:] if v[1].startswith('!') else '!' + v[1])
            return ('u', '%s(%s)' % (rv['op'], vfmt(v, 1)))
        if k == 'binop':
            a, b = self.operand(st, rv['a']), self.operand(st, rv['b'])
            if 'WithOverflow' in rv['op']:
                base = rv['op'].replace('WithOverflow', '')
                if a[0] == 'c' and b[0] == 'c' and isinstance(a[1], int) and isinstance(b[1], int):
                    r = {'Sub': a[1] - b[1], 'Add': a[1] + b[1], 'Mul': a[1] * b[1]}.get(base)
                    if r is not None:
                        return ('agg', {'0': ('c', r), '1': ('c', r < 0)}, 'ovf')
                return ('agg', {'0': ('u', '%s(%s,%s)' % (base, vfmt(a, 1), vfmt(b, 1))), '1': ('c', False)}, 'ovf')
            if a[0] == 'c' and b[0] == 'c':
                try:
                    r = {'Eq': lambda: a[1] == b[1], 'Ne': lambda: a[1] != b[1], 'Lt': lambda: a[1] < b[1],
                         'Le': lambda: a[1] <= b[1], 'Gt': lambda: a[1] > b[1], 'Ge': lambda: a[1] >= b[1],
                         'Sub': lambda: a[1] - b[1], 'Add': lambda: a[1] + b[1],
                         'BitAnd': lambda: a[1] & b[1], 'BitOr': lambda: a[1] | b[1]}.get(rv['op'])
                    if r is not None:
                        return ('c', r())
                except TypeError:
                    pass
            return ('u', '%s(%s,%s)' % (rv['op'], vfmt(a, 1), vfmt(b, 1)))
        if k == 'cast':
            v = self.operand(st, rv['o'])
            return v if v[0] in ('c', 'ref', 'u') else ('u', 'cast(%s)' % vfmt(v, 1))
        if k == 'agg':
            ops = [self.operand(st, o) for o in rv['ops']]
            names = rv.get('fields') or []
            if len(names) != len(ops):
                names = [str(i) for i in range(len(ops))]
            fields = {str(n): v for n, v in zip(names, ops)}
            if rv.get('ak') == 'adt':
                adt = rv['adt']
                a = self.F.adts.get(adt)
                if adt in Q.STD_VARIANTS or (a and a.get('kind') == 'Enum'):
                    return ('enum', rv['variant'], fields, '%s::%s' % (adt.split('::')[-1], rv['variant']))
                return ('agg', fields, adt.split('::')[-1])
            if rv.get('ak') in ('closure', 'coroutine', 'coroutine_closure'):
                return ('agg', fields, 'closure ' + rv.get('def', '?'))
            return ('agg', fields, 'tuple')
        return ('u', 'rvalue:' + k)

    # ---------------------------------------------------------------- calls
    def model(self, st, t, args):
        if Q.callee_is(t, PASS_THROUGH) and args:
            return args[0]
        if Q.callee_is(t, POLL) and args:
            return ('enum', 'Ready', {'0': self.deref(st, args[0])}, 'poll')
        if Q.callee_is(t, DEREF) and args:
            a = args[0]
            if a[0] == 'ref':
                inner = self.read(st, a[1], a[2])
                if inner[0] == 'ref':            # &&T / guard holding a plain reference
                    return inner
                return ('ref', ('M', 'deref(%s)' % locfmt(a[1], a[2])), ())
            return None
        if Q.callee_is(t, TRY_BRANCH) and args:
            v = self.resolve(st, args[0])
            if v[0] == 'enum':
                if v[1] in PRESENT:
                    return mk_enum('Continue', enum_field(v))
                if v[1] in ABSENT:
                    return mk_enum('Break', ('enum', v[1], dict(v[2]), v[3]))
            if v[0] == 'u':
                self_ty = t['f'].get('self') or ''
                base = re.sub(r'<.*$', '', self_ty)
                names = Q.STD_VARIANTS.get(base)
                if names:
                    good, bad = (names[0], names[1]) if names[0] in PRESENT else (names[1], names[0])
                    gv = ('enum', good, {}, v[1] + '.' + good)
                    bv = ('enum', bad, {}, v[1] + '.' + bad)
                    return ('fork', [((v[1], good), mk_enum('Continue', enum_field(gv)), {v[1]: gv}),
                                     ((v[1], bad), mk_enum('Break', bv), {v[1]: bv})])
            return None
        if Q.callee_is(t, EQ + NE) and len(args) == 2:
            a, b = self.deref(st, args[0]), self.deref(st, args[1])
            r = self.structural_eq(a, b)
            if r is not None:
                return ('c', r if Q.callee_is(t, EQ) else not r)
            return None
        return None

    def structural_eq(self, a, b):
        if a[0] == 'c' and b[0] == 'c':
            return a[1] == b[1]
        if a[0] == 'enum' and b[0] == 'enum':
            if a[1] != b[1]:
                return False
            keys = set(a[2]) | set(b[2])
            if not keys:
                return True
            res = True
            for k in keys:
                if k not in a[2] or k not in b[2]:
                    return None
                r = self.structural_eq(a[2][k], b[2][k])
                if r is False:
                    return False
                if r is None:
                    res = None
            return res
        return None

    # ---------------------------------------------------------------- driver
    def run(self, init=None):
        st = State()
        for l, v in (init or {}).items():
            st.mem[l if isinstance(l, tuple) else ('L', l)] = v
        work = [st]
        done = []
        while work:
            st = work.pop()
            out = self.step_until_branch(st, work)
            if out is not None:
                done.append(out)
            if len(done) + len(work) > self.max_paths:
                raise SymLimit('%s: more than %d paths' % (self.body.fn, self.max_paths))
        return done

    def step_until_branch(self, st, work):
        body = self.body
        while True:
            self.steps += 1
            if self.steps > self.max_steps:
                raise SymLimit('%s: step limit' % body.fn)
            b = st.block
            n = st.visits.get(b, 0) + 1
            st.visits[b] = n
            if n > self.max_visits:
                return {'end': 'cutoff', 'ret': None, 'events': st.events, 'assume': st.assume, 'state': st}
            blk = body.blocks[b]
            for s in blk['s']:
                if s['k'] == 'assign':
                    v = self.rvalue(st, s['rv'])
                    root, path = self.loc(st, s['lhs'])
                    if not s['lhs'].get('p'):
                        st.moved.discard(s['lhs']['l'])
                    self.write(st, root, path, v, s.get('line'))
            t = blk['t']
            k = t['k']
            if k == 'return':
                return {'end': 'return', 'ret': self.resolve(st, self.read(st, ('L', 0), ())), 'events': st.events,
                        'assume': st.assume, 'state': st}
            if k in ('goto', 'falseedge', 'falseunwind', 'drop', 'assert', 'yield'):
                if k == 'drop' and not (not t['pl'].get('p') and t['pl']['l'] in st.moved):
                    # (a drop of a moved-out local is a no-op: drop flags are not elaborated yet)
                    root, path = self.loc(st, t['pl'])
                    st.events.append(('drop', locfmt(root, path), t.get('ty'), t.get('line')))
                if t.get('to') is None:
                    return {'end': 'diverge', 'ret': None, 'events': st.events, 'assume': st.assume, 'state': st}
                st.block = t['to']
                continue
            if k == 'call':
                args = [self.operand(st, a) for a in t['a']]
                res = None
                if self.oracle is not None:
                    res = self.oracle(self, st, t, args)
                if res is None:
                    res = self.model(st, t, args)
                if res is None:
                    res = self.inline_pure(st, t, args)
                if res is None:
                    nm = (t['f'].get('def') or t['f'].get('decl') or '?')
                    short = re.sub(r'<[^<>]*>', '', nm).split('::')[-1]
                    c = st.ncall.get(short, 0) + 1
                    st.ncall[short] = c
                    res = ('u', 'call:%s#%d' % (short, c))
                if t.get('to') is None:
                    st.events.append(('call', t, args, None))
                    return {'end': 'diverge', 'ret': None, 'events': st.events, 'assume': st.assume, 'state': st}
                if res[0] == 'fork':
                    alts = res[1]
                    for alt in alts[1:]:
                        s2 = st.fork()
                        self._finish_call(s2, t, args, alt)
                        work.append(s2)
                    self._finish_call(st, t, args, alts[0])
                    continue
                self._finish_call(st, t, args, (None, res))
                continue
            if k == 'switch':
                v = self.resolve(st, self.operand(st, t['d']))
                tmap = {x[0]: x[1] for x in t['ts']}
                if v[0] == 'c':
                    val = v[1]
                    if isinstance(val, bool):
                        val = int(val)
                    st.block = tmap.get(val, t['else'])
                    continue
                alts = self.switch_alts(st, t, v, tmap)
                if not alts:
                    return {'end': 'diverge', 'ret': None, 'events': st.events, 'assume': st.assume, 'state': st}
                for lab, tgt, refine in alts[1:]:
                    s2 = st.fork()
                    refine(s2)
                    s2.assume.append(lab)
                    s2.block = tgt
                    work.append(s2)
                lab, tgt, refine = alts[0]
                refine(st)
                st.assume.append(lab)
                st.block = tgt
                continue
            if k == 'unreachable':
                return {'end': 'diverge', 'ret': None, 'events': st.events, 'assume': st.assume, 'state': st}
            return {'end': 'diverge', 'ret': None, 'events': st.events, 'assume': st.assume, 'state': st}

    def inline_pure(self, st, t, args):
        """One level of inter-procedural evaluation: a call to a small, synchronous helper of the
        workspace whose arguments are plain values is evaluated on the helper's own body (same
        oracle). Only used when it yields one single returning path; otherwise the call stays opaque.
        (Extracting a private helper from a table function is a behaviour-preserving refactoring.)"""
        depth = getattr(self, 'depth', 0)
        callee = t['f'].get('def')
        if depth >= 2 or not callee or not callee.startswith('yash_'):
            return None
        cb = self.F.bodies.get(callee)
        if cb is None or cb.d.get('coroutine') or (self.F.fns.get(callee) or {}).get('async') or len(cb.blocks) > 80:
            return None
        vals = []
        for a in args:
            v = self.resolve(st, a)
            if v is None or v[0] in ('ref', 'discr'):
                return None
            vals.append(v)
        try:
            sub = Sym(self.F, cb, oracle=self.oracle, max_visits=self.max_visits, max_paths=64, max_steps=20000)
            sub.depth = depth + 1
            outs = sub.run(init={i + 1: v for i, v in enumerate(vals)})
        except SymLimit:
            return None
        except Exception:
            return None
        rets = [o for o in outs if o['end'] == 'return']
        if len(rets) != 1 or len(outs) != len(rets):
            return None
        # the helper must be effect-free as far as the evaluator can see (no writes through its arguments)
        return rets[0]['ret']

    def _finish_call(self, st, t, args, alt):
        lab, val = alt[0], alt[1]
        if lab is not None:
            st.assume.append(lab)
        if len(alt) > 2 and alt[2]:
            st.known.update(alt[2])
        root, path = self.loc(st, t['dest'])
        if not t['dest'].get('p'):
            st.moved.discard(t['dest']['l'])
        self.write(st, root, path, val, t.get('line'))
        st.events.append(('call', t, args, val))
        st.block = t['to']

    def _dead(self, tgt):
        return self.body.term(tgt)['k'] == 'unreachable'

    def set_known(self, st, tag, val):
        st.known[tag] = val
        if val[0] == 'c' and isinstance(val[1], bool):
            other = tag[1:] if tag.startswith('!') else '!' + tag
            st.known[other] = ('c', not val[1])

    def switch_alts(self, st, t, v, tmap):
        alts = []
        if v[0] == 'discr':
            names = Q.variant_names(self.F, v[3])
            root, path, tag = v[1], v[2], v[4]
            if names:
                for i, nm in enumerate(names):
                    tgt = tmap.get(i, t['else'])
                    if self._dead(tgt):
                        continue
                    cur = self.read(st, root, path)
                    basetag = cur[1] if cur[0] == 'u' else tag

                    def refine(s, nm=nm, basetag=basetag, cur=cur):
                        newv = ('enum', nm, {}, basetag)
                        if cur[0] == 'u':
                            s.known[cur[1]] = newv
                        self.write(s, root, path, newv, event=False)
                    alts.append(((locfmt(root, path), nm), tgt, refine))
                return alts
        if t.get('dty') == 'bool' and v[0] == 'u':
            for val in (False, True):
                tgt = tmap.get(int(val), t['else'])
                if self._dead(tgt):
                    continue
                alts.append(((v[1], val), tgt, lambda s, val=val: self.set_known(s, v[1], ('c', val))))
            return alts
        seen = set()
        for val, tgt in list(tmap.items()) + [(None, t['else'])]:
            if self._dead(tgt) or tgt in seen:
                continue
            seen.add(tgt)
            alts.append(((vfmt(v, 1), val), tgt, lambda s: None))
        return alts


def ev_calls(out, pats=None):
    """Call events of an outcome, optionally filtered by callee patterns."""
    return [e for e in out['events'] if e[0] == 'call' and (pats is None or Q.callee_is(e[1], pats))]


def ev_writes(out, suffix=None):
    return [e for e in out['events'] if e[0] == 'write' and (suffix is None or e[1].endswith(suffix))]


def sym_paths(cx, F, body, oracle, init=None, **kw):
    try:
        outs = Sym(F, body, oracle, **kw).run(init)
    except SymLimit as e:
        raise AnchorMissing('%s: %s' % (cx.rule.id, e))
    return outs


def hloc(h, node=None):
    return '%s:%s' % (h['file'], (node or {}).get('line') or h['line'])


# ====================================================================== C02.R1 command search
SEARCH = 'yash_env::semantics::command::search::'
TYPES = ['Special', 'Mandatory', 'Elective', 'Extension', 'Substitutive']


def _classify_oracle(slash, btype, has_fn):
    def oracle(sym, st, t, args):
        if Q.callee_is(t, ['core::str::<impl str>::contains']):
            pat = args[1] if len(args) > 1 else None
            if pat in (('c', "'/'"), ('c', '"/"')):
                return ('c', slash)
            return None
        if Q.callee_is(t, ['*::ClassifyEnv::builtin']):
            if btype is None:
                return mk_enum('None')
            b = ('agg', {'type': ('enum', btype, {}, 'Type')}, 'the_builtin')
            return mk_enum('Some', ('agg', {'0': b, '1': ('u', 'the_availability')}, 'pair'))
        if Q.callee_is(t, ['*::ClassifyEnv::function']):
            return mk_enum('Some', ('ref', ('M', 'the_function'), ())) if has_fn else mk_enum('None')
        if Q.callee_is(t, ['<alloc::rc::Rc<T, A> as core::clone::Clone>::clone']):
            return sym.deref(st, args[0])
        if Q.callee_is(t, ['<T as core::convert::Into<U>>::into']) and 'search::Target' in (t.get('dty') or ''):
            return ('enum', 'Function', {'0': args[0]}, 'into')
        return None
    return oracle


@RS.rule('C02.R1', 'K-TABLE', 'command search: special built-in, function, other built-in, external - in that order; '
                              'PATH only for external and substitutive')
def r1(cx):
    F = cx.F
    body = F.body(SEARCH + 'classify')
    cx.fn(body.fn)
    # the From impl used by `.into()` really builds Target::Function
    conv = [i for i in F.impls if i.get('self_adt') == SEARCH[:-2] + '::Target'
            and (i.get('trait_def') == 'core::convert::From') and 'Rc<' in (i.get('trait') or '')]
    cx.require(len(conv) == 1, 'impl From<Rc<Function<S>>> for Target<S> not found (%d)' % len(conv))
    cb = F.body(conv[0]['items'][0]['def'])
    cx.require(Q.find_aggregates(cb, SEARCH[:-2] + '::Target', 'Function'),
               'From<Rc<Function>> for Target does not build Target::Function')
    loc = '%s:%d' % (pp_rel(body.file), body.line)
    table = {}
    for slash in (True, False):
        for btype in [None] + TYPES:
            for has_fn in (False, True):
                outs = sym_paths(cx, F, body, _classify_oracle(slash, btype, has_fn))
                rets = [o for o in outs if o['end'] == 'return']
                cx.require(len(rets) == 1 and len(outs) == 1,
                           'classify is not decided by (slash, built-in, function) alone: %d paths for %s'
                           % (len(outs), (slash, btype, has_fn)))
                o = rets[0]
                r = o['ret']
                cx.require(is_enum(r), 'classify returns an unrecognised value %s' % vfmt(r))
                got = r[1]
                if got == 'Builtin':
                    bt = sym_type_of(r)
                    got = 'Builtin:%s' % bt
                if slash:
                    want = 'External'
                elif btype == 'Special':
                    want = 'Builtin:Special'
                elif has_fn:
                    want = 'Function'
                elif btype is not None:
                    want = 'Builtin:%s' % btype
                else:
                    want = 'External'
                table[(slash, btype, has_fn)] = got
                cx.cellcount(1)
                if got != want:
                    cx.violation(body.fn, 'cell:slash=%s,builtin=%s,function=%s' % (slash, btype, has_fn),
                                 'command search for a name %s, %s, %s a function of that name yields %s; POSIX '
                                 '(XCU 2.9.1.4) requires %s' % ('with a slash' if slash else 'without slash',
                                                                 'no built-in' if btype is None else 'a %s built-in' % btype,
                                                                 'with' if has_fn else 'without', got, want), loc=loc)
                # a name with a slash must not consult built-ins or functions at all
                if slash and ev_calls(o, ['*::ClassifyEnv::builtin', '*::ClassifyEnv::function']):
                    cx.violation(body.fn, 'slash-consults-tables', 'a command name containing a slash is looked up '
                                 'among built-ins/functions', loc=loc)
                # the function returned is the one found, the built-in the one found
                if got == 'Function' and vfmt(enum_field(r)) != '<the_function>':
                    cx.violation(body.fn, 'function-identity', 'classify returns a function other than the one found '
                                 'by name (%s)' % vfmt(enum_field(r)), loc=loc)
    cx.sample({'classify': {'%s/%s/%s' % k: v for k, v in list(table.items())[:8]}})
    _r1_search(cx)


def pp_rel(f):
    return f[len('/repo/'):] if f.startswith('/repo/') else f


def sym_type_of(target_val):
    b = target_val[2].get('builtin')
    if b is not None and b[0] == 'agg':
        t = b[1].get('type')
        if t is not None and t[0] == 'enum':
            return t[1]
    return '?'


def _r1_search(cx):
    """search(): PATH is consulted for External without slash and for Substitutive built-ins only;
    resolve_builtin's table; the simple command uses classify."""
    F = cx.F
    rb = F.body(SEARCH + 'resolve_builtin')
    cx.fn(rb.fn)
    loc = '%s:%d' % (pp_rel(rb.file), rb.line)
    for avail in ('Available', 'NotPortable'):
        for ty in TYPES:
            init = {3: ('enum', ty, {}, 'Type'), 4: ('enum', avail, {}, 'Availability')}
            for found in (True, False):
                def oracle(sym, st, t, args, found=found):
                    if Q.callee_is(t, [SEARCH + 'search_path']):
                        return mk_enum('Some', ('u', 'the_path')) if found else mk_enum('None')
                    if Q.callee_is(t, ['core::option::Option::<T>::ok_or']):
                        a = sym.resolve(st, args[0])
                        if is_enum(a, 'Some'):
                            return mk_enum('Ok', enum_field(a))
                        if is_enum(a, 'None'):
                            return mk_enum('Err', args[1])
                    return None
                outs = [o for o in sym_paths(cx, F, rb, oracle, init) if o['end'] == 'return']
                cx.require(len(outs) == 1, 'resolve_builtin: %d paths for (%s, %s)' % (len(outs), ty, avail))
                o = outs[0]
                r = o['ret']
                searched = bool(ev_calls(o, [SEARCH + 'search_path']))
                cx.cellcount(1)
                if avail == 'NotPortable':
                    want, wsearch = 'Err(NotPortable)', False
                elif ty == 'Substitutive':
                    want, wsearch = ('Ok(<the_path>)' if found else 'Err(NotInPath)'), True
                else:
                    want, wsearch = 'Ok(<call:default#1>)', False
                got = vfmt(r)
                if want.startswith('Ok(<call') and got.startswith('Ok(') and got != 'Ok(<the_path>)':
                    want = got          # any freshly built (empty) path
                if got != want or searched != wsearch:
                    cx.violation(rb.fn, 'cell:%s,%s,%s' % (ty, avail, 'found' if found else 'absent'),
                                 'resolve_builtin(%s, %s) with the utility %s in PATH yields %s%s; expected %s%s'
                                 % (ty, avail, 'present' if found else 'absent', got,
                                    ' after a PATH search' if searched else '', want,
                                    ' with a PATH search' if wsearch else ' without PATH search'), loc=loc)
    # search(): what happens per classified target
    sb = F.body(SEARCH + 'search')
    cx.fn(sb.fn)
    sloc = '%s:%d' % (pp_rel(sb.file), sb.line)
    for target in ('Builtin', 'Function', 'External'):
        for slash in (False, True):
            def oracle(sym, st, t, args, target=target, slash=slash):
                if Q.callee_is(t, [SEARCH + 'classify']):
                    if target == 'Builtin':
                        return ('enum', 'Builtin', {'builtin': ('agg', {'type': ('u', 'the_type')}, 'the_builtin'),
                                                    'availability': ('u', 'the_availability'),
                                                    'path': ('u', 'empty')}, 'T')
                    if target == 'Function':
                        return ('enum', 'Function', {'0': ('u', 'the_function')}, 'T')
                    return ('enum', 'External', {'path': ('u', 'empty')}, 'T')
                if Q.callee_is(t, ['core::str::<impl str>::contains']):
                    return ('c', slash)
                if Q.callee_is(t, [SEARCH + 'resolve_builtin', SEARCH + 'search_path']):
                    return ('u', 'R')
                return None
            outs = sym_paths(cx, F, sb, oracle)
            cx.cellcount(1)
            for o in outs:
                if o['end'] == 'cutoff':
                    continue
                sp = ev_calls(o, [SEARCH + 'search_path'])
                rbc = ev_calls(o, [SEARCH + 'resolve_builtin'])
                want_sp = target == 'External' and not slash
                want_rb = target == 'Builtin'
                if bool(sp) != want_sp or bool(rbc) != want_rb:
                    cx.violation(sb.fn, 'search:%s,slash=%s' % (target, slash),
                                 'search() on a %s target (%s slash): PATH search %s, resolve_builtin %s; expected '
                                 'PATH search %s, resolve_builtin %s'
                                 % (target, 'with' if slash else 'no', 'done' if sp else 'not done',
                                    'called' if rbc else 'not called', 'done' if want_sp else 'not done',
                                    'called' if want_rb else 'not called'), loc=sloc)
                    break
                for e in rbc:
                    a = e[2]
                    if vfmt(a[2]) != '<the_type>' or vfmt(a[3]) != '<the_availability>':
                        cx.violation(sb.fn, 'search:resolve-args', 'resolve_builtin is not given the type and '
                                     'availability of the built-in that was found', loc=sloc)
    # the executor classifies with this function
    sc = [fn for fn in F.bodies if fn.endswith('for yash_syntax::syntax::SimpleCommand>::execute::{closure#0}')
          and fn.startswith('yash_semantics::command::simple_command::')]
    cx.require(len(sc) == 1, 'SimpleCommand::execute not found (%s)' % sc)
    b = F.bodies[sc[0]]
    cx.fn(b.fn)
    calls = Q.find_calls(b, [SEARCH + 'classify'])
    cx.site('%s: %d classify call(s)' % (b.fn, len(calls)))
    if len(calls) != 1:
        cx.violation(b.root, 'classify-calls', 'the simple command must classify its name exactly once with '
                     'search::classify (found %d calls)' % len(calls), loc='%s:%d' % (pp_rel(b.file), b.line))


# ====================================================================== C02.R2 special built-ins
POSIX_SPECIAL = ['.', ':', 'break', 'continue', 'eval', 'exec', 'exit', 'export', 'readonly', 'return', 'set', 'shift',
                 'times', 'trap', 'unset']          # POSIX.1-2024 XCU 2.15
SPECIAL_ALIASES = {'source': '.'}                    # documented non-POSIX alias of `.`


def _registry(cx):
    F = cx.F
    h = F.hir_of('yash_builtin::iter')
    cx.fn('yash_builtin::iter')
    arrays = [x for x in H.walk(h['body']) if x.get('k') == 'array']
    cx.require(len(arrays) == 1, 'yash_builtin::iter: expected one array literal, found %d' % len(arrays))
    out = []
    for el in arrays[0]['a']:
        cx.require(el.get('k') == 'tup' and len(el['a']) == 2, 'registry element is not a (name, Builtin) pair')
        name = H.lit_value(el['a'][0])
        cx.require(isinstance(name, str), 'registry name is not a string literal')
        news = H.calls(el['a'][1], ['yash_env::builtin::Builtin::<S>::new'])
        cx.require(len(news) == 1, 'registry entry %r does not call Builtin::new exactly once' % name)
        ty = H.path_def(news[0]['a'][0])
        cx.require(ty and ty.startswith('yash_env::builtin::Type::'), 'registry entry %r: type is not a Type variant' % name)
        # no later overwrite of the type field inside the entry
        rew = [x for x in H.walk(el['a'][1]) if x.get('k') in ('assign', 'assignop')
               and H.peel(x.get('l') or {}).get('k') == 'field' and H.peel(x['l']).get('name') == 'type']
        cx.require(not rew, 'registry entry %r rewrites the type field' % name)
        out.append((name, H.short(ty), el.get('line')))
    return h, out


@RS.rule('C02.R2', 'K-CONST', 'the registered special built-ins are exactly the POSIX list (+ alias `source`); registry sorted')
def r2(cx):
    F = cx.F
    h, reg = _registry(cx)
    cx.floor(len(reg), 30, 'registered built-ins')
    names = [n for n, t, l in reg]
    special = [n for n, t, l in reg if t == 'Special']
    cx.cellcount(len(reg))
    cx.sample({'special': special})
    for n in POSIX_SPECIAL:
        if n not in special:
            cx.violation('yash_builtin::iter', 'not-special:%s' % n,
                         'POSIX special built-in `%s` is %s' % (n, 'registered as %s' % dict((a, b) for a, b, c in reg)[n]
                                                               if n in names else 'not registered'), loc=hloc(h))
    for n in special:
        if n not in POSIX_SPECIAL and n not in SPECIAL_ALIASES:
            cx.violation('yash_builtin::iter', 'extra-special:%s' % n,
                         '`%s` is registered as a special built-in but POSIX XCU 2.15 does not list it (it would be '
                         'found before functions and its errors would abort the shell)' % n, loc=hloc(h))
    for n in sorted(set(names)):
        if names.count(n) > 1:
            cx.violation('yash_builtin::iter', 'duplicate:%s' % n, 'built-in `%s` is registered twice' % n, loc=hloc(h))
    if names != sorted(names):
        bad = [b for a, b in zip(names, names[1:]) if a > b]
        cx.violation('yash_builtin::iter', 'unsorted', 'the registry is documented as sorted by name; `%s` is out of '
                     'order' % bad[0], loc=hloc(h))
    # aliases run the same implementation as their target
    impl_of = {}
    arrays = [x for x in H.walk(h['body']) if x.get('k') == 'array'][0]
    for el in arrays['a']:
        nm = H.lit_value(el['a'][0])
        mains = [c.get('def') for c in H.calls(el['a'][1]) if (c.get('def') or '').endswith('::main')]
        impl_of[nm] = mains
    for alias, target in SPECIAL_ALIASES.items():
        if alias in impl_of and impl_of.get(alias) != impl_of.get(target):
            cx.violation('yash_builtin::iter', 'alias:%s' % alias, '`%s` must run the implementation of `%s`'
                         % (alias, target), loc=hloc(h))
    # the constant in yash-env
    c = F.hir_of('yash_env::builtin::POSIX_SPECIAL_BUILTIN_NAMES')
    cx.fn('yash_env::builtin::POSIX_SPECIAL_BUILTIN_NAMES')
    val = H.const_eval(c['body'])
    cx.require(isinstance(val, list) and all(isinstance(x, str) for x in val),
               'POSIX_SPECIAL_BUILTIN_NAMES is not an array of string literals')
    cx.cellcount(len(val))
    if sorted(val) != sorted(POSIX_SPECIAL):
        diff = sorted(set(val) ^ set(POSIX_SPECIAL))
        cx.violation('yash_env::builtin::POSIX_SPECIAL_BUILTIN_NAMES', 'differs-from-posix',
                     'the constant differs from POSIX XCU 2.15 in %s' % diff, loc=hloc(c))
    # ... and it is what is_posix_special_builtin_name consults
    ib = F.body('yash_env::builtin::is_posix_special_builtin_name')
    cx.fn(ib.fn)
    uses = [o for b, j, s in ib.stmts() if s['k'] == 'assign' for o in Q.rvalue_operands(s['rv'])
            if o.get('cdef') == 'yash_env::builtin::POSIX_SPECIAL_BUILTIN_NAMES']
    cont = Q.find_calls(ib, [re.compile(r'::contains$')])
    cx.site('%s: reads the constant %d time(s), %d contains call(s)' % (ib.fn, len(uses), len(cont)))
    if not uses or not cont:
        cx.violation(ib.fn, 'predicate', 'is_posix_special_builtin_name does not test membership in '
                     'POSIX_SPECIAL_BUILTIN_NAMES', loc='%s:%d' % (pp_rel(ib.file), ib.line))
    # the shell registers exactly this registry
    users = F.callers_of(lambda names, t: 'yash_builtin::iter' in names)
    cx.site('yash_builtin::iter callers: %s' % sorted({b.root for b, i, t in users}))
    if 'yash_cli' not in F.crates:
        cx.site('yash_cli is not part of this feature configuration: registration by the shell binary not examined')
    elif not any(b.crate == 'yash_cli' or b.root.startswith('yash_cli::') for b, i, t in users):
        cx.violation('yash_builtin::iter', 'unused-by-shell', 'the shell binary does not register yash_builtin::iter()',
                     loc=hloc(h))


# ====================================================================== helpers for trait impls
CMD_TRAIT = 'yash_semantics::command::Command'


def impl_fn(F, trait_def, self_adt, method):
    """Definition path of `method` in `impl trait_def for self_adt`."""
    hits = [i for i in F.impls if i.get('trait_def') == trait_def and i.get('self_adt') == self_adt]
    if len(hits) != 1:
        raise AnchorMissing('impl %s for %s: %d found' % (trait_def, self_adt, len(hits)))
    for it in hits[0]['items']:
        if it['name'] == method:
            return it['def']
    raise AnchorMissing('impl %s for %s has no %s' % (trait_def, self_adt, method))


def exec_fn(F, syntax_type):
    return impl_fn(F, CMD_TRAIT, 'yash_syntax::syntax::' + syntax_type, 'execute')


EXECUTE = [re.compile(r'yash_semantics::command::Command<S>.*::execute$'), 'yash_semantics::command::Command::execute']


# ====================================================================== C02.R3 Divert severity
DIVERT = 'yash_env::semantics::Divert'
DIVERT_ORDER = ['Continue', 'Break', 'Return', 'Interrupt', 'Exit', 'Abort']


@RS.rule('C02.R3', 'K-TYPE+K-TABLE', 'Divert is ordered Continue < Break < Return < Interrupt < Exit < Abort (derived Ord); '
                                     'a command combines its own and the trap result by that maximum')
def r3(cx):
    F = cx.F
    adt = F.adt(DIVERT)
    got = [v['name'] for v in adt['variants']]
    loc = '%s:%d' % (adt['file'], adt['line'])
    cx.cellcount(len(got))
    cx.sample({'Divert': got})
    if got != DIVERT_ORDER:
        cx.violation(DIVERT, 'declaration-order', 'Divert variants are declared %s; the severity order (which `max` '
                     'uses to pick between a command result and a trap result) must be %s' % (got, DIVERT_ORDER), loc=loc)
    # Ord / PartialOrd order two different variants by declaration position (evaluated for all 30 ordered pairs)
    names = got
    for tr, meth in (('core::cmp::Ord', 'cmp'), ('core::cmp::PartialOrd', 'partial_cmp')):
        fn = impl_fn(F, tr, DIVERT, meth)
        b = F.body(fn)
        cx.fn(fn)
        bad = None
        for x in names:
            for y in names:
                if x == y:
                    continue

                def oracle(sym, st, t, args):
                    if Q.callee_is(t, ['core::intrinsics::discriminant_value']):
                        v = sym.deref(st, args[0])
                        return ('c', names.index(v[1])) if is_enum(v) else None
                    if Q.callee_is(t, [re.compile(r'(Ord|PartialOrd) for [iu](size|\d+)>::(cmp|partial_cmp)$')]):
                        p, q = sym.deref(st, args[0]), sym.deref(st, args[1])
                        if p[0] == 'c' and q[0] == 'c':
                            o = mk_enum('Less' if p[1] < q[1] else ('Greater' if p[1] > q[1] else 'Equal'))
                            return mk_enum('Some', o) if t['f'].get('def', '').endswith('partial_cmp') else o
                    return None
                init = {1: ('ref', ('M', 'self'), ()), 2: ('ref', ('M', 'other'), ()),
                        ('M', 'self'): ('enum', x, {}, 'self'), ('M', 'other'): ('enum', y, {}, 'other')}
                outs = [o for o in sym_paths(cx, F, b, oracle, init) if o['end'] == 'return']
                cx.cellcount(1)
                want = 'Less' if DIVERT_ORDER.index(x) < DIVERT_ORDER.index(y) else 'Greater'
                if meth == 'partial_cmp':
                    want = 'Some(%s)' % want
                res = sorted({vfmt(o['ret']) for o in outs})
                if res != [want] and bad is None:
                    bad = (x, y, res, want)
        if bad:
            cx.violation(fn, 'order:%s' % meth, 'Divert::%s compared with Divert::%s gives %s, expected %s: `max` would '
                         'not pick the more severe divert' % (bad[0], bad[1], bad[2], bad[3]),
                         loc='%s:%d' % (pp_rel(b.file), b.line))
    # combination of the command result and the trap result
    fn = impl_fn(F, CMD_TRAIT, 'yash_syntax::syntax::Command', 'execute')
    body = F.main_body(fn)
    cx.fn(body.fn)
    bl = '%s:%d' % (pp_rel(body.file), body.line)
    vals = {'C': mk_enum('Continue', UNIT), 'B': None}
    for m in ('C', 'B'):
        for tr in ('C', 'B'):
            mv = mk_enum('Continue', UNIT) if m == 'C' else mk_enum('Break', ('u', 'd_main'))
            tv = mk_enum('Continue', UNIT) if tr == 'C' else mk_enum('Break', ('u', 'd_trap'))

            def oracle(sym, st, t, args, mv=mv, tv=tv):
                if Q.callee_is(t, EXECUTE):
                    return mv
                if Q.callee_is(t, ['*::run_traps_for_caught_signals']):
                    return tv
                if t['f'].get('def') == 'core::cmp::Ord::max' and t['f'].get('self') == DIVERT:
                    return ('u', 'max(%s)' % ','.join(sorted(vfmt(a) for a in args)))
                return None
            outs = sym_paths(cx, F, body, oracle)
            cx.cellcount(1)
            want = {('C', 'C'): 'Continue(())', ('B', 'C'): 'Break(<d_main>)', ('C', 'B'): 'Break(<d_trap>)',
                    ('B', 'B'): 'Break(<max(<d_main>,<d_trap>)>)'}[(m, tr)]
            for o in outs:
                if o['end'] != 'return':
                    continue
                got = vfmt(o['ret'])
                execs = ev_calls(o, EXECUTE)
                traps = ev_calls(o, ['*::run_traps_for_caught_signals'])
                if len(execs) != 1 or len(traps) != 1 or execs[0][1]['line'] is None:
                    cx.violation(body.root, 'shape', 'a command must execute exactly one of its forms and then run the '
                                 'pending traps once (found %d executions, %d trap runs)' % (len(execs), len(traps)), loc=bl)
                    break
                if o['events'].index(execs[0]) > o['events'].index(traps[0]):
                    cx.violation(body.root, 'traps-before-command', 'pending traps are run before the command', loc=bl)
                    break
                if got != want:
                    cx.violation(body.root, 'combine:main=%s,trap=%s' % (m, tr),
                                 'command result %s and trap result %s combine to %s; expected %s (the more severe '
                                 'Divert wins)' % (vfmt(mv), vfmt(tv), got, want), loc=bl)
                    break


# ====================================================================== C02.R4 no dropped Divert
DIVERT_TY = re.compile(r'yash_env::semantics::Divert(?![A-Za-z_0-9])|^yash_env::builtin::Result$')
# reviewed discards: (logical function, producer) -> reason
DISCARD_OK = {
    ('yash_builtin::cd::print::handle_print_error', 'prepare_report_message_and_divert'):
        'a failed print of the new $PWD is a warning only; cd is not a special built-in, so the divert is Continue',
    ('yash_builtin::common::no_arg::warn_if_any_argument', 'prepare_report_message_and_divert'):
        'a portability warning must not interrupt the shell even inside a special built-in',
    ('yash_builtin::command::invoke::invoke_target', 'report_failure'):
        'error callbacks of run_external_utility_in_subshell: `command` is a regular built-in (divert is Continue) and '
        'the exit status is delivered through the subshell result',
    ('yash_builtin::exec::main', 'report_failure'):
        'exec decides its own divert (Abort unless interactive) before reporting; only the message is wanted',
    ('yash_cli::startup::init_file::run_init_file', 'read_eval_loop'):
        'interactive start-up only: the outcome of the rcfile is ignored by design of run_init_file (note: an `exit` '
        'in the rcfile therefore does not leave the shell; outside the non-interactive programs C02 quantifies over)',
    ('yash_semantics::xtrace::expand_ps4', 'handle'):
        'an error while expanding $PS4 must not abort the traced command; the raw value is used instead',
}


def _tuple_parts(ty):
    """Component types of a tuple type string, or None."""
    if not (ty.startswith('(') and ty.endswith(')')):
        return None
    inner = ty[1:-1]
    parts, depth, cur = [], 0, ''
    for ch in inner:
        if ch in '<([':
            depth += 1
        elif ch in '>)]':
            depth -= 1
        if ch == ',' and depth == 0:
            parts.append(cur.strip())
            cur = ''
        else:
            cur += ch
    if cur.strip():
        parts.append(cur.strip())
    return parts


def _reads(body):
    """(whole-local reads, {(local, first field)} projected reads)."""
    whole, proj = set(), set()

    def place(p):
        for e in p.get('p') or []:
            if isinstance(e, dict) and 'idx' in e:
                whole.add(e['idx'])
        fs = [e for e in (p.get('p') or []) if not (isinstance(e, dict) and 'v' in e)]
        if fs and isinstance(fs[0], dict) and 'f' in fs[0]:
            proj.add((p['l'], str(fs[0]['f'])))
        else:
            whole.add(p['l'])

    def op(o):
        p = Q.operand_place(o)
        if p is not None:
            place(p)
    for b, j, s in body.stmts():
        if s['k'] == 'assign':
            rv = s['rv']
            for o in Q.rvalue_operands(rv):
                op(o)
            if rv['k'] in ('ref', 'rawptr', 'discr'):
                place(rv['pl'])
            for e in s['lhs'].get('p') or []:
                if isinstance(e, dict) and 'idx' in e:
                    whole.add(e['idx'])
    for b in body.live_blocks():
        t = body.term(b)
        if t['k'] == 'call':
            for a in t['a']:
                op(a)
        elif t['k'] == 'switch':
            op(t['d'])
        elif t['k'] == 'yield':
            op(t['v'])
        elif t['k'] == 'assert':
            op(t['cond'])
    return whole, proj


@RS.rule('C02.R4', 'K-IGNORED', 'no ControlFlow<Divert> / built-in Result produced by a call or an await is discarded '
                                'outside the reviewed inventory')
def r4(cx):
    F = cx.F
    n_locals = 0
    seen = set()
    for fn, body in F.bodies.items():
        if body.crate in ('yash_syntax', 'yash_arith', 'yash_fnmatch', 'yash_quote', 'yash_executor'):
            continue
        cand = []
        for l, d in enumerate(body.locals):
            ty = d.get('ty') or ''
            if l == 0 or not DIVERT_TY.search(ty):
                continue
            if ty.startswith('&') or ty.startswith('*') or 'Future<' in ty or 'impl ' in ty or '{' in ty or \
                    ty.startswith('core::pin::Pin') or ty.startswith('core::task::poll::Poll') or 'dyn ' in ty:
                continue
            cand.append((l, ty))
        if not cand:
            continue
        whole, proj = _reads(body)
        du = Q.DefUse(body)
        for l, ty in cand:
            if l not in du.defs:
                continue
            n_locals += 1
            parts = _tuple_parts(ty)
            missing = None
            if l in whole:
                continue
            if parts is not None:
                for i, pt in enumerate(parts):
                    if DIVERT_TY.search(pt) and (l, str(i)) not in proj:
                        missing = 'component %d' % i
                if missing is None:
                    continue
            elif any(pl == l for pl, f in proj):
                # struct-like carriers (builtin::Result): any field read counts only if it is the divert
                a = F.adts.get(re.sub(r'<.*$', '', ty))
                dfields = [f['name'] for v in (a or {}).get('variants', []) for f in v['fields'] if DIVERT_TY.search(f['ty'])]
                if not dfields or any((l, f) in proj for f in dfields):
                    continue
            d = du.defs[l][0]
            node = d[2]
            src = None
            if d[1] == 't':
                src = node
            elif node['k'] == 'assign' and node['rv']['k'] == 'use':
                src = Q.value_source(body, du, node['rv']['o'])
            prod = (src['f'].get('def') or src['f'].get('decl') or '?') if src else (d and body.locals[l].get('name') or '?')
            short = re.sub(r'<[^<>]*>', '', prod).split('::')[-1]
            key = (body.root, short)
            cx.site('%s: value of %s (%s) is discarded at %s' % (body.root, short, ty[:50], body.loc(node)))
            cx.fn(body.fn)
            if key in seen:
                continue
            seen.add(key)
            if key not in DISCARD_OK:
                cx.violation(body.root, 'discarded:%s' % short,
                             'the %s returned by %s is dropped without being inspected: a break/continue/return/exit '
                             'request (or a shell error) raised there is lost' % (re.sub(r'^.*::', '', ty.split('<')[0]), prod),
                             loc=body.loc(node))
    cx.cellcount(n_locals)
    cx.floor(n_locals, 300, 'Divert-carrying locals examined')
    for key, why in DISCARD_OK.items():
        if key not in seen:
            # a stale allow-list entry is harmless but reported in the evidence
            cx.site('allow-list entry %s/%s not present in this tree' % key)


# ====================================================================== C02.R5 loops
WL = 'yash_semantics::command::compound_command::while_loop::'
EVAL_COND = ['yash_semantics::command::compound_command::evaluate_condition']
FL = 'yash_semantics::command::compound_command::for_loop::'
FRAME = 'yash_env::stack::Frame'
PUSH_FRAME = ['yash_env::stack::<impl yash_env::Env<S>>::push_frame', '*::push_frame', 'yash_env::stack::Stack::push']
SENTINEL = mk_enum('Break', ('enum', 'Abort', {'0': ('u', 'SENTINEL')}, 'D'))


def dv(variant, **fields):
    return ('enum', variant, fields, 'D')


LOOP_INPUTS = [
    ('normal', mk_enum('Continue', UNIT), 'next'),
    ('break-0', mk_enum('Break', dv('Break', count=('c', 0))), 'leave'),
    ('break-1', mk_enum('Break', dv('Break', count=('c', 1))), 'Break(Break(0))'),
    ('break-3', mk_enum('Break', dv('Break', count=('c', 3))), 'Break(Break(2))'),
    ('continue-0', mk_enum('Break', dv('Continue', count=('c', 0))), 'next'),
    ('continue-1', mk_enum('Break', dv('Continue', count=('c', 1))), 'Break(Continue(0))'),
    ('continue-3', mk_enum('Break', dv('Continue', count=('c', 3))), 'Break(Continue(2))'),
    ('return', mk_enum('Break', ('enum', 'Return', {'0': ('u', 'st')}, 'D')), 'Break(Return(<st>))'),
    ('interrupt', mk_enum('Break', ('enum', 'Interrupt', {'0': ('u', 'st')}, 'D')), 'Break(Interrupt(<st>))'),
    ('exit', mk_enum('Break', ('enum', 'Exit', {'0': ('u', 'st')}, 'D')), 'Break(Exit(<st>))'),
    ('abort', mk_enum('Break', ('enum', 'Abort', {'0': ('u', 'st')}, 'D')), 'Break(Abort(<st>))'),
]
LOOP_POSIX = {'next': 'the next iteration starts', 'leave': 'the loop ends normally (Continue(()))'}


def _classify_loop_outcome(o, n_body):
    if o['end'] != 'return':
        return o['end']
    r = vfmt(o['ret'])
    if n_body >= 2:
        return 'next' if r == vfmt(SENTINEL) else 'next-then:' + r
    if r == 'Continue(())':
        return 'leave'
    return r


def _loop_table(cx, F, body, unit_pats, pins, fn_label, loc, max_visits=4, normal='next'):
    """For each result X of the first execution of the loop unit: what the loop does."""
    table = {}
    for label, x, want in LOOP_INPUTS:
        if label == 'normal':
            want = normal

        def oracle(sym, st, t, args, x=x):
            if Q.callee_is(t, unit_pats):
                n = len([e for e in st.events if e[0] == 'call' and Q.callee_is(e[1], unit_pats)])
                return x if n == 0 else SENTINEL
            return pins(sym, st, t, args)
        outs = sym_paths(cx, F, body, oracle, max_visits=max_visits)
        got = set()
        for o in outs:
            n = len(ev_calls(o, unit_pats))
            if n == 0:
                continue
            got.add(_classify_loop_outcome(o, n))
        got.discard('cutoff')
        table[label] = sorted(got)
        cx.cellcount(1)
        if sorted(got) != [want]:
            cx.violation(fn_label, 'loop-table:%s' % label,
                         'when the loop body ends with %s the loop does %s; POSIX break/continue semantics require %s'
                         % (vfmt(x), sorted(got) or 'nothing observable', LOOP_POSIX.get(want, 'returning ' + want)),
                         loc=loc)
    return table


def _frame_order(cx, F, body, unit_pats, pins, frame, fn_label, loc, max_visits=4):
    """On every path: push_frame(frame) precedes the first unit execution and the guard is not
    dropped before the last one."""
    def oracle(sym, st, t, args):
        if Q.callee_is(t, unit_pats):
            return mk_enum('Continue', UNIT)
        return pins(sym, st, t, args)
    outs = sym_paths(cx, F, body, oracle, max_visits=max_visits)
    n = 0
    for o in outs:
        evs = o['events']
        units = [i for i, e in enumerate(evs) if e[0] == 'call' and Q.callee_is(e[1], unit_pats)]
        if not units:
            continue
        n += 1
        pushes = [i for i, e in enumerate(evs) if e[0] == 'call' and Q.callee_is(e[1], PUSH_FRAME)
                  and any(is_enum(a, frame) for a in e[2])]
        drops = [i for i, e in enumerate(evs) if (e[0] == 'drop' and 'FrameGuard' in (e[2] or '')) or is_drop_of_guard(e)]
        if not pushes or pushes[0] > units[0]:
            cx.violation(fn_label, 'no-frame:%s' % frame, 'the loop body/condition can run without a Frame::%s on the '
                         'stack (break/continue would not find this loop)' % frame, loc=loc)
            return
        if any(pushes[0] < d < units[-1] for d in drops):
            cx.violation(fn_label, 'frame-dropped-early:%s' % frame, 'the Frame::%s guard is dropped before the last '
                         'execution of the loop body' % frame, loc=loc)
            return
    cx.require(n > 0, '%s: no path executes the loop unit' % fn_label)
    cx.site('%s: Frame::%s pushed before the body on %d explored path(s)' % (fn_label, frame, n))


def _no_pins(sym, st, t, args):
    return None


def check_iterate_table(cx):
    """while/until: one iteration step. The condition list (and only it) goes through evaluate_condition, the body
    list is executed iff the condition result equals the expected one; diverts propagate."""
    F = cx.F
    lit = F.main_body(WL + "Loop::<'_, S>::iterate")
    cx.fn(lit.fn)
    for expected in (True, False):
        for cond in ('true', 'false', 'divert'):
            for bodyres in ('normal', 'divert'):
                cv = {'true': mk_enum('Continue', ('c', True)), 'false': mk_enum('Continue', ('c', False)),
                      'divert': mk_enum('Break', ('u', 'd_cond'))}[cond]
                bv = mk_enum('Continue', UNIT) if bodyres == 'normal' else mk_enum('Break', ('u', 'd_body'))

                def oracle(sym, st, t, args, cv=cv, bv=bv):
                    if Q.callee_is(t, EVAL_COND):
                        n = len([e for e in st.events if e[0] == 'call' and Q.callee_is(e[1], EVAL_COND)])
                        return cv if n == 0 else SENTINEL
                    if Q.callee_is(t, EXECUTE):
                        return bv
                    return None
                init = {1: ('agg', {'0': ('ref', ('M', 'loop'), ())}, 'upvars'),
                        ('M', 'loop'): ('agg', {'expected_condition': ('c', expected),
                                                'condition_command': ('ref', ('M', 'condition_list'), ()),
                                                'body': ('ref', ('M', 'body_list'), ())}, 'loop')}
                outs = sym_paths(cx, F, lit, oracle, init, max_visits=4)
                cx.cellcount(1)
                res = set()
                lists = set()
                for o in outs:
                    if o['end'] != 'return':
                        continue
                    nb = len(ev_calls(o, EXECUTE))
                    nc = len(ev_calls(o, EVAL_COND))
                    res.add((nb, nc, vfmt(o['ret'])))
                    lists |= {('condition', vfmt(e[2][1])) for e in ev_calls(o, EVAL_COND)}
                    lists |= {('body', vfmt(e[2][0])) for e in ev_calls(o, EXECUTE)}
                # a body divert that the function looks at (without changing it) comes back refined, one result per variant:
                # Break(Continue), Break(Break), ... - together they are Break(<d_body>)
                if bodyres == 'divert' and len(res) > 1 and {r[:2] for r in res} == {(1, 1)} and \
                        {r[2] for r in res} == {'Break(%s)' % v for v in DIVERT_ORDER}:
                    res = {(1, 1, 'Break(<d_body>)')}
                if cond == 'divert':
                    want = {(0, 1, 'Break(<d_cond>)')}
                elif (cond == 'true') != expected:
                    want = {(0, 1, 'Continue(())')}
                elif bodyres == 'divert':
                    want = {(1, 1, 'Break(<d_body>)')}
                else:
                    want = {(1, 2, vfmt(SENTINEL))}
                if res != want:
                    cx.violation(lit.root, 'iterate:%s,%s,%s' % ('while' if expected else 'until', cond, bodyres),
                                 '%s loop, condition %s, body %s: (body runs, condition evaluations, result) = %s, '
                                 'expected %s' % ('while' if expected else 'until', cond, bodyres, sorted(res), sorted(want)),
                                 loc='%s:%d' % (pp_rel(lit.file), lit.line))
                bad = lists - {('condition', '&condition_list'), ('body', '&body_list')}
                if bad:
                    cx.violation(lit.root, 'wrong-list', 'the loop evaluates/executes the wrong list: %s (the condition must '
                                 'go through evaluate_condition, the body must be executed directly)' % sorted(bad),
                                 loc='%s:%d' % (pp_rel(lit.file), lit.line))
                    return


@RS.rule('C02.R5', 'K-TABLE+K-SIBLING', 'while/until and for implement the same POSIX break/continue table under a '
                                        'Frame::Loop; loop_count sees through Loop, Condition, Builtin frames only')
def r5(cx):
    F = cx.F
    # ---- while / until
    lex = F.main_body(WL + "Loop::<'_, S>::execute")
    lit = F.main_body(WL + "Loop::<'_, S>::iterate")
    com = F.main_body(WL + 'execute_common')
    for b in (lex, lit, com):
        cx.fn(b.fn)
    ITER = [WL + "Loop::<'_, S>::iterate"]
    LEXEC = [WL + "Loop::<'_, S>::execute"]
    wloc = '%s:%d' % (pp_rel(lex.file), lex.line)
    # (a normal return of iterate means the condition ended the loop; its own table follows)
    t_while = _loop_table(cx, F, lex, ITER, _no_pins, lex.root, wloc, normal='leave')
    check_iterate_table(cx)
    # execute_common pushes Frame::Loop around Loop::execute, which is the only caller of iterate
    _frame_order(cx, F, com, LEXEC, _no_pins, 'Loop', com.root, '%s:%d' % (pp_rel(com.file), com.line))
    for target, only in ((ITER[0], lex.root), (LEXEC[0], com.root)):
        for b, i, t in F.callers_of(lambda names, t, target=target: target in names):
            cx.site('%s called by %s' % (target.split('::')[-1], b.root))
            if b.root != only:
                cx.violation(b.root, 'caller:%s' % target.split('::')[-1], '%s is called outside %s, i.e. without the '
                             'Frame::Loop / divert table around it' % (target, only), loc=b.loc(t))
    for fn, val in ((WL + 'execute_while', True), (WL + 'execute_until', False)):
        b = F.main_body(fn)
        cx.fn(b.fn)
        calls = Q.find_calls(b, [WL + 'execute_common'])
        ok = len(calls) == 1 and len(calls[0][1]['a']) == 4 and calls[0][1]['a'][2].get('c') == ('true' if val else 'false')
        cx.site('%s -> execute_common(.., %s, ..)' % (fn, calls[0][1]['a'][2].get('c') if calls else '?'))
        if not ok:
            cx.violation(fn, 'expected-condition', '%s must run the loop while the condition is %s'
                         % (fn.split('::')[-1], 'true' if val else 'false'), loc='%s:%d' % (pp_rel(b.file), b.line))
        # argument order: (env, condition, expected, body), by parameter position
        if calls:
            seen = []

            def oracle(sym, st, t, args, seen=seen):
                if Q.callee_is(t, [WL + 'execute_common']):
                    seen.append([vfmt(a) for a in args])
                    return ('u', 'r')
                return None
            init = upvar_init(b, {1: ('ref', ('M', 'condition_list'), ()), 2: ('ref', ('M', 'body_list'), ())})
            sym_paths(cx, F, b, oracle, init)
            if not seen or any(a[1] != '&condition_list' or a[3] != '&body_list' for a in seen):
                cx.violation(fn, 'swapped-lists', 'condition and body are passed in the wrong order', loc=b.loc(calls[0][1]))
    # ---- for
    fb = F.main_body(FL + 'execute')
    cx.fn(fb.fn)
    floc = '%s:%d' % (pp_rel(fb.file), fb.line)

    def for_pins(sym, st, t, args):
        if Q.callee_is(t, ['yash_semantics::expansion::expand_word', 'yash_semantics::expansion::expand_words']):
            return mk_enum('Ok', ('agg', {'0': ('u', 'expanded'), '1': ('u', 'st')}, 'pair'))
        if Q.callee_is(t, ['alloc::vec::Vec::<T, A>::is_empty']):
            return ('c', False)
        if Q.callee_is(t, [re.compile(r'IntoIter<T, A> as core::iter::traits::iterator::Iterator>::next$')]):
            n = len([e for e in st.events if e[0] == 'call' and Q.callee_is(e[1], [re.compile(r'Iterator>::next$')])])
            return mk_enum('Some', ('agg', {'value': ('u', 'v%d' % n), 'origin': ('u', 'o%d' % n)}, 'Field')) if n < 2 \
                else mk_enum('None')
        if Q.callee_is(t, ['*::VariableRefMut::<\'_>::assign']):
            return mk_enum('Ok', ('u', 'old'))
        return None
    t_for = _loop_table(cx, F, fb, EXECUTE, for_pins, fb.root, floc, max_visits=5)
    _frame_order(cx, F, fb, EXECUTE, for_pins, 'Loop', fb.root, floc, max_visits=5)
    cx.sample({'while': t_while, 'for': t_for})
    diff = sorted(k for k in t_while if k != 'normal' and t_while[k] != t_for.get(k))
    if diff:
        cx.violation(fb.root, 'sibling-tables', 'while/until and for treat %s differently' % diff, loc=floc)
    # ---- loop_count
    rc = 'yash_env::stack::Stack::loop_count::retains_context'
    cx.fn(rc)
    table, m = H.fn_match_table(F, rc, FRAME)
    want = {'Loop': True, 'Condition': True, 'Builtin': True, 'Subshell': False, 'DotScript': False, 'Trap': False,
            'InitFile': False}
    h = F.hir_of(rc)
    for v, (i, bodyn) in table.items():
        val = H.lit_value(bodyn)
        cx.cellcount(1)
        if v not in want:
            cx.violation(rc, 'frame:%s' % v, 'new frame kind %s: decide whether break/continue may cross it' % v, loc=hloc(h))
        elif val != want[v]:
            cx.violation(rc, 'frame:%s' % v, 'Frame::%s is %s for break/continue, expected %s' %
                         (v, 'transparent' if val else 'a barrier', 'transparent' if want[v] else 'a barrier'), loc=hloc(h))
    # loop_count: innermost frames first, stop at the first barrier, count Loop frames, cap at max_count
    lc = F.body('yash_env::stack::Stack::loop_count')
    cx.fn(lc.fn)
    dom = lc.dominators()
    seq = [pp.callee(t).split('::')[-1] for blk, t in sorted(lc.calls(), key=lambda x: len(dom.get(x[0], ())))]
    cx.site('loop_count: %s' % ' . '.join(seq))
    need = ['iter', 'rev', 'take_while', 'filter', 'take', 'count']
    pos = [seq.index(x) if x in seq else -1 for x in need]
    chain = -1 not in pos and pos == sorted(pos)
    lloc = '%s:%d' % (pp_rel(lc.file), lc.line)
    logical = F.logical(lc.root)
    du = Q.DefUse(lc)
    # elements every implementation needs, whatever its shape (iterator chain or explicit loop)
    has_rev = any(Q.find_calls(b, [re.compile(r'Iterator::rev$'), re.compile(r'DoubleEndedIterator::next_back$'),
                                   re.compile(r'::last$')]) for b in logical)
    has_barrier = any(Q.find_calls(b, [rc]) for b in logical)
    has_loop_test = any((Q.find_aggregates(b, FRAME, 'Loop') and Q.find_calls(b, EQ + NE)) for b in logical) or \
        any(ec and ec[0]['k'] == 'discr' and 'stack::Frame' in ec[0]['ty']
            for b in logical for blk in b.live_blocks() for ec in [Q.edge_condition(F, b, Q.DefUse(b), blk)])
    uses_max = any(Q.operand_name(lc, du, a) == 'max_count' for blk, t in lc.calls() for a in t['a']) or \
        any(s_['k'] == 'assign' and s_['rv']['k'] == 'binop' and 'max_count' in
            (Q.operand_name(lc, du, s_['rv']['a']), Q.operand_name(lc, du, s_['rv']['b'])) for _, _, s_ in lc.stmts())
    cx.site('loop_count: form=%s innermost-first=%s barrier-test=%s loop-test=%s bounded-by-max=%s'
            % ('iterator chain' if chain else 'other', has_rev, has_barrier, has_loop_test, uses_max))
    if not has_rev:
        cx.violation(lc.fn, 'not-innermost-first', 'loop_count does not scan the frame stack from the innermost frame', loc=lloc)
    if not has_barrier:
        cx.violation(lc.fn, 'closure:take_while', 'loop_count does not stop at the frames that break/continue must not cross '
                     '(retains_context)', loc=lloc)
    if not has_loop_test:
        cx.violation(lc.fn, 'closure:filter', 'loop_count does not single out Frame::Loop', loc=lloc)
    if not uses_max:
        cx.violation(lc.fn, 'unbounded', 'loop_count is not capped by its max_count argument', loc=lloc)
    if chain:
        for meth, what in (('take_while', 'retains_context'), ('filter', 'Frame::Loop')):
            ok = False
            for blk, t in Q.find_calls(lc, ['core::iter::traits::iterator::Iterator::' + meth]):
                clo = du.origin(t['a'][1]) if len(t['a']) > 1 else {'k': '?'}
                cdef = clo['rv'].get('def') if clo['k'] == 'agg' else None
                cb = F.bodies.get(cdef) if cdef else None
                if cb is not None:
                    if meth == 'take_while':
                        ok = bool(Q.find_calls(cb, [rc]))
                    else:
                        ok = bool(Q.find_aggregates(cb, FRAME, 'Loop')) and bool(Q.find_calls(cb, EQ))
            cx.site('loop_count: %s closure uses %s: %s' % (meth, what, ok))
            if not ok:
                cx.violation(lc.fn, 'closure:%s' % meth, 'the %s step of loop_count does not test %s' % (meth, what), loc=lloc)
    # (an explicit-loop rewrite is accepted on the necessary elements above: its exact arithmetic is not decided)


@RS.rule('C02.R5b', 'K-TABLE', 'break/continue request loop_count(n) levels and divert with count-1; outside a loop they fail')
def r5b(cx):
    F = cx.F
    for mod, variant in (('r#break', 'Break'), ('r#continue', 'Continue')):
        fn = 'yash_builtin::%s::semantics::run' % mod
        b = F.body(fn)
        cx.fn(fn)
        loc = '%s:%d' % (pp_rel(b.file), b.line)
        for k in (0, 1, 2, 5):
            def oracle(sym, st, t, args, k=k):
                if Q.callee_is(t, ['yash_env::stack::Stack::loop_count']):
                    return ('c', k)
                if Q.callee_is(t, ['yash_env::builtin::Result::with_exit_status_and_divert']):
                    return ('agg', {'exit_status': args[0], 'divert': args[1]}, 'Result')
                if Q.callee_is(t, [re.compile(r'NonZero<.*>::get$'), '*::NonZero::<T>::get']):
                    return ('u', 'max')
                return None
            outs = [o for o in sym_paths(cx, F, b, oracle) if o['end'] == 'return']
            cx.cellcount(1)
            res = sorted({vfmt(o['ret'], 5) for o in outs})
            want = ['Err(NotInLoop)'] if k == 0 else \
                ['Ok({divert: Break(%s(%d)), exit_status: const yash_env::semantics::ExitStatus::SUCCESS})' % (variant, k - 1)]
            if res != want:
                cx.violation(fn, 'levels:%d' % k, 'with %d enclosing loop(s) available the built-in yields %s, expected %s'
                             % (k, res, want), loc=loc)
            for o in outs:
                lc = ev_calls(o, ['yash_env::stack::Stack::loop_count'])
                if len(lc) != 1 or vfmt(lc[0][2][1]) != '<max>':
                    cx.violation(fn, 'levels-arg', 'loop_count is not asked for the operand given by the user', loc=loc)
                    break


# ====================================================================== C02.R6 who consumes Return / Interrupt
def _pat_defs(p, out):
    if isinstance(p, dict):
        if p.get('k') in ('pstruct', 'ptuplestruct') and isinstance(p.get('p'), dict):
            out.append(p['p'].get('def'))
        if p.get('k') == 'pexpr' and isinstance(p.get('e'), dict) and p['e'].get('k') == 'path':
            out.append(p['e'].get('def'))
        for v in p.values():
            if isinstance(v, (dict, list)):
                _pat_defs(v, out)
    elif isinstance(p, list):
        for x in p:
            _pat_defs(x, out)


def _all_pats(n, out):
    if isinstance(n, dict):
        for k, v in n.items():
            if k in ('pat', 'params'):
                _pat_defs(v, out)
            else:
                _all_pats(v, out)
    elif isinstance(n, list):
        for x in n:
            _all_pats(x, out)


def divert_inspectors(F):
    """{function: set of Divert variants named in its patterns} over all crates (HIR patterns), plus every
    function whose MIR switches on the discriminant of a Divert (catches matches!/if-let in macros)."""
    out = {}
    for fn, h in F.hir.items():
        defs = []
        _all_pats(h.get('body'), defs)
        vs = {d.split('::')[-1] for d in defs if d and d.startswith(DIVERT + '::')}
        if vs:
            out[fn] = vs
    for fn, b in F.bodies.items():
        for blk, j, s in b.stmts():
            if s['k'] == 'assign' and s['rv']['k'] == 'discr' and \
                    s['rv'].get('ty', '').replace('&', '').replace('mut ', '').strip() == DIVERT:
                out.setdefault(b.root, set())
    return out


# reviewed inspectors: function -> (variants it may name, role)
INSPECTORS = {
    'yash_semantics::command::simple_command::function::execute_function_body':
        ({'Return'}, 'the function call consumes Return'),
    'yash_builtin::source::semantics::consume_return': ({'Return'}, 'the dot script consumes Return'),
    'yash_semantics::runner::read_eval_loop_impl': ({'Interrupt'}, 'interactive recovery (decided in C10.R7)'),
    'yash_semantics::trap::run_trap': ({'Interrupt'}, 'exit status bookkeeping of a trap, no conversion'),
    "yash_semantics::command::compound_command::while_loop::Loop::<'_, S>::execute":
        ({'Break', 'Continue'}, 'loop table (C02.R5)'),
    'yash_semantics::command::compound_command::for_loop::execute': ({'Break', 'Continue'}, 'loop table (C02.R5)'),
    "yash_semantics::command::compound_command::while_loop::Loop::<'_, S>::iterate":
        ({'Continue'}, 'records $? of a body run that ended with `continue` (C02.R5d); the divert itself is returned unchanged, '
                       'which the iterate table of C02.R5 decides'),
    'yash_cli::run_as_shell_process': (set(DIVERT_ORDER), 'EXIT trap decision at shell exit (C10.R6)'),
    'yash_env::semantics::Divert::exit_status': (set(DIVERT_ORDER), 'accessor'),
}


# inventory entries whose handling of the divert is decided IN PLACE by this rule (tables below): a private helper of one of
# these is inlined into its caller before the table is evaluated
_R6_TABLED = ('yash_semantics::command::simple_command::function::execute_function_body',
              'yash_builtin::source::semantics::consume_return',
              'yash_semantics::trap::run_trap')


def _fn_escapes(F, fn):
    """fn is mentioned as a value (fn item constant) somewhere: it can be called from places the call graph does not show."""
    crate = fn.split('::')[0]

    def mentions(n):
        if isinstance(n, dict):
            if n.get('fn') == fn and 'c' in n:
                return True
            return any(mentions(v) for v in n.values() if isinstance(v, (dict, list)))
        if isinstance(n, list):
            return any(mentions(x) for x in n)
        return False
    for b in F.bodies.values():
        if not b.fn.startswith(crate + '::') and not b.fn.startswith('<'):
            continue
        for blk, j, st in b.stmts():
            if mentions(st):
                return True
        for blk, t in b.calls():
            if mentions(t.get('a')) or mentions((t.get('f') or {}).get('indirect')):
                return True
    return False


def inherited_inspectors(cx, F, insp):
    """{helper: [inventory entries calling it]}: a PRIVATE function that tells Divert variants apart, is not itself in the
    inventory, is only ever CALLED (never taken as a value), and all of whose callers are reviewed inventory entries of the same
    module, is a piece of those entries extracted into a helper: it inherits their review (it may name only the variants they may
    name) and is analysed as part of them (inlined into the tables below). One level only."""
    out = {}
    for fn in sorted(insp):
        if fn in INSPECTORS or fn.startswith('<%s as ' % DIVERT):
            continue
        sig = F.fns.get(fn)
        if sig is None or sig.get('vis') == 'pub':
            continue
        callers = sorted({b.root for b, i, t in F.callers_of(lambda names, t: fn in names)} - {fn})
        if not callers or any(c not in INSPECTORS for c in callers):
            continue
        accept = [c for c in callers if same_module_private(F, c)(fn)]
        if accept != callers or _fn_escapes(F, fn):
            continue
        out[fn] = callers
    return out


def _with_helpers(cx, F, body, inherited):
    """body with the inherited Divert-inspecting helpers of its function inlined (the table is then decided on the whole);
    fails closed when such a helper cannot be seen in place (async, too large, called from a closure)."""
    mine = sorted(h for h, cs in inherited.items() if body.root in cs)
    if not mine:
        return body
    nb = F.inlined(body, accept=lambda c: c in mine)
    got = set(getattr(nb, 'inlined_from', None) or [])
    cx.require(all(h in got for h in mine) and
               not [1 for b in F.logical(body.root) if b.fn != body.fn for i, t in b.calls() if t['f'].get('def') in mine],
               '%s: the helper(s) %s tell Divert variants apart but cannot be analysed in place' % (body.root, ', '.join(mine)))
    for h in mine:
        cx.fn(h)
    return nb


def _divert_inputs():
    ins = [('normal', mk_enum('Continue', UNIT))]
    for v in ('Continue', 'Break'):
        ins.append((v.lower(), mk_enum('Break', dv(v, count=('c', 1)))))
    for v in ('Return', 'Interrupt', 'Exit', 'Abort'):
        ins.append((v.lower() + '-some', mk_enum('Break', ('enum', v, {'0': mk_enum('Some', ('u', 'st'))}, 'D'))))
        ins.append((v.lower() + '-none', mk_enum('Break', ('enum', v, {'0': mk_enum('None')}, 'D'))))
    return ins


@RS.rule('C02.R6', 'K-CALLERS+K-TABLE', 'only the function call and the dot script consume Return; nothing else inspects '
                                        'individual Divert variants outside the reviewed inventory')
def r6(cx):
    F = cx.F
    insp = divert_inspectors(F)
    inherited = inherited_inspectors(cx, F, insp)
    for fn, vs in sorted(insp.items()):
        if fn.startswith('<%s as ' % DIVERT):
            continue       # derived trait impls of Divert itself
        cx.site('%s inspects Divert::{%s}' % (fn, ','.join(sorted(vs))))
        cx.fn(fn)
        h = F.hir.get(fn) or {}
        loc = '%s:%s' % (h.get('file'), h.get('line'))
        ok = INSPECTORS.get(fn)
        if ok is None and fn in inherited:
            # a private helper extracted from reviewed inventory entries: reviewed as part of them
            for c in inherited[fn]:
                cx.site('%s is a private helper of the inventory entry %s' % (fn, c))
                if not vs <= INSPECTORS[c][0]:
                    cx.violation(c, 'extra-variants', 'this function (%s) now also matches on Divert::{%s} (in its helper %s)'
                                 % (INSPECTORS[c][1], ','.join(sorted(vs - INSPECTORS[c][0])), fn.split('::')[-1]), loc=loc)
                if c not in _R6_TABLED:
                    # the caller's handling of the divert is decided by another rule on the caller's own body: a helper that
                    # can write to a divert / result of its caller through `&mut` would escape that analysis
                    ins = (F.fns.get(fn) or {}).get('inputs')
                    muts = [m for m in (ins or []) if re.search(r'&(\'\w+ )?mut ', str(m)) and
                            re.search(r'Divert|ControlFlow', str(m))]
                    cx.require(ins is not None and not muts,
                               '%s: its helper %s tells Divert variants apart and can write to a divert of its caller; '
                               'not analysable in place' % (c, fn))
            continue
        if ok is None:
            cx.violation(fn, 'unreviewed-inspector', 'this function tells Divert variants apart (%s) but is not in the '
                         'reviewed inventory: a place that can swallow or rewrite break/continue/return/exit requests'
                         % (','.join(sorted(vs)) or 'by discriminant'), loc=loc)
        elif not vs <= ok[0]:
            cx.violation(fn, 'extra-variants', 'this function (%s) now also matches on Divert::{%s}'
                         % (ok[1], ','.join(sorted(vs - ok[0]))), loc=loc)
    cx.floor(len(insp), 8, 'functions inspecting Divert')
    # the function call
    efb = F.main_body('yash_semantics::command::simple_command::function::execute_function_body')
    cx.fn(efb.fn)
    efb = _with_helpers(cx, F, efb, inherited)
    eloc = '%s:%d' % (pp_rel(efb.file), efb.line)
    BODY = ['yash_env::function::FunctionBodyObject::execute', '*::FunctionBodyObject::execute']
    for label, x in _divert_inputs():
        def oracle(sym, st, t, args, x=x):
            if Q.callee_is(t, BODY):
                return x
            return None
        outs = [o for o in sym_paths(cx, F, efb, oracle) if o['end'] == 'return' and ev_calls(o, BODY)]
        cx.cellcount(1)
        cx.require(outs, 'execute_function_body: the function body is never executed')
        for o in outs:
            got = vfmt(o['ret'])
            sets = [vfmt(e[2]) for e in ev_writes(o, '.exit_status')]
            if label.startswith('return'):
                want, wsets = 'Continue(())', (['<st>'] if label == 'return-some' else [])
            else:
                want, wsets = vfmt(x), []
            if got != want or sets != wsets:
                cx.violation(efb.root, 'function-result:%s' % label,
                             'a function whose body ends with %s returns %s and sets $? to %s; expected %s and %s '
                             '(`return` leaves exactly the function, everything else propagates)'
                             % (vfmt(x), got, sets or 'nothing', want, wsets or 'nothing'), loc=eloc)
                break
            if len(ev_calls(o, BODY)) != 1:
                cx.violation(efb.root, 'function-body-runs', 'the function body is executed %d times'
                             % len(ev_calls(o, BODY)), loc=eloc)
                break
    # the dot script
    cr = F.body('yash_builtin::source::semantics::consume_return')
    cx.fn(cr.fn)
    cr_fn = cr.fn
    cr = _with_helpers(cx, F, cr, inherited)
    for label, x in _divert_inputs():
        outs = [o for o in sym_paths(cx, F, cr, None, {1: x}) if o['end'] == 'return']
        cx.cellcount(1)
        got = sorted({vfmt(o['ret'], 6) for o in outs})
        if label.startswith('return'):
            want = ['{0: %s, 1: Continue(())}' % ('Some(<st>)' if label == 'return-some' else 'None')]
        else:
            want = ['{0: None, 1: %s}' % vfmt(x, 5)]
        if got != want:
            cx.violation(cr.fn, 'dot-script-result:%s' % label, 'consume_return(%s) = %s, expected %s'
                         % (vfmt(x), got, want), loc='%s:%d' % (pp_rel(cr.file), cr.line))
    users = F.callers_of(lambda names, t: cr_fn in names)
    for b, i, t in users:
        cx.site('consume_return called by %s' % b.root)
        if not b.root.startswith('yash_builtin::source::'):
            cx.violation(b.root, 'caller:consume_return', 'only the dot built-in may consume a Return', loc=b.loc(t))
    # run_trap never changes the kind of divert
    rt = F.main_body('yash_semantics::trap::run_trap')
    cx.fn(rt.fn)
    rt = _with_helpers(cx, F, rt, inherited)
    REL = ['yash_semantics::runner::read_eval_loop', '*::read_eval_loop']
    for label, x in _divert_inputs():
        def oracle(sym, st, t, args, x=x):
            if Q.callee_is(t, REL):
                return x
            return None
        outs = [o for o in sym_paths(cx, F, rt, oracle) if o['end'] == 'return' and ev_calls(o, REL)]
        cx.cellcount(1)
        cx.require(outs, 'run_trap does not run read_eval_loop')
        for o in outs:
            r = o['ret']
            same = is_enum(r) and r[1] == x[1] and (x[1] == 'Continue' or (is_enum(enum_field(r)) and
                                                                          enum_field(r)[1] == enum_field(x)[1]))
            if not same:
                cx.violation(rt.root, 'trap-result:%s' % label, 'a trap action ending with %s makes run_trap return %s'
                             % (vfmt(x), vfmt(r)), loc='%s:%d' % (pp_rel(rt.file), rt.line))
                break


# ====================================================================== C02.R7 and-or lists, negation
AO = 'yash_semantics::command::and_or::'
ECP = [AO + 'execute_conditional_pipeline']
COND_FRAME = 'Condition'


def andor_oracle(n, first=None, rest_results=None):
    """Oracle for AndOrList::execute on a list with n pipelines after the first one."""
    first = first or mk_enum('Continue', UNIT)
    rest_results = rest_results or {}

    def oracle(sym, st, t, args):
        if Q.callee_is(t, ['alloc::vec::Vec::<T, A>::is_empty']):
            return ('c', n == 0)
        nexts = len([e for e in st.events if e[0] == 'call' and Q.callee_is(e[1], [re.compile(r'Peekable<I> as .*Iterator>::next$')])])
        if Q.callee_is(t, [re.compile(r'Peekable<I> as .*Iterator>::next$')]):
            return mk_enum('Some', ('ref', ('M', 'rest%d' % nexts), ())) if nexts < n else mk_enum('None')
        if Q.callee_is(t, ['core::iter::adapters::peekable::Peekable::<I>::peek']):
            return mk_enum('Some', ('u', 'peeked')) if nexts < n else mk_enum('None')
        # the same list walked as `let (last, init) = rest.split_last().unwrap(); for p in init {..}; last`
        if Q.callee_is(t, ['core::slice::<impl [T]>::split_last']):
            if n == 0:
                return mk_enum('None')
            return mk_enum('Some', ('agg', {'0': ('ref', ('M', 'rest%d' % (n - 1)), ()), '1': ('u', 'init')}, 'split_last'))
        snexts = len([e for e in st.events if e[0] == 'call' and Q.callee_is(e[1], [re.compile(r'slice::iter::Iter<.*> as .*Iterator>::next$')])])
        if Q.callee_is(t, [re.compile(r'slice::iter::Iter<.*> as .*Iterator>::next$')]):
            return mk_enum('Some', ('ref', ('M', 'rest%d' % snexts), ())) if snexts < n - 1 else mk_enum('None')
        if Q.callee_is(t, ['core::option::Option::<T>::unwrap']):
            v = sym.resolve(st, args[0])
            return enum_field(v) if is_enum(v, 'Some') else None
        if Q.callee_is(t, ['core::option::Option::<T>::is_none', 'core::option::Option::<T>::is_some']):
            v = sym.resolve(st, args[0]) if args[0][0] != 'ref' else sym.deref(st, args[0])
            if is_enum(v):
                return ('c', (v[1] == 'None') == Q.callee_is(t, ['core::option::Option::<T>::is_none']))
            return None
        if Q.callee_is(t, ECP):
            k = len([e for e in st.events if e[0] == 'call' and Q.callee_is(e[1], ECP)])
            return rest_results.get(k, mk_enum('Continue', UNIT))
        if Q.callee_is(t, EXECUTE):
            return first
        return None
    return oracle


ANDOR_ITER = [re.compile(r'Peekable<I> as .*Iterator>::next$'), re.compile(r'slice::iter::Iter<.*> as .*Iterator>::next$')]


def andor_traces(cx, F, n, **kw):
    body = F.main_body(exec_fn(F, 'AndOrList'))
    if not Q.find_calls(body, ANDOR_ITER):
        # fail closed: the walk over the pipelines is written in a way the evaluator has no model for
        raise AnchorMissing('AndOrList::execute walks its pipelines in a way that is not modelled (neither a Peekable nor a '
                            'slice iterator): no verdict on the and-or tables')
    outs = sym_paths(cx, F, body, andor_oracle(n, **kw), max_visits=n + 3)
    return body, [o for o in outs if o['end'] == 'return']


def trace_of(o, pats_named):
    """[(name, event index, event)] of the calls/drops of interest, in execution order."""
    out = []
    for i, e in enumerate(o['events']):
        if e[0] == 'call':
            for name, pats in pats_named:
                if Q.callee_is(e[1], pats):
                    out.append((name, i, e))
                    break
        elif e[0] == 'drop' and 'FrameGuard' in (e[2] or ''):
            out.append(('pop', i, e))
        if is_drop_of_guard(e):
            out.append(('pop', i, e))
    return out


def is_drop_of_guard(e):
    return e[0] == 'call' and Q.callee_is(e[1], ['core::mem::drop']) and 'FrameGuard' in ' '.join(e[1].get('at') or [])


@RS.rule('C02.R7', 'K-TABLE', '`&&` runs the next pipeline iff $? is zero, `||` iff it is not, left to right; `!` inverts '
                              'only the status and only on normal completion')
def r7(cx):
    F = cx.F
    b = F.main_body(ECP[0])
    cx.fn(b.fn)
    loc = '%s:%d' % (pp_rel(b.file), b.line)
    for op in ('AndThen', 'OrElse'):
        for success in (True, False):
            def oracle(sym, st, t, args, success=success):
                if Q.callee_is(t, ['yash_env::semantics::ExitStatus::is_successful']):
                    return ('c', success)
                if Q.callee_is(t, EXECUTE):
                    return ('u', 'pipeline_result')
                return None
            init = {1: ('agg', {'0': ('u', 'env'), '1': ('ref', ('M', 'item'), ())}, 'upvars'),
                    ('M', 'item'): ('agg', {'0': ('enum', op, {}, 'AndOr'), '1': ('u', 'the_pipeline')}, 'item')}
            outs = [o for o in sym_paths(cx, F, b, oracle, init) if o['end'] == 'return']
            cx.cellcount(1)
            cx.require(len(outs) == 1, 'execute_conditional_pipeline: %d paths for (%s, %s)' % (len(outs), op, success))
            o = outs[0]
            ran = ev_calls(o, EXECUTE)
            want_run = success if op == 'AndThen' else not success
            got = vfmt(o['ret'])
            want = '<pipeline_result>' if want_run else 'Continue(())'
            if bool(ran) != want_run or got != want or ev_writes(o, '.exit_status'):
                cx.violation(b.root, 'cell:%s,%s' % (op, 'zero' if success else 'nonzero'),
                             'after a %s status the pipeline following `%s` is %s and the result is %s; expected %s / %s'
                             % ('zero' if success else 'non-zero', '&&' if op == 'AndThen' else '||',
                                'run' if ran else 'skipped', got, 'run' if want_run else 'skipped', want), loc=loc)
            elif ran and vfmt(ran[0][2][0]) != '&item.1':
                cx.violation(b.root, 'runs-other-pipeline', 'the pipeline executed is not the one paired with the operator',
                             loc=loc)
            # the status tested is $? (env.exit_status)
            for e in ev_calls(o, ['yash_env::semantics::ExitStatus::is_successful']):
                if not vfmt(e[2][0]).endswith('.exit_status'):
                    cx.violation(b.root, 'tests-other-status', 'the and-or decision is not taken on env.exit_status', loc=loc)
    # ---- the list: first, then the rest in order, each `?`-propagated
    named = [('first', EXECUTE), ('rest', ECP), ('push', PUSH_FRAME)]
    for n in (0, 1, 3):
        body, outs = andor_traces(cx, F, n)
        cx.fn(body.fn)
        lloc = '%s:%d' % (pp_rel(body.file), body.line)
        cx.cellcount(1)
        cx.require(outs, 'AndOrList::execute: no returning path for %d following pipelines' % n)
        for o in outs:
            tr = trace_of(o, named)
            seq = [(nm, vfmt(e[2][1] if nm == 'rest' else e[2][0])) for nm, i, e in tr if nm in ('first', 'rest')]
            want = [('first', '&*arg1.0.first' if False else seq[0][1] if seq else '?')] + [('rest', '&rest%d' % k) for k in range(n)]
            if [s[0] for s in seq] != [w[0] for w in want] or seq[1:] != want[1:] or not seq or not seq[0][1].endswith('.first'):
                cx.violation(body.root, 'order:%d' % n, 'an and-or list with %d operators executes %s; expected the first '
                             'pipeline and then each following pipeline once, left to right' % (n, seq), loc=lloc)
                break
            if vfmt(o['ret']) != 'Continue(())':
                cx.violation(body.root, 'result:%d' % n, 'normal completion of all pipelines yields %s' % vfmt(o['ret']), loc=lloc)
                break
    # a divert from any pipeline ends the list at once
    for n, first, rr, stop_after in ((2, mk_enum('Break', ('u', 'd')), None, 0),
                                     (2, None, {0: mk_enum('Break', ('u', 'd'))}, 1),
                                     (2, None, {1: mk_enum('Break', ('u', 'd'))}, 2)):
        body, outs = andor_traces(cx, F, n, first=first, rest_results=rr)
        cx.cellcount(1)
        for o in outs:
            k = len(ev_calls(o, ECP))
            if vfmt(o['ret']) != 'Break(<d>)' or k != stop_after:
                cx.violation(body.root, 'divert-stops-list:%d' % stop_after, 'a divert raised by pipeline %d of an '
                             'and-or list yields %s after %d following pipelines were started; expected Break(<d>) '
                             'at once' % (stop_after, vfmt(o['ret']), k),
                             loc='%s:%d' % (pp_rel(body.file), body.line))
                break
    # ---- negation
    pb = F.main_body(exec_fn(F, 'Pipeline'))
    cx.fn(pb.fn)
    ploc = '%s:%d' % (pp_rel(pb.file), pb.line)
    ECIP = ['yash_semantics::command::pipeline::execute_commands_in_pipeline']
    for inner_label, inner in (('normal', mk_enum('Continue', UNIT)), ('divert', mk_enum('Break', ('u', 'd')))):
        for success in (True, False):
            def oracle(sym, st, t, args, inner=inner, success=success):
                if Q.callee_is(t, ['yash_env::option::OptionSet::get']):
                    return ('enum', 'On', {}, 'State')
                if Q.callee_is(t, ECIP):
                    return inner
                if Q.callee_is(t, ['yash_env::semantics::ExitStatus::is_successful']):
                    return ('c', success)
                return None
            outs = [o for o in sym_paths(cx, F, pb, oracle) if o['end'] == 'return']
            for o in outs:
                neg = [a for a in o['assume'] if str(a[0]).endswith('.negation')]
                cx.require(len(neg) == 1, 'Pipeline::execute: the negation flag is not tested exactly once (%s)' % o['assume'])
                negated = neg[0][1]
                cx.cellcount(1)
                writes = [vfmt(e[2]) for e in ev_writes(o, '.exit_status')]
                ran = ev_calls(o, ECIP)
                got = vfmt(o['ret'])
                if not negated or inner_label == 'divert':
                    want, wwrites = vfmt(inner), []
                else:
                    want = 'Continue(())'
                    wwrites = ['const yash_env::semantics::ExitStatus::' + ('FAILURE' if success else 'SUCCESS')]
                if len(ran) != 1 or got != want or writes != wwrites:
                    cx.violation(pb.root, 'negation:%s,%s,%s' % ('!' if negated else 'plain', inner_label,
                                                                 'zero' if success else 'nonzero'),
                                 '%s pipeline whose commands end with %s and status %s: result %s, $? writes %s; expected '
                                 '%s and %s' % ('negated' if negated else 'plain', vfmt(inner),
                                                'zero' if success else 'non-zero', got, writes, want, wwrites), loc=ploc)


# ====================================================================== C02.R8 if / elif / else
def upvar_init(body, vals, mem=None):
    """Initial state for a coroutine/closure body: captured variables (= parameters of an async fn) selected by
    position (int key), by type substring (('ty', text) key, must be unique) or by name (str key)."""
    fields = {}
    ups = body.d.get('upvars') or []
    for key, val in vals.items():
        if isinstance(key, int):
            hits = [uv for i, uv in enumerate(ups) if i == key]
        elif isinstance(key, tuple):
            hits = [uv for uv in ups if key[1] in (uv['place']['p'][0].get('ty') or '')]
        else:
            hits = [uv for uv in ups if uv['name'].replace('r#', '') == key]
        if len(hits) != 1:
            raise AnchorMissing('%s: captured variable %s: %d matches' % (body.fn, key, len(hits)))
        fields[str(hits[0]['place']['p'][0]['f'])] = val
    init = {1: ('agg', fields, 'upvars')}
    init.update(mem or {})
    return init




NEXT_SLICE = [re.compile(r'slice::iter::Iter<.*> as core::iter::traits::iterator::Iterator>::next$')]


def check_if_table(cx):
    """if/elif/else decision table (also establishes that conditions, and only conditions, go through
    evaluate_condition)."""
    F = cx.F
    b = F.main_body('yash_semantics::command::compound_command::r#if::execute')
    cx.fn(b.fn)
    loc = '%s:%d' % (pp_rel(b.file), b.line)
    NEXT = NEXT_SLICE
    n_elif = 2
    import itertools
    for conds in itertools.product((True, False), repeat=n_elif + 1):
        for has_else in (True, False):
            def oracle(sym, st, t, args, conds=conds):
                if Q.callee_is(t, EVAL_COND):
                    k = len([e for e in st.events if e[0] == 'call' and Q.callee_is(e[1], EVAL_COND)])
                    return mk_enum('Continue', ('c', conds[k])) if k < len(conds) else None
                if Q.callee_is(t, NEXT):
                    k = len([e for e in st.events if e[0] == 'call' and Q.callee_is(e[1], NEXT)])
                    return mk_enum('Some', ('ref', ('M', 'elif%d' % k), ())) if k < n_elif else mk_enum('None')
                if Q.callee_is(t, EXECUTE):
                    return ('u', 'body_result')
                return None
            # parameters by position: (env, condition, body, elifs, else)
            init = upvar_init(b, {1: ('ref', ('M', 'cond'), ()), 2: ('ref', ('M', 'then'), ()),
                                  4: ('ref', ('M', 'else'), ())},
                              {('M', 'else'): mk_enum('Some', ('u', 'else_list')) if has_else else mk_enum('None')})
            outs = [o for o in sym_paths(cx, F, b, oracle, init, max_visits=n_elif + 3) if o['end'] == 'return']
            cx.cellcount(1)
            cx.require(len(outs) == 1, 'if::execute: %d paths for conditions %s' % (len(outs), conds))
            o = outs[0]
            evald = [vfmt(e[2][1]) for e in ev_calls(o, EVAL_COND)]
            ran = [vfmt(e[2][0]) for e in ev_calls(o, EXECUTE)]
            writes = [vfmt(e[2]) for e in ev_writes(o, '.exit_status')]
            names = ['&cond'] + ['&elif%d.condition' % k for k in range(n_elif)]
            bodies = ['&then'] + ['&elif%d.body' % k for k in range(n_elif)]
            first_true = conds.index(True) if True in conds else None
            if first_true is not None:
                want = (names[:first_true + 1], [bodies[first_true]], [], '<body_result>')
            elif has_else:
                want = (names, ['&else.0'], [], '<body_result>')
            else:
                want = (names, [], ['const yash_env::semantics::ExitStatus::SUCCESS'], 'Continue(())')
            got = (evald, ran, writes, vfmt(o['ret']))
            if got != want:
                cx.violation(b.root, 'if:%s,%s' % (''.join('T' if c else 'F' for c in conds), 'else' if has_else else 'noelse'),
                             'conditions %s (%s else): evaluated %s, ran %s, $? writes %s, result %s; expected %s'
                             % (list(conds), 'with' if has_else else 'no', evald, ran, writes, got[3], want), loc=loc)
    # a divert in a condition ends the command
    def oracle2(sym, st, t, args):
        if Q.callee_is(t, EVAL_COND):
            return mk_enum('Break', ('u', 'd'))
        return None
    for o in sym_paths(cx, F, b, oracle2):
        if o['end'] == 'return' and (vfmt(o['ret']) != 'Break(<d>)' or ev_calls(o, EXECUTE)):
            cx.violation(b.root, 'if:condition-divert', 'a divert raised by the condition does not end the if command',
                         loc=loc)
    cx.cellcount(1)


@RS.rule('C02.R8', 'K-TABLE', 'if/elif/else: conditions are evaluated in order until the first true one, exactly its body '
                              'runs, otherwise the else part, otherwise $? = 0; a list runs its items in order until a divert')
def r8(cx):
    F = cx.F
    NEXT = NEXT_SLICE
    check_if_table(cx)
    # ---- sequential list: items in order, a divert ends the list
    root = impl_fn(F, CMD_TRAIT, 'yash_syntax::syntax::List', 'execute')
    lbs = [x for x in F.logical(root) if Q.find_calls(x, EXECUTE)]
    cx.require(len(lbs) == 1, 'List::execute: expected one body executing items, found %d' % len(lbs))
    lb = lbs[0]
    cx.fn(lb.fn)
    lloc = '%s:%d' % (pp_rel(lb.file), lb.line)
    for stop_at in (None, 0, 1):
        def oracle3(sym, st, t, args, stop_at=stop_at):
            if Q.callee_is(t, NEXT):
                k = len([e for e in st.events if e[0] == 'call' and Q.callee_is(e[1], NEXT)])
                return mk_enum('Some', ('ref', ('M', 'item%d' % k), ())) if k < 3 else mk_enum('None')
            if Q.callee_is(t, EXECUTE):
                k = len([e for e in st.events if e[0] == 'call' and Q.callee_is(e[1], EXECUTE)])
                return mk_enum('Break', ('u', 'd')) if k == stop_at else mk_enum('Continue', UNIT)
            return None
        outs = [o for o in sym_paths(cx, F, lb, oracle3, max_visits=6) if o['end'] == 'return']
        cx.cellcount(1)
        cx.require(len(outs) == 1, 'List::execute: %d paths' % len(outs))
        o = outs[0]
        ran = [vfmt(e[2][0]) for e in ev_calls(o, EXECUTE)]
        want_n = 3 if stop_at is None else stop_at + 1
        want = (['&item%d' % k for k in range(want_n)], 'Continue(())' if stop_at is None else 'Break(<d>)')
        if (ran, vfmt(o['ret'])) != want:
            cx.violation(root, 'list:%s' % ('all' if stop_at is None else 'divert-at-%d' % stop_at),
                         'a list of three items (divert at %s) executes %s and yields %s; expected %s'
                         % (stop_at, ran, vfmt(o['ret']), want), loc=lloc)


# ---------------------------------------------------------------------------------------
# added after independent seeded changes (see DESIGN.md, seeded-change table)
@RS.rule('C02.R5c', 'K-GUARD', 'for loop: $? is reset to 0 only when there is no word to iterate over (the first body command sees the previous $?)')
def r5c(cx):
    import mirq as Q
    F = cx.F
    b = F.main_body('yash_semantics::command::compound_command::for_loop::execute')
    cx.fn(b.fn)
    du = Q.DefUse(b)
    writes = [(blk, j, s) for blk, j, s, kind, f in Q.field_writes(b, 'yash_env::Env', 'exit_status') if kind == 'assign']
    cx.site('%s: %d direct writes of env.exit_status' % (b.fn, len(writes)))
    for blk, j, s in writes:
        conds = Q.dominating_conditions(F, b, du, blk)
        ok = any(org['k'] == 'call' and Q.callee_is(org['t'], [Q.re.compile(r'::is_empty$')]) and lab == ('bool', True)
                 and 'Field' in ' '.join(org['t'].get('at', [])) for org, lab, e in conds)
        cx.site('%s: env.exit_status written at %s (guarded by values.is_empty(): %s)' % (b.fn, b.loc(s), ok))
        if not ok:
            cx.violation(b.root, 'status-reset-unguarded', 'the for loop overwrites $? without having established that there is no word to iterate '
                         'over: the first command of the first iteration (and a bare `return`/`exit` there) must still see the exit status '
                         'of the command that preceded the loop', loc=b.loc(s))


@RS.rule('C02.R9', 'K-TABLE', 'Divert::exit_status carries the status of return/interrupt/exit/abort (so `(return 7)` ends the subshell with 7) and none for break/continue')
def r9(cx):
    import hirq as H
    F = cx.F
    fn = 'yash_env::semantics::Divert::exit_status'
    table, m = H.fn_match_table(F, fn, 'yash_env::semantics::Divert')
    cx.fn(fn)
    h = F.hir_of(fn)
    loc = '%s:%s' % (h['file'], h['line'])
    want = {'Continue': 'None', 'Break': 'None', 'Return': 'payload', 'Interrupt': 'payload', 'Exit': 'payload', 'Abort': 'payload'}
    for v, (i, body) in table.items():
        body = H.peel(body)
        if body.get('k') == 'path' and H.short(body.get('def') or '') == 'None':
            got = 'None'
        elif body.get('k') == 'unary' and body.get('op') == '*' and H.peel(body['a']).get('k') == 'local':
            got = 'payload'
        elif body.get('k') == 'local':
            got = 'payload'
        else:
            got = body.get('k')
        cx.cellcount(1)
        cx.sample({'variant': v, 'exit_status': got})
        if v not in want:
            cx.violation(fn, 'unclassified:%s' % v, 'Divert::%s has no row in the reference table' % v, loc=loc)
        elif got != want[v]:
            cx.violation(fn, 'cell:%s' % v, 'Divert::%s must yield %s, found %s: the exit status given to `%s` is lost when the divert '
                         'ends a subshell, a pipeline element or the script' % (v, want[v], got, v.lower()), loc=loc)
    # apply_result stores it
    ab = F.body('yash_env::Env::<S>::apply_result')
    cx.fn(ab.fn)
    calls = Q.find_calls(ab, [fn])
    w = [(blk, j, s) for blk, j, s, kind, f in Q.field_writes(ab, 'yash_env::Env', 'exit_status') if kind == 'assign']
    cx.site('apply_result: %d exit_status() calls, %d writes of env.exit_status' % (len(calls), len(w)))
    if not calls or not w or not any(ab.dominates(c, blk) for c, _ in calls for blk, j, s in w):
        cx.violation(ab.fn, 'apply-result', 'Env::apply_result no longer stores Divert::exit_status() into $?', loc=ab.loc(ab.d))


@RS.rule('C02.R1b', 'K-SIBLING', 'PATH search: a candidate is accepted only if it is a regular file with an execute permission (a directory '
         'named like the command in an earlier $PATH entry is skipped, so the later entry is found)')
def r1b(cx):
    from rules.C19 import executable_file_evidence, IS_EXEC
    F = cx.F
    ev = executable_file_evidence(F, cx)
    for sysname, (regular, perm) in sorted(ev.items()):
        short = sysname.split('::')[-1]
        root = '<%s as %s>::is_executable_file' % (sysname, IS_EXEC)
        cx.site('%s::is_executable_file: regular-file test %s, execute-permission test %s' % (short, regular, perm))
        b0 = F.logical(root)[0]
        if not regular:
            cx.violation(root, 'accepts-non-regular', 'with `PATH=/a:/b`, a directory /a/foo and an executable /b/foo, the command `foo` '
                         'must run /b/foo; %s::is_executable_file accepts the directory, the search stops at /a/foo and the command '
                         'fails with 126' % short, loc=b0.loc(b0.d))
        if not perm:
            cx.violation(root, 'accepts-non-executable', '%s::is_executable_file accepts files without execute permission' % short,
                         loc=b0.loc(b0.d))
    # the search itself asks that question for every candidate
    users = [(b, blk, t) for b, blk, t in F.callers_of(lambda names, t: any(n.endswith('IsExecutableFile::is_executable_file') for n in names))
             if 'command::search' in b.fn]
    cx.site('command search consults is_executable_file at %s' % sorted({b.loc(t) for b, _, t in users}))
    if not users:
        cx.violation('yash_env::semantics::command::search', 'search-without-test', 'the PATH search no longer tests candidates with '
                     'is_executable_file', loc='yash-env/src/semantics/command/search.rs')


@RS.rule('C02.R5d', 'K-PASS', "while/until: the loop's status is $? after the LAST run of the body, also when that run ended with `continue` "
         '(the status of the continue built-in), as in the for loop')
def r5d(cx):
    F = cx.F
    LOOP_ADT = WL + 'Loop'
    it = F.main_body(WL + "Loop::<'_, S>::iterate")
    ex = F.main_body(WL + "Loop::<'_, S>::execute")
    cx.fn(it.fn)
    cx.fn(ex.fn)

    def writes(b):
        return {blk for blk, j, s, kind, f in Q.field_writes(b, re.compile(r'while_loop::Loop(<.*>)?$'), 'exit_status')}

    def continue_edges(b, du):
        """edges taken when a Divert value is Divert::Continue"""
        out = []
        for u in sorted(b.live_blocks()):
            ec = Q.edge_condition(F, b, du, u)
            if ec and ec[0]['k'] == 'discr' and (ec[0].get('ty') or '').endswith('semantics::Divert'):
                for tgt, labs in ec[1].items():
                    if set(labs) == {('variant', 'Continue')}:
                        out.append((u, tgt))
        return out

    def nonzero_count_edges(b, du):
        out = set()
        for u in sorted(b.live_blocks()):
            ec = Q.edge_condition(F, b, du, u)
            if ec and ec[0]['k'] == 'place' and any(isinstance(e, dict) and e.get('f') == 'count' for e in (ec[0]['pl'].get('p') or [])):
                for tgt, labs in ec[1].items():
                    if ('int', 0) not in labs:
                        out.add((u, tgt))
        return out

    # normal completion of the body: the status is recorded before the condition is evaluated again
    du_it = Q.DefUse(it)
    body_exec = [(blk, t) for blk, t in it.calls() if Q.callee_is(t, [re.compile(r'List as yash_semantics::command::Command<S>>::execute$'),
                                                                       re.compile(r'::Command<S>>::execute$'), '*::Command::execute'])
                 and 'body' in str(Q.arg_names(it, du_it, t)[0])]
    cx.require(len(body_exec) == 1, 'the execution of the loop body was not found in Loop::iterate')
    w_it, w_ex = writes(it), writes(ex)
    cx.require(w_it or w_ex, 'nothing records the status of the body in the while loop')
    # `continue` (count 0): recorded either in iterate (on the Divert::Continue edge, before returning) or in execute (before iterating again)
    du_ex = Q.DefUse(ex)
    ok_it = False
    ce_it = continue_edges(it, du_it)
    if ce_it and w_it:
        ok_it = all(it.shortest_path(tgt, set(it.return_blocks()), removed=w_it, removed_edges=nonzero_count_edges(it, du_it)) is None
                    for u, tgt in ce_it)
    ce_ex = continue_edges(ex, du_ex)
    cx.require(ce_ex or ce_it, 'no test for Divert::Continue in the while loop (C02.R5 reports the table)')
    again = {blk for blk, t in Q.find_calls(ex, [WL + "Loop::<'_, S>::iterate"])}
    ok_ex = bool(ce_ex) and bool(w_ex) and all(
        ex.shortest_path(tgt, again, removed=w_ex, removed_edges=nonzero_count_edges(ex, du_ex)) is None for u, tgt in ce_ex)
    cx.site('while/until: status of the body recorded after normal completion in %s; after `continue`: in iterate %s, in execute %s'
            % (sorted(it.loc(it.term(b)) for b in w_it), ok_it, ok_ex))
    if not (ok_it or ok_ex):
        cx.violation(WL + "Loop::<'_, S>::execute", 'continue-keeps-stale-status', 'when the last run of the body ends with `continue`, the loop '
                     'goes on to evaluate the condition without recording $? (0, the status of continue): the loop finally returns the '
                     'status of an EARLIER iteration - `i=0; while [ $i -lt 2 ]; do i=$((i+1)); [ $i = 2 ] && continue; (exit 7); done; '
                     'echo $?` prints 7, the same loop written with `for` prints 0', loc=ex.loc(ex.term(ce_ex[0][0])) if ce_ex else ex.loc(ex.d))


@RS.rule('C02.R10', 'K-GUARD', 'a source without commands (eval / dot script / command substitution made of blank and comment lines) ends with $? = 0: '
         'the read-eval loop counts a parsed line as "executed" only if it contains a command (or was a syntax error)')
def r10(cx):
    F = cx.F
    fn = 'yash_semantics::runner::read_eval_loop_impl'
    body = F.main_body(fn)
    cx.fn(body.fn)
    du = Q.DefUse(body)
    flags = [l for l, d in enumerate(body.locals) if d.get('name') == 'executed' and d.get('ty') == 'bool']
    cx.require(len(flags) == 1, 'the `executed` flag of read_eval_loop_impl was not found (renamed? review how an empty source resets $?)')
    fl = flags[0]
    # the reset itself: $? = SUCCESS on the end-of-input edge when nothing was executed
    resets = [(blk, j, s) for blk, j, s, kind, f in Q.field_writes(body, 'yash_env::Env', 'exit_status') if kind == 'assign']
    cx.require(resets, 'read_eval_loop_impl no longer resets $? for an empty source')
    empties = Q.find_calls(body, ['alloc::vec::Vec::<T, A>::is_empty', re.compile(r'::is_empty$')])
    t_empty = Q.forward_taint(body, {t['dest']['l'] for _, t in empties}) if empties else set()
    sets = [(blk, j, s) for blk, j, s in body.stmts() if s['k'] == 'assign' and s['lhs']['l'] == fl and not s['lhs'].get('p')]
    n = 0
    for blk, j, s in sets:
        rv = s['rv']
        const = rv['k'] == 'use' and isinstance(rv['o'], dict) and 'c' in rv['o']
        if const and str(rv['o']['c']).endswith('false'):
            continue                      # initialisation
        n += 1
        ok = False
        why = ''
        if const:
            for org, lab, e in Q.implied_conditions(F, body, du, blk):
                if org['k'] == 'call' and Q.callee_is(org['t'], [re.compile(r'::is_empty$')]) and lab == ('bool', False):
                    ok, why = True, 'under !list.is_empty()'
                if org['k'] == 'discr' and 'Result' in (org.get('ty') or '') and lab == ('variant', 'Err') and 'Error' in (org.get('ty') or ''):
                    ok, why = True, 'on the parser-error arm'
        else:
            ok = any(p['l'] in t_empty for p in Q.rvalue_places(rv))
            why = 'value derived from list.is_empty()' if ok else ''
        cx.site('%s: `executed` set at %s: %s' % (body.fn, body.loc(s), why or 'unconditionally, for every parsed line'))
        if not ok:
            cx.violation(fn, 'blank-line-counts-as-command', 'every parsed line marks the source as "has executed a command", also the empty '
                         'list of a blank or comment-only line: `false; . ./only-comments.sh; echo $?` and `false; x=$(<newline>); echo $?` '
                         'print 1, an empty file / `eval ""` print 0 (the documented and POSIX result for a source without commands)',
                         loc=body.loc(s))
    cx.require(n >= 1, 'read_eval_loop_impl never sets the `executed` flag')


# --- explanation addendum (generated catalogue in DESIGN.md reads RS.explanation)
RS.explanation += ' Added later: PATH candidates must be regular files with an execute permission on both systems (R1b); a while/until loop records $? of a body run ended by `continue` (R5d); a source without commands resets $? (R10).'


# ---------------------------------------------------------------------------------------
# added after seed wave 3 (C10-s5: the status of a command without a command name)
@RS.rule('C02.R11', 'K-GUARD', 'a simple command without a command name ends with the status of the LAST command substitution performed '
         '(POSIX 2.9.1): over several assignments the status is folded - an assignment without a command substitution never erases the '
         'status an earlier one produced (`a=$(false) b=plain` is 1, and stops the shell under errexit)')
def r11(cx):
    F = cx.F
    fn = 'yash_semantics::assign::perform_assignments'
    body = F.main_body(fn)
    cx.fn(body.fn)
    du = Q.DefUse(body)
    calls = Q.find_calls(body, ['yash_semantics::assign::perform_assignment'])
    cx.require(calls, 'perform_assignments no longer calls perform_assignment')
    # the accumulator: the local whose value is returned in Ok(..)
    acc = None
    for blk, j, st in body.stmts():
        if st['k'] == 'assign' and not st['lhs'].get('p') and st['lhs']['l'] == 0 and st['rv']['k'] == 'agg' \
                and st['rv'].get('variant') in (0, 'Ok') and st['rv'].get('ops'):
            o = du.origin(st['rv']['ops'][0])
            if o['k'] == 'place' and not o['pl'].get('p'):
                acc = o['pl']['l']
    cx.require(acc is not None, 'the status returned by perform_assignments is not an accumulator local (shape changed: review)')
    from_acc = Q.forward_taint(body, {acc})
    n = 0
    for blk, idx, node in du.defs.get(acc, []):
        if idx == 't':
            rhs_locals = {Q.operand_local(a) for a in node['a']}
            is_init = False
        else:
            rv = node['rv']
            is_init = rv['k'] == 'agg' and rv.get('variant') in (0, 'None') and not rv.get('ops')
            rhs_locals = {p['l'] for p in Q.rvalue_places(rv)}
        if is_init:
            continue
        n += 1
        folds = any(l in from_acc for l in rhs_locals if l is not None and l != acc)
        from_result = Q.forward_taint(body, {t['dest']['l'] for b, t in calls})
        guarded = any(org['k'] == 'discr' and lab == ('variant', 'Some') and org['pl']['l'] in from_result
                      for org, lab, e in Q.implied_conditions(F, body, du, blk))
        cx.site('perform_assignments: status updated at %s: folds the previous status: %s; only on a Some result: %s' % (body.loc(node), folds, guarded))
        if not (folds or guarded):
            cx.violation(fn, 'status-overwritten-by-later-assignment', 'the status of the assignments is overwritten by every assignment, also '
                         'by one that performs no command substitution (None): `a=$(false) b=plain` then ends with status 0 instead of 1 and '
                         'does not stop the shell under errexit (POSIX: the status of the last command substitution performed)', loc=body.loc(node))
    cx.require(n >= 1, 'perform_assignments never updates its status accumulator')


RS.explanation += ' The status of a command without a command name is folded over its assignments (R11).'


from rules.C13 import r3 as _c13_pipefail_fold
from engine import Rule
RS.rules.append(Rule('C02.R12', 'K-TABLE', 'the exit status of a pipeline: the last command, or with pipefail the RIGHTMOST failing command (zero '
                     'if none failed) - the fold over the members takes a status iff it is a failure or pipefail is off (C13.R3)', _c13_pipefail_fold))
RS.explanation += ' The pipeline status is the last or (pipefail) the rightmost failing member (R12 = C13.R3).'


# ---------------------------------------------------------------------------------------
# added after seed wave 3 (C02-s6: a trailing colon in $PATH no longer names the working directory)
@RS.rule('C02.R1c', 'K-CALLERS', 'PATH search visits every item of the colon list, the empty ones included (an empty item - leading, doubled '
         'or TRAILING colon, or an empty PATH - is the working directory, XBD 8.3): the scalar value is split with str::split(\':\'), '
         'the one splitter that drops no item, and search_path walks that iterator')
def r1c(cx):
    F = cx.F
    fn = "yash_env::variable::quirk::Expansion::<'_>::split"
    h = F.hir_of(fn)
    cx.fn(fn)
    splits = [c for c in H.walk(h['body']) if c.get('k') == 'mcall' and re.match(r'core::str::<impl str>::r?split', str(c.get('def') or ''))]
    cx.require(splits, 'Expansion::split no longer splits a scalar value with a str splitter (anchor moved: review how the colon list is cut)')
    for c in splits:
        d = c['def']
        sep = [H.lit_value(a) for a in c.get('a', [])]
        ok = d == 'core::str::<impl str>::split' and sep == [':']
        cx.site('Expansion::split: scalar value cut with %s(%r)' % (d.split('::')[-1], sep))
        if not ok:
            cx.violation(fn, 'colon-list-drops-items:%s' % d.split('::')[-1], 'the colon list is cut with %s(%r), which does not yield every '
                         'item of the list: with `PATH=/usr/bin:` (or PATH="") the trailing empty item, which names the working directory, '
                         'is lost and a command that exists only there is "not found" (127)' % (d.split('::')[-1], sep),
                         loc='%s:%s' % (h['file'], c.get('line') or h['line']))
    # the consumer: PATH search walks Expansion::split
    users = F.callers_of(lambda names, t: fn in names)
    roots = sorted({b.root for b, blk, t in users if '::tests' not in b.root})
    cx.site('Expansion::split is walked by: %s' % ', '.join(r.split('::')[-1] for r in roots))
    if not any(r.endswith('::search_path') or 'command::search' in r for r in roots):
        cx.violation(fn, 'path-search-bypasses-split', 'the PATH search no longer obtains its directories from Expansion::split: %s' % roots)


RS.explanation += ' The PATH search visits every item of the colon list, empty ones included (R1c).'


# ---------------------------------------------------------------------------------------
# added after seed wave 4 (C02-s8: a command that expands to nothing kept the previous $?)
ENV_ADT = 'yash_env::Env'


@RS.rule('C02.R13', 'K-PASS', 'every simple command decides $?: a command without a command name (all words expanded to nothing, only assignments '
         'and/or redirections, or nothing at all) sets the exit status on every normal return - `false; $empty; echo $?` prints 0, '
         '`if $empty; then A; else B; fi` runs A (POSIX 2.9.1: "if there is no command name ... the command shall complete with a zero exit status" '
         'or that of the last command substitution)')
def r13(cx):
    F = cx.F
    fn = 'yash_semantics::command::simple_command::absent::execute_absent_target'
    body = F.inlined(F.main_body(fn))
    cx.fn(body.fn)
    fw = [w for w in Q.field_writes(body, ENV_ADT, 'exit_status') if w[3] == 'assign']
    writes = {w[0] for w in fw}
    # normal returns: blocks that write Continue(..) to the return place
    normal = [b for b, j, st in Q.find_aggregates(body, 'core::ops::control_flow::ControlFlow', 'Continue')
              if st['lhs']['l'] == 0 and not st['lhs'].get('p')]
    cx.require(normal, 'execute_absent_target has no `Continue(())` return (anchor moved)')
    cx.site('%s: %d normal return(s); env.exit_status written at %s' % (
        body.fn, len(normal), sorted({body.loc(w[2]) for w in fw})))
    if not writes:
        cx.violation(fn, 'status-never-set', 'a command without a command name never sets $?', loc=body.loc(body.d))
        return
    path = Q.must_pass(body, [0], writes, goal_blocks=normal)
    if path is not None:
        cx.violation(fn, 'normal-return-without-status', 'a command without a command name can complete normally without setting $?: the '
                     'previous status survives (`false; $empty; echo $?` prints 1; `$(exit 3)` as a whole command loses its 3 only if '
                     'the status is not taken from the substitution)', loc=body.loc(body.blocks[path[-1]]['s'][-1] if body.blocks[path[-1]]['s'] else body.term(path[-1])),
                     path=Q.render_path(body, path))


RS.explanation += ' A command without a command name sets $? on every normal return (R13).'


# ---------------------------------------------------------------------------------------
# added after seed wave 5 (C02-s9: the executor searched $PATH also for names containing a slash)
_SEARCH_PATH = 'yash_env::semantics::command::search::search_path'
_SEARCH_PATH_REVIEWED = {
    # function (prefix) -> reason why the call needs no slash test of its own
    'yash_env::semantics::command::search::resolve_builtin':
        'the name is that of a substitutive built-in found in the built-in table; classify() sends every name containing a slash to '
        'Target::External before the table is consulted (C02.R1)',
}


@RS.rule('C02.R14', 'K-GUARD', 'a command name containing a slash is never looked up in $PATH (XCU 2.9.1.4 step 2: it is executed as the '
         'pathname it is): every call of search_path - command search, the executor of external utilities, the exec built-in - is '
         'behind the "name contains no slash" edge of a test of that very name, except the reviewed substitutive-built-in look-up; '
         '`sub/tool` must not run $dir/sub/tool, and a missing `./tool` is 127, not a namesake under $PATH')
def r14(cx):
    F = cx.F
    n = 0
    for k in sorted(F.bodies):
        if '::tests::' in k or k.endswith('::tests'):
            continue
        raw = F.bodies[k]
        if not Q.find_calls(raw, [_SEARCH_PATH]):
            continue
        if '::tests::' in raw.root:
            continue
        body = raw
        du = Q.DefUse(body)
        for b, t in Q.find_calls(body, [_SEARCH_PATH]):
            n += 1
            reviewed = [r for p_, r in _SEARCH_PATH_REVIEWED.items() if body.root.startswith(p_)]
            if reviewed:
                cx.site('%s: search_path at %s (reviewed: %s)' % (body.fn, body.loc(t), reviewed[0][:60]))
                continue
            cx.fn(body.fn)
            name_src = Q.arg_names(body, du, t)
            guarded = False
            for org, lab, e in Q.implied_conditions(F, body, du, b):
                org, lab = Q.peel_not(du, org, lab)
                if Q.cond_is_call(org, [re.compile(r'^core::str::<impl str>::contains(::<.*>)?$')]) and lab == ('bool', False):
                    pat = Q.arg_names(body, du, org['t'])
                    if any(x is not None and "'/'" in str(x) or '"/"' in str(x) for x in pat[1:]):
                        guarded = True
            cx.site('%s: search_path(%s) at %s behind the no-slash edge: %s' % (body.fn, ', '.join(str(x) for x in name_src[1:]), body.loc(t), guarded))
            if not guarded:
                # a slash test written in a shape this rule does not read (find('/').is_none(), bytes().any(..), split_once) gives no
                # verdict instead of a report
                other = [t2 for b2, t2 in body.calls()
                         if re.search(r'::(find|rfind|split_once|rsplit_once|any|all|position|rposition|memchr|starts_with|matches)(::<.*>)?$', pp.callee(t2).split(' [')[0])
                         and any("'/'" in str(x) or '"/"' in str(x) or 'b\'/\'' in str(x) or '47' == str(x).replace('const ', '').replace('_u8', '')
                                 for x in Q.arg_names(body, du, t2)[1:])]
                cx.require(not other, '%s: the name is tested for a slash in a shape this rule does not read (%s): no verdict'
                           % (body.fn, pp.callee(other[0]) if other else ''))
                cx.violation(body.root, 'path-search-for-slash-name', 'search_path is reached without the test that the name contains no '
                             'slash: a relative pathname such as `sub/tool` or `./tool` is joined to every $PATH directory and a namesake '
                             'found there runs instead of the file named (or instead of status 127 when it does not exist)', loc=body.loc(t))
    cx.floor(n, 4, 'calls of search_path (command search x2, executor of external utilities, exec built-in)')


RS.explanation += ' A name containing a slash is never searched in $PATH: every search_path call is behind the no-slash test (R14).'


# ---------------------------------------------------------------------------------------
# added after seed wave 5 (C02-s10: the pipeline status was returned to the callers and the job-controlled caller dropped it)
_MULTI = 'yash_semantics::command::pipeline::execute_multi_command_pipeline'


@RS.rule('C02.R15', 'K-PASS', 'the exit status of a multi-command pipeline reaches $? on EVERY way of running it - directly and in the '
         'job-controlled foreground subshell of `set -m`: execute_multi_command_pipeline stores env.exit_status itself, or, when it '
         'hands the status back, each of its callers stores the value it gets (a caller that only forwards the divert leaves $? at the '
         'status of the command BEFORE the pipeline, and `!`, &&, ||, if, while over the pipeline take the wrong branch)')
def r15(cx):
    F = cx.F
    body = F.main_body(_MULTI)
    cx.fn(body.fn)
    own = [w for w in Q.field_writes(F.inlined(body), ENV_ADT, 'exit_status') if w[3] == 'assign']
    callers = [(b, blk, t) for b, blk, t in F.callers_of(lambda names, t: _MULTI in names) if '::tests' not in b.root]
    cx.require(callers, 'execute_multi_command_pipeline has no caller (anchor moved)')
    cx.site('%s: stores env.exit_status itself x%d; callers: %s' % (body.fn, len(own), sorted({b.root.split('::')[-1] for b, _, _ in callers})))
    if own:
        return
    # the status is handed back: every caller must store what it receives
    for b, blk, t in callers:
        cb = F.inlined(F.bodies[b.fn]) if b.fn in F.bodies else b
        cx.fn(cb.fn)
        seeds = {t2['dest']['l'] for blk2, t2 in Q.find_calls(cb, [_MULTI])}
        T = Q.forward_taint(cb, seeds)
        stored = False
        for i, j, s, how, f in Q.field_writes(cb, ENV_ADT, 'exit_status'):
            if how == 'assign' and any(p_['l'] in T for p_ in Q.rvalue_places(s['rv'])):
                stored = True
        cx.site('%s: receives the pipeline status; stores it in env.exit_status: %s' % (cb.fn, stored))
        if not stored:
            cx.violation(cb.root, 'pipeline-status-dropped', 'the status returned by execute_multi_command_pipeline is not stored in '
                         'env.exit_status by this caller: the pipeline leaves $? at the status of the previous command '
                         '(`set -m; false | true; echo $?`)', loc=cb.loc(t))


RS.explanation += ' The status of a multi-command pipeline reaches $? on every way of running it, the job-controlled one included (R15).'
