"""C11 - signal dispositions always match the traps; a caught signal runs its trap once.

Structural clauses decided (DESIGN.md 4/C11): who may change a disposition; who may
write the per-signal state and that every update is a compare-and-set on
max(internal, user); the order of Disposition; KILL/STOP and initially-ignored guards;
the pending flag protocol; that every consumer of the system's signal list feeds the
trap set; when traps run and that $? is preserved; dispositions reset before exec;
where override_ignore comes from."""
import json
import re
from engine import RuleSet
import mirq as Q
import hirq as H
import pp
from rules.C08 import await_done, done_block, conds, only_label, cond_name, eq_const_args, holds_eq, EQ, NE

RS = RuleSet(
    'C11',
    explanation=(
        'Caller, writer, guard and order rules on the compiler facts: the only callers of '
        'SignalSystem::set_disposition are the four GrandState functions that also own the per-signal record, raw '
        'sigaction outside the system layer occurs only at start-up (SIGPIPE) and in the tcsetpgrp helper, where the '
        'old handler is restored on every path; GrandState::{current_state, internal_disposition, parent_state} are '
        'written only by those functions; each updater computes old = max(internal, user) before any write, calls '
        'set_disposition(new) exactly on the old != new edge (no other condition may skip it) and commits the record '
        'only when that call did not fail; Disposition is ordered Default < Ignore < Catch by a derived Ord and '
        'Action maps onto it as POSIX requires; SIGKILL and SIGSTOP are rejected before the record is touched and '
        'the initially-ignored rejection happens only without override_ignore, which the trap built-in derives from '
        'the Interactive option; the pending flag is set only by mark_as_caught (called only by catch_signal) and '
        'cleared on the only path that hands out the trap; every function that takes the signal list from the system '
        'passes each signal to TrapSet::catch_signal on every path; traps run after every command and before every '
        'top-level command, never inside another trap, with $? saved before and restored unless the trap was '
        'interrupted; the shell\'s internal dispositions are dropped before every execve.'),
    not_decided='coverage of the merged state machine\'s reachable states (the rules decide that every transition is a '
                'compare-and-set on the right quantities, not that the quantities are right for every history); '
                'delivery timing inside the (simulated or real) kernel',
    trusted=['POSIX trap/Disposition mapping and the Default < Ignore < Catch order transcribed in rules/C11.py'],
    assumptions=['dominance is computed on normal control flow (unwind edges dropped)',
                 'TrapState is reachable from outside yash-env only through shared references (TrapSet API)'],
)

GRAND = 'yash_env::trap::state::GrandState'
TRAPSTATE = 'yash_env::trap::state::TrapState'
DISP = 'yash_env::system::signal::Disposition'
ACTION = 'yash_env::trap::state::Action'
SET_DISP = 'yash_env::trap::SignalSystem::set_disposition'
SIGACTION = 'yash_env::system::signal::Sigaction::sigaction'
UPDATERS = {GRAND + '::set_action', GRAND + '::set_internal_disposition', GRAND + '::enter_subshell', GRAND + '::ignore'}
TRY = Q.TRY_BRANCH + Q.PROPAGATING_CALLS


def _absent_edges(F, body, du, taint):
    """Edges that select Err/None/Break/Pending of a value derived from `taint`."""
    out = set()
    for b in body.live_blocks():
        ec = Q.edge_condition(F, body, du, b)
        if not ec or ec[0]['k'] != 'discr' or ec[0]['pl']['l'] not in taint:
            continue
        for tgt, labs in ec[1].items():
            if labs and all(l[0] == 'variant' and l[1] in Q.ABSENT_VARIANTS for l in labs):
                out.add((b, tgt))
    return out


# ----------------------------------------------------------------- R1
@RS.rule('C11.R1', 'K-CALLERS', 'dispositions are changed only by the GrandState updaters; raw sigaction only at start-up and in the tcsetpgrp helper (restored)')
def r1(cx):
    F = cx.F
    sites = F.callers_of(lambda names, t: SET_DISP in names)
    cx.floor(len(sites), 6, 'SignalSystem::set_disposition call sites')
    for b, i, t in sites:
        cx.site('%s calls set_disposition at %s' % (b.root, b.loc(t)))
        cx.fn(b.root)
        if b.root in UPDATERS:
            continue
        if re.match(r'^<.* as yash_env::trap::SignalSystem>::set_disposition$', b.root):
            continue        # forwarding impl (Rc<S>)
        cx.violation(b.root, 'caller:set_disposition', 'a signal disposition is changed outside GrandState::{set_action, '
                     'set_internal_disposition, enter_subshell, ignore}: the trap table no longer knows what is installed',
                     loc=b.loc(t))
    raw = F.callers_of(lambda names, t: any(n == SIGACTION or n.endswith(' as yash_env::system::signal::Sigaction>::sigaction') for n in names))
    cx.floor(len(raw), 3, 'raw sigaction call sites')
    RUN_UNBLOCKING = '<S as yash_env::job::tcsetpgrp::RunUnblocking>::run_unblocking'
    for b, i, t in raw:
        cx.site('%s calls sigaction at %s' % (b.root, b.loc(t)))
        if b.root.startswith('yash_env::system::') or b.root.startswith('<') and ' as yash_env::system::signal::Sigaction>' in b.root:
            continue        # the system layer itself (Concurrent::set_disposition, forwarding impls)
        if b.root == 'yash_cli::main':
            du = Q.DefUse(b)
            names = Q.arg_names(b, du, t)
            disp = du.origin(t['a'][2])
            ok = any(n and n.endswith('SIGPIPE') for n in names) and disp['k'] == 'agg' and disp['rv'].get('variant') == 'Default'
            if not ok:
                cx.violation(b.root, 'startup-sigaction', 'the only raw sigaction at start-up is SIGPIPE -> Default '
                             '(undoing the Rust runtime); found %s' % names[1:], loc=b.loc(t))
            continue
        if b.root == RUN_UNBLOCKING:
            continue
        cx.violation(b.root, 'caller:sigaction', 'raw sigaction outside the system layer bypasses the trap table', loc=b.loc(t))
    # run_unblocking: the handler replaced by Default is restored on every path
    bodies = [b for b in F.logical(RUN_UNBLOCKING) if Q.find_calls(b, [SIGACTION])]
    cx.require(len(bodies) == 1, 'body of run_unblocking with the sigaction calls not found')
    body = bodies[0]
    cx.fn(body.fn)
    du = Q.DefUse(body)
    calls = Q.find_calls(body, [SIGACTION])
    first = [(b, t) for b, t in calls if du.origin(t['a'][2])['k'] == 'agg' and du.origin(t['a'][2])['rv'].get('variant') == 'Default']
    cx.require(len(first) == 1, 'run_unblocking: the sigaction(signal, Default) call was not found')
    fb, ft = first[0]

    def release(tainted):
        return {b for b, t in calls if t is not ft and Q.operand_local(t['a'][2]) in tainted}
    paths, tainted, rel, absent = Q.resource_leak_paths(F, body, fb, ft['dest']['l'], release)
    cx.site('%s: sigaction(signal, Default) at %s, restored at %s' % (body.fn, body.loc(ft), [body.loc(body.term(b)) for b in sorted(rel)]))
    if not rel:
        cx.violation(RUN_UNBLOCKING, 'handler-not-restored', 'the previous handler is never restored', loc=body.loc(ft))
    for ex in Q.leaking_exits(F, body, fb, rel, absent):
        cx.violation(RUN_UNBLOCKING, 'handler-not-restored|exit:%s' % ex['label'], 'run_unblocking returns through %s with the '
                     'signal still at its default disposition instead of the one the trap table believes is installed'
                     % ex['what'], loc=ex['loc'], path=ex['path'])


# ----------------------------------------------------------------- R2
WRITERS_OK = {
    'current_state': UPDATERS | {GRAND + '::mark_as_caught', GRAND + '::handle_if_caught'},
    'internal_disposition': UPDATERS,
    'parent_state': UPDATERS | {GRAND + '::clear_parent_state'},
}
CTORS_OK = UPDATERS | {GRAND + '::insert_from_system_if_vacant', '<yash_env::trap::state::GrandState as core::clone::Clone>::clone'}


def root_local(du, operand):
    """The local an operand is a plain copy / borrow of (through unnamed single-definition temporaries)."""
    l = Q.operand_local(operand)
    for _ in range(10):
        if l is None:
            return None
        d = du.single_def(l)
        if d is None or d[1] == 't' or d[2]['k'] != 'assign':
            return l
        rv = d[2]['rv']
        if rv['k'] == 'use' and Q.operand_place(rv['o']) is not None and Q.is_plain(Q.operand_place(rv['o'])):
            l = Q.operand_place(rv['o'])['l']
        elif rv['k'] == 'ref' and Q.is_plain(rv['pl']):
            l = rv['pl']['l']
        else:
            return l
    return l


def record_field(du, operand, depth=6):
    """Field of GrandState an operand's value is read from (through copies, borrows and Into::into)."""
    o = du.origin(operand)
    for _ in range(depth):
        if o['k'] in ('place', 'ref'):
            pl = du.deref_origin(o['pl'])
            f = Q._projects_field(pl, GRAND, None)
            if f:
                return f
            if Q.is_plain(pl):
                o = du.origin_place(pl)
                if o['k'] == 'place' and o['pl'] == pl:
                    return None
                continue
            return None
        if o['k'] == 'call' and o['t']['a'] and Q.callee_is(o['t'], [re.compile(r'Into<.*>>::into$'), re.compile(r'From<.*>>::from$')]):
            o = du.origin(o['t']['a'][0])
            continue
        return None
    return None


def _error_edges(F, body, du, taint):
    """Edges that select the failure (Err / Break residual) of a value derived from `taint`."""
    out = set()
    for b in body.live_blocks():
        ec = Q.edge_condition(F, body, du, b)
        if not ec or ec[0]['k'] != 'discr' or ec[0]['pl']['l'] not in taint:
            continue
        for tgt, labs in ec[1].items():
            if labs and all(l[0] == 'variant' and l[1] in ('Err', 'Break') for l in labs):
                out.add((b, tgt))
    return out


def _max_call(du, operand):
    """The Ord::max call an operand (or a reference to a named local) comes from."""
    org = du.origin(operand)
    if org['k'] == 'ref':
        org = du.origin_place(org['pl'])
    if org['k'] == 'call' and Q.callee_is(org['t'], ['core::cmp::Ord::max', '*::Ord::max']):
        return org
    return None


def _old_value(F, du, operand):
    """(origin, record fields read) of an operand that is the effective disposition max(internal, user):
    either a direct Ord::max call, or a call of a GrandState helper method whose body is that max
    (extracting `fn effective_disposition(&self)` is a behaviour-preserving refactoring)."""
    m = _max_call(du, operand)
    if m is not None:
        return m, sorted(str(record_field(du, x)) for x in m['t']['a'])
    org = du.origin(operand)
    if org['k'] == 'ref':
        org = du.origin_place(org['pl'])
    if org['k'] == 'call':
        callee = org['t']['f'].get('def') or ''
        cb = F.bodies.get(callee) if callee.startswith('yash_env::trap::state::GrandState::') else None
        if cb is not None and len(cb.blocks) < 40:
            cdu = Q.DefUse(cb)
            for blk, t in Q.find_calls(cb, ['core::cmp::Ord::max', '*::Ord::max']):
                if t['dest']['l'] == 0 or any(s['k'] == 'assign' and s['lhs']['l'] == 0 and s['rv']['k'] == 'use' and
                                               Q.operand_local(s['rv']['o']) == t['dest']['l'] for _, _, s in cb.stmts()):
                    return org, sorted(str(record_field(cdu, x)) for x in t['a'])
    return None, []


@RS.rule('C11.R2', 'K-WRITERS+K-SIBLING', 'per-signal record: written only by its updaters; every update is set_disposition(new) exactly on old != new, committed on success')
def r2(cx):
    F = cx.F
    n = 0
    for body in F.bodies.values():
        for fld, ok in WRITERS_OK.items():
            for b, j, s, kind, f in Q.field_writes(body, GRAND, fld):
                n += 1
                cx.site('%s: %s of GrandState::%s at %s' % (body.root, kind, fld, body.loc(s)))
                if body.root not in ok:
                    cx.violation(body.root, 'writer:%s' % fld, 'GrandState::%s is modified outside its updaters' % fld, loc=body.loc(s))
        for b, j, s in Q.find_aggregates(body, GRAND):
            cx.site('%s: constructs a GrandState at %s' % (body.root, body.loc(s)))
            if body.root not in CTORS_OK:
                cx.violation(body.root, 'constructor', 'a GrandState is constructed outside the trap state module\'s updaters',
                             loc=body.loc(s))
    cx.floor(n, 5, 'writes to the per-signal record')
    # the three compare-and-set updaters
    for fn, fld in ((GRAND + '::set_action', 'current_state'), (GRAND + '::set_internal_disposition', 'internal_disposition'),
                    (GRAND + '::enter_subshell', 'internal_disposition')):
        body = F.main_body(fn)
        cx.fn(body.fn)
        du = Q.DefUse(body)
        commits = [(b, j, s) for b, j, s, kind, f in Q.field_writes(body, GRAND, fld) if kind == 'assign'
                   and [e['f'] for e in s['lhs']['p'] if isinstance(e, dict) and 'f' in e][-1] == fld]
        if len(commits) != 1:
            cx.violation(fn, 'commit-count', 'expected exactly one assignment that commits %s, found %d' % (fld, len(commits)),
                         loc=body.loc(body.d))
            continue
        wb, wj, ws = commits[0]
        wconds = {(c[2], c[1]) for c in conds(F, body, du, wb)}
        cas = []
        for b, t in Q.find_calls(body, [SET_DISP]):
            cs = conds(F, body, du, b)
            cmp_ = [c for c in cs if c[0]['k'] == 'call' and Q.callee_is(c[0]['t'], NE + EQ) and
                    (c[1][1] if Q.callee_is(c[0]['t'], NE) else not c[1][1]) and len(c[0]['t']['a']) == 2 and
                    any(_old_value(F, du, a)[0] is not None for a in c[0]['t']['a'])]
            if cmp_:
                cas.append((b, t, cs, cmp_[-1]))
            else:
                # `old != new || <reviewed extra reason>`: the comparison does not dominate the call, but the call is reached only
                # through its "different" edge or through the reviewed edge (enter_subshell: option == Ignore, where the call
                # also unblocks the signal, C08.R3b)
                diff_edges, extra_edges, cmp_c = set(), set(), None
                for u in sorted(body.live_blocks()):
                    ec = Q.edge_condition(F, body, du, u)
                    if not ec or ec[0]['k'] != 'call' or not Q.callee_is(ec[0]['t'], NE + EQ):
                        continue
                    ct = ec[0]['t']
                    is_ne = Q.callee_is(ct, NE)
                    consts = eq_const_args(body, du, ct)
                    for tgt, labs in ec[1].items():
                        for lab in labs:
                            differs = lab[1] if is_ne else not lab[1]
                            if len(ct['a']) == 2 and any(_old_value(F, du, a)[0] is not None for a in ct['a']) and differs:
                                diff_edges.add((u, tgt))
                                cmp_c = (ec[0], lab, ((u, tgt)))
                            if fn.endswith('::enter_subshell') and any(n.endswith('EnterSubshellOption::Ignore') for n in consts) and \
                                    (lab[1] if not is_ne else not lab[1]):
                                extra_edges.add((u, tgt))
                if cmp_c and diff_edges and b not in body.reachable(0, removed_edges=diff_edges | extra_edges) and \
                        b in body.reachable(0, removed_edges=extra_edges):
                    cs2 = [c for c in cs]
                    cas.append((b, t, cs2, (cmp_c[0], cmp_c[1], (cmp_c[2][0], cmp_c[2][1]))))
        cx.site('%s: commit of %s at %s; compare-and-set set_disposition at %s' % (body.fn, fld, body.loc(ws), [body.loc(t) for _, t, _, _ in cas]))
        if len(cas) != 1:
            cx.violation(fn, 'no-compare-and-set', 'the update of %s is not accompanied by exactly one set_disposition call on the '
                         'max(internal, user) old != new edge (found %d): the installed disposition would go stale' % (fld, len(cas)),
                         loc=body.loc(ws))
            continue
        b, t, cs, c = cas[0]
        cmp_t = c[0]['t']
        # old = max(internal_disposition, Into(current_state.action)): the operand that reads both from the record
        sides = []
        for i, a in enumerate(cmp_t['a']):
            m, reads = _old_value(F, du, a)
            sides.append((i, m, reads))
        olds = [x for x in sides if x[2] == ['current_state', 'internal_disposition']]
        if len(olds) != 1:
            cx.violation(fn, 'old-value', 'one side of the comparison must be the old effective disposition '
                         'max(internal_disposition, user action) read from the record; the sides read %s' % [x[2] for x in sides],
                         loc=body.loc(cmp_t))
            continue
        old = olds[0][1]
        new_local = root_local(du, cmp_t['a'][1 - olds[0][0]])
        all_writes = [wb2 for f2 in ('current_state', 'internal_disposition') for wb2, j2, s2, k2, _ in Q.field_writes(body, GRAND, f2)]
        if any(old['b'] in body.reachable(x) for x in all_writes):
            cx.violation(fn, 'old-after-write', 'the old effective disposition is computed after the record was modified',
                         loc=body.loc(old['t']))
        # the installed value is the `new` operand of the comparison
        if root_local(du, t['a'][2]) != new_local:
            cx.violation(fn, 'installs-other-value', 'set_disposition installs a value that is not the `new` side of the '
                         'old != new comparison', loc=body.loc(t))
        # nothing but old != new (and "the condition is a signal") may skip the call
        for c2 in cs:
            if (c2[2], c2[1]) in wconds or c2 is c or c2[2] == c[2]:
                continue
            if c2[0]['k'] == 'discr' and only_label(cs, c2, ('variant', 'Signal')):
                continue
            cx.violation(fn, 'extra-guard', 'set_disposition is skipped under a condition other than old == new: the installed '
                         'disposition can differ from max(internal, user)', loc=body.loc(body.term(c2[2][0])))
        # commit only after success / skip; and on every non-error path
        taint = Q.forward_taint(body, {t['dest']['l']}, through_calls=Q.AWAIT_CALLS + TRY)
        absent = _error_edges(F, body, du, taint)
        if not absent:
            cx.violation(fn, 'error-ignored', 'a failure of set_disposition is not propagated', loc=body.loc(t))
        if any(wb == v or wb in body.reachable(v) for (u, v) in absent):
            cx.violation(fn, 'commit-after-failure', 'the record is updated although set_disposition failed', loc=body.loc(ws))
        oks = [bb for bb, jj, ss in Q.find_aggregates(body, 'core::result::Result', 'Ok') if ss['lhs']['l'] == 0]
        p = Q.must_pass(body, [c[2][0]], {wb}, goal_blocks=set(oks), removed_edges=absent)
        if p:
            cx.violation(fn, 'commit-skipped', 'a successful path from the comparison to Ok(()) does not commit the new %s' % fld,
                         loc=body.loc(ws), path=Q.render_path(body, p))
        cx.sample({'function': body.fn, 'compare': body.loc(cmp_t), 'set_disposition': body.loc(t), 'commit': body.loc(ws)})


# ----------------------------------------------------------------- R3
@RS.rule('C11.R3', 'K-TYPE+K-TABLE', 'Disposition is ordered Default < Ignore < Catch by a derived Ord; Action and initial dispositions map onto it as POSIX says')
def r3(cx):
    F = cx.F
    a = F.adt(DISP)
    names = [v['name'] for v in a['variants']]
    loc = '%s:%s' % (a['file'], a['line'])
    cx.site('Disposition variants in declaration order: %s' % names)
    if names != ['Default', 'Ignore', 'Catch']:
        cx.violation(DISP, 'variant-order', 'Disposition must be declared Default, Ignore, Catch (max() of the user and internal '
                     'dispositions relies on this order), found %s' % names, loc=loc)
    if any(v['fields'] for v in a['variants']):
        cx.violation(DISP, 'variant-fields', 'Disposition variants must be field-less', loc=loc)
    for tr, meth in (('core::cmp::Ord', 'cmp'), ('core::cmp::PartialOrd', 'partial_cmp')):
        impls = [i for i in F.impls if i.get('self_adt') == DISP and i.get('trait_def') == tr]
        cx.site('impl %s for Disposition: %d' % (tr, len(impls)))
        if len(impls) != 1:
            cx.violation(DISP, 'no-impl:%s' % tr.split('::')[-1], 'Disposition must implement %s' % tr, loc=loc)
            continue
        defs = [it['def'] for it in impls[0]['items'] if it['name'] == meth]
        cx.require(defs, 'method %s of impl %s for Disposition not found' % (meth, tr))
        body = F.body(defs[0])
        cx.fn(defs[0])
        callees = sorted({pp.callee(t) for b, t in body.calls()})
        derived = all(c.startswith('core::intrinsics::discriminant_value') or
                      re.search(r'^core::cmp::impls::<impl core::cmp::(Partial)?Ord for isize>::(partial_)?cmp$', c) for c in callees) and \
            any('discriminant_value' in c for c in callees) and len(callees) == 2
        if not derived:
            cx.violation(DISP, 'hand-written:%s' % meth, '%s::%s for Disposition is not the derived discriminant comparison '
                         '(calls %s)' % (tr, meth, callees), loc=body.loc(body.d))
    # other overrides of max/min/clamp would bypass the order
    for i in F.impls:
        if i.get('self_adt') == DISP and i.get('trait_def') == 'core::cmp::Ord':
            extra = [it['name'] for it in i['items'] if it['name'] in ('max', 'min', 'clamp')]
            if extra:
                cx.violation(DISP, 'ord-override', 'Ord::%s is overridden for Disposition' % extra, loc=loc)
    fn = [k for k in F.hir if k.endswith('>::from') and
          'core::convert::From<&yash_env::trap::state::Action> for yash_env::system::signal::Disposition' in k]
    cx.require(len(fn) == 1, 'From<&Action> for Disposition not found: %s' % fn)
    table, m = H.fn_match_table(F, fn[0], ACTION)
    cx.fn(fn[0])
    want = {'Default': 'Default', 'Ignore': 'Ignore', 'Command': 'Catch'}
    for v, (i, b) in table.items():
        cx.cellcount(1)
        got = H.short(H.path_def(b) or '?')
        if want.get(v) != got:
            cx.violation(fn[0], 'cell:%s' % v, 'Action::%s must map to Disposition::%s, found %s' % (v, want.get(v), got),
                         loc='%s:%s' % (F.hir[fn[0]]['file'], F.hir[fn[0]]['line']))
    fn2 = TRAPSTATE + '::from_initial_disposition'
    table, m = H.fn_match_table(F, fn2, DISP)
    cx.fn(fn2)
    want = {'Default': 'Default', 'Ignore': 'Ignore', 'Catch': 'Default'}
    for v, (i, b) in table.items():
        cx.cellcount(1)
        got = H.short(H.path_def(b) or '?')
        if want.get(v) != got:
            cx.violation(fn2, 'cell:%s' % v, 'an inherited disposition %s must be recorded as Action::%s, found %s' % (v, want.get(v), got),
                         loc='%s:%s' % (F.hir[fn2]['file'], F.hir[fn2]['line']))


# ----------------------------------------------------------------- R4
@RS.rule('C11.R4', 'K-GUARD', 'SIGKILL/SIGSTOP are rejected before the record is touched; InitiallyIgnored only without override_ignore')
def r4(cx):
    F = cx.F
    fn = 'yash_env::trap::TrapSet::set_action_impl'
    body = F.main_body(fn)
    cx.fn(body.fn)
    du = Q.DefUse(body)
    inner = Q.find_calls(body, [GRAND + '::set_action'])
    cx.require(len(inner) == 1, 'GrandState::set_action not called exactly once by set_action_impl')
    ib, it = inner[0]
    touch = {ib} | {b for b, t in Q.find_calls(body, ['yash_env::trap::TrapSet::clear_parent_states', re.compile(r'BTreeMap::<K, V, A>::entry$')])}
    # the Signal edge of the condition
    sig_targets = []
    for sb in body.live_blocks():
        ec = Q.edge_condition(F, body, du, sb)
        if ec and ec[0]['k'] == 'discr' and 'Condition' in (ec[0].get('ty') or ''):
            for tgt, labs in ec[1].items():
                if set(labs) == {('variant', 'Signal')}:
                    sig_targets.append(tgt)
    if not sig_targets:
        cx.violation(fn, 'no-signal-case', 'set_action_impl does not single out signal conditions', loc=body.loc(body.d))
    for K in ('SIGKILL', 'SIGSTOP'):
        tests = [(b, t) for b, t in Q.find_calls(body, EQ + NE) if any(n.endswith('Signals::' + K) for n in eq_const_args(body, du, t))]
        cx.site('%s: test against %s at %s' % (body.fn, K, [body.loc(t) for _, t in tests]))
        if len(tests) != 1:
            cx.violation(fn, 'no-test:%s' % K, 'a trap for %s is not rejected' % K, loc=body.loc(it))
            continue
        tb, tt = tests[0]
        ec = Q.edge_condition(F, body, du, tt['to'])
        cx.require(ec is not None, 'test against %s does not branch' % K)
        is_eq = Q.callee_is(tt, EQ)
        hit = [tgt for tgt, labs in ec[1].items() if ('bool', is_eq) in labs]
        cx.require(len(hit) == 1, 'edges of the %s test not understood' % K)
        reach = body.reachable(hit[0])
        if touch & reach:
            cx.violation(fn, 'not-rejected:%s' % K, 'when the signal is %s the trap table is still modified' % K, loc=body.loc(tt))
        errs = [b for b, j, s in Q.find_aggregates(body, 'yash_env::trap::state::SetActionError', K)]
        if not any(e in reach for e in errs):
            cx.violation(fn, 'no-error:%s' % K, 'the %s case does not return SetActionError::%s' % (K, K), loc=body.loc(tt))
        for st in sig_targets:
            p = Q.must_pass(body, [st], {tb}, goal_blocks=touch)
            if p:
                cx.violation(fn, 'test-bypassed:%s' % K, 'a signal condition can reach the trap table without the %s test' % K,
                             loc=body.loc(tt), path=Q.render_path(body, p))
    # InitiallyIgnored
    g = F.main_body(GRAND + '::set_action')
    cx.fn(g.fn)
    du2 = Q.DefUse(g)
    pnames = [p_.get('name') for p_ in F.hir_of(GRAND + '::set_action')['params']]
    cx.require('override_ignore' in pnames, 'parameter override_ignore of GrandState::set_action not found (%s)' % pnames)
    errs = Q.find_aggregates(g, 'yash_env::trap::state::SetActionError', 'InitiallyIgnored')
    cx.floor(len(errs), 2, 'InitiallyIgnored rejections in GrandState::set_action')
    for b, j, s in errs:
        cs = conds(F, g, du2, b)
        flags = {cond_name(g, du2, c): c[1][1] for c in cs if c[1][0] == 'bool' and c[0]['k'] != 'call'}
        cx.site('%s: Err(InitiallyIgnored) at %s under override_ignore=%s' % (g.fn, g.loc(s), flags.get('override_ignore')))
        if flags.get('override_ignore') is not False:
            cx.violation(GRAND + '::set_action', 'initially-ignored-unguarded', 'InitiallyIgnored is returned although '
                         'override_ignore may be set: an interactive shell could not trap a signal ignored on entry', loc=g.loc(s))
        # and only when the signal really was ignored: an == Ignore comparison holds
        ign = any(c[0]['k'] == 'call' and Q.callee_is(c[0]['t'], EQ) and c[1] == ('bool', True) and
                  (any(n.endswith('::Ignore') for n in eq_const_args(g, du2, c[0]['t'])) or
                   any(du2.origin(a)['k'] == 'ref' and du2.origin_place(du2.origin(a)['pl'])['k'] == 'agg' and
                       du2.origin_place(du2.origin(a)['pl'])['rv'].get('variant') == 'Ignore' for a in c[0]['t']['a'])) for c in cs)
        if not ign:
            cx.violation(GRAND + '::set_action', 'initially-ignored-without-test', 'InitiallyIgnored is returned without the '
                         'signal having been found ignored', loc=g.loc(s))
    # the reverse: in a non-interactive shell the initially ignored signal is never re-armed:
    # every set_disposition(signal, <new>) in the Occupied arm is unreachable from the rejection edges (they return)
    for b, j, s in errs:
        rs = g.reachable(b)
        if any(cb in rs for cb, ct in Q.find_calls(g, [SET_DISP])):
            cx.violation(GRAND + '::set_action', 'rejected-but-installed', 'after rejecting the trap the disposition is still changed',
                         loc=g.loc(s))


# ----------------------------------------------------------------- R5
_F = [None]


def _derived_from_field(body, operand, adt, field):
    """The operand's value is computed from a read of `adt.field` (through copies, `&&`, matches! temporaries)."""
    l = Q.operand_local(operand)
    if l is None:
        return False
    seeds = set()
    for blk, j, st in body.stmts():
        if st['k'] == 'assign' and not st['lhs'].get('p'):
            for pl in Q.rvalue_places(st['rv']):
                if Q._projects_field(pl, adt, field):
                    seeds.add(st['lhs']['l'])
    if not seeds:
        return False
    # data flow, and control dependence of a constant-assigned flag on a test of a seeded value
    taint = Q.forward_taint(body, seeds, through_calls=[])
    if l in taint:
        return True
    du = Q.DefUse(body)
    # `a && b` / matches! lower to a flag assigned in several blocks: what decides which assignment runs
    seen = set()
    todo = [l]
    while todo:
        x = todo.pop()
        if x in seen:
            continue
        seen.add(x)
        for blk, idx, node in du.defs.get(x, []):
            for org, lab, e in Q.dominating_conditions(_F[0], body, du, blk):
                pl = org.get('pl') if org['k'] in ('place', 'discr') else None
                if pl is not None and (pl['l'] in taint or Q._projects_field(pl, adt, field)):
                    return True
            if idx != 't' and node.get('k') == 'assign' and node['rv']['k'] == 'use':
                src = Q.operand_place(node['rv']['o'])
                if src is not None and not src.get('p'):
                    todo.append(src['l'])
    return False


@RS.rule('C11.R5b', 'K-PASS', 'replacing the action of an existing trap record keeps a delivery that is still pending: the new state takes the '
         'pending flag of the state it replaces (a signal caught while another trap runs is not forgotten when its trap is redefined)')
def r5b(cx):
    F = cx.F
    _F[0] = F
    fn = GRAND + '::set_action'
    body = F.main_body(fn)
    cx.fn(body.fn)
    du = Q.DefUse(body)
    ws = [(b, j, s) for b, j, s, kind, f in Q.field_writes(body, GRAND, 'current_state') if kind == 'assign' and
          [e['f'] for e in s['lhs'].get('p') or [] if isinstance(e, dict) and 'f' in e][-1:] == ['current_state']]
    cx.require(ws, 'set_action no longer assigns GrandState::current_state on an existing record')
    for b, j, s in ws:
        ok = False
        src = s['rv']
        o = du.origin(src['o']) if src['k'] == 'use' else {'k': 'agg', 'rv': src} if src['k'] == 'agg' else {'k': '?'}
        if o['k'] == 'agg' and len(o['rv'].get('ops', [])) == 3:
            ok = _derived_from_field(body, o['rv']['ops'][2], TRAPSTATE, 'pending')
        cx.site('%s: current_state replaced at %s; pending flag carried over from the replaced state: %s' % (body.fn, body.loc(s), ok))
        if not ok:
            cx.violation(fn, 'pending-lost-on-replace', 'set_action overwrites the record of a signal with a fresh state whose pending flag is false: a '
                         'signal that was caught while another trap action was running (deferred) is forgotten when that action redefines its trap - '
                         '`trap "echo old" USR2; trap \'kill -USR2 $$; trap "echo new" USR2\' USR1; kill -USR1 $$` runs the USR2 action zero times',
                         loc=body.loc(s))


@RS.rule('C11.R5', 'K-PASS', 'pending flag: set only by mark_as_caught (called only by catch_signal), cleared on the only path that hands out the trap')
def r5(cx):
    F = cx.F
    _F[0] = F
    n = 0
    for body in F.bodies.values():
        for b, j, s, kind, f in Q.field_writes(body, TRAPSTATE, 'pending'):
            n += 1
            val = s['rv']['o'].get('c') if s['rv']['k'] == 'use' else None
            cx.site('%s: %s of TrapState::pending (%s) at %s' % (body.root, kind, val, body.loc(s)))
            if kind != 'assign':
                cx.violation(body.root, 'pending-borrowed', 'TrapState::pending is mutably borrowed', loc=body.loc(s))
            elif val == 'true' and body.root != GRAND + '::mark_as_caught':
                cx.violation(body.root, 'pending-set', 'the pending flag is set outside GrandState::mark_as_caught', loc=body.loc(s))
            elif val == 'false' and body.root != GRAND + '::handle_if_caught':
                cx.violation(body.root, 'pending-cleared', 'the pending flag is cleared outside GrandState::handle_if_caught: a caught '
                             'signal would lose its trap execution', loc=body.loc(s))
            elif val not in ('true', 'false'):
                cx.violation(body.root, 'pending-computed', 'the pending flag is assigned a computed value', loc=body.loc(s))
        for b, j, s in Q.find_aggregates(body, TRAPSTATE):
            o = s['rv']['ops'][2] if len(s['rv']['ops']) == 3 else {}
            carried = body.root == GRAND + '::set_action' and 'c' not in o and \
                _derived_from_field(body, o, TRAPSTATE, 'pending')
            if carried:
                cx.site('%s: TrapState constructed with the pending flag of the state it replaces at %s (decided by C11.R5b)' % (body.root, body.loc(s)))
                continue
            if o.get('c') != 'false' and not body.root.endswith('core::clone::Clone>::clone') and not body.root.endswith('Default>::default'):
                cx.site('%s: TrapState constructed with pending=%s at %s' % (body.root, o.get('c', 'computed'), body.loc(s)))
                cx.violation(body.root, 'pending-constructed', 'a TrapState is constructed with a pending flag that is not false',
                             loc=body.loc(s))
    cx.floor(n, 2, 'writes to TrapState::pending')
    callers = F.callers_of(lambda names, t: GRAND + '::mark_as_caught' in names)
    cx.floor(len(callers), 1, 'callers of mark_as_caught')
    for b, i, t in callers:
        cx.site('%s calls mark_as_caught at %s' % (b.root, b.loc(t)))
        if b.root != 'yash_env::trap::TrapSet::catch_signal':
            cx.violation(b.root, 'caller:mark_as_caught', 'mark_as_caught may only be called by TrapSet::catch_signal', loc=b.loc(t))
    hb = F.body(GRAND + '::handle_if_caught')
    cx.fn(hb.fn)
    du = Q.DefUse(hb)
    somes = [(b, j, s) for b, j, s in Q.find_aggregates(hb, 'core::option::Option', 'Some') if s['lhs']['l'] == 0]
    clears = [(b, j, s) for b, j, s, kind, f in Q.field_writes(hb, TRAPSTATE, 'pending')]
    cx.require(somes, 'handle_if_caught has no Some(..) return')
    for b, j, s in somes:
        cx.site('%s: Some(trap) at %s' % (hb.fn, hb.loc(s)))
        cleared = any((cb == b and cj < j) or (cb != b and hb.dominates(cb, b)) for cb, cj, cs_ in clears)
        if not cleared:
            cx.violation(hb.fn, 'some-without-clear', 'the trap is handed out without clearing the pending flag: it would run again '
                         'at the next command boundary', loc=hb.loc(s))
        cs = conds(F, hb, du, b)
        tested = any(c[0]['k'] == 'place' and c[1] == ('bool', True) and
                     any(isinstance(e, dict) and e.get('f') == 'pending' for e in c[0]['pl'].get('p') or []) for c in cs)
        if not tested:
            cx.violation(hb.fn, 'some-without-pending', 'the trap is handed out although the signal was not caught', loc=hb.loc(s))
    # consumers of handle_if_caught are the two take_* functions
    for b, i, t in F.callers_of(lambda names, t: GRAND + '::handle_if_caught' in names):
        cx.site('%s calls handle_if_caught at %s' % (b.root, b.loc(t)))
        if b.root not in ('yash_env::trap::TrapSet::take_signal_if_caught', 'yash_env::trap::TrapSet::take_caught_signal'):
            cx.violation(b.root, 'caller:handle_if_caught', 'the pending flag is consumed outside TrapSet::take_*', loc=b.loc(t))


# ----------------------------------------------------------------- R6
SYS_WFS = 'yash_env::system::concurrency::WaitForSignals::wait_for_signals'
CATCH = 'yash_env::trap::TrapSet::catch_signal'
STORE = [re.compile(r'::(extend|push|push_back|extend_from_slice)$')]
NEXT = [re.compile(r'Iterator>::next$'), '*::Iterator::next']


def _feeds(F, body, du, seeds, start_blocks):
    """Does `body` pass every element of the list held in `seeds` to catch_signal on every
    path from start_blocks to a return (paths on which the list is absent excepted)?
    Returns (found catch call?, witness path or None)."""
    taint = Q.forward_taint(body, seeds)
    catches = [(b, t) for b, t in Q.find_calls(body, [CATCH]) if Q.operand_local(t['a'][1]) in taint]
    if not catches:
        return False, None
    heads = set()
    for b, t in catches:
        # the loop head: the Iterator::next whose value reaches the catch
        for nb, nt in Q.find_calls(body, NEXT):
            if nt['dest']['l'] in taint and b in body.reachable(nb):
                heads.add(nb)
    if not heads:
        return True, [catches[0][0]]
    # only tests on the list itself (moves, `?`, Option/Result wrappers) make it absent; values merely computed
    # next to it (the result of the interrupted built-in, say) do not
    narrow = Q.forward_taint(body, seeds, through_calls=Q.PROPAGATING_CALLS + Q.AWAIT_CALLS + [
        re.compile(r'^core::option::Option::<T>::(as_ref|as_mut|as_deref|as_deref_mut|copied|cloned|take)$'),
        re.compile(r'^core::result::Result::<T, E>::(as_ref|as_mut|ok)$'), re.compile(r'Clone>::clone$')])
    absent = _absent_edges(F, body, du, narrow)
    p = Q.must_pass(body, start_blocks, heads, removed_edges=absent)
    return True, p


@RS.rule('C11.R6', 'K-CALLERS', 'every function that takes the caught-signal list from the system feeds each signal to TrapSet::catch_signal')
def r6(cx):
    F = cx.F
    sites = [(b, i, t) for b, i, t in F.callers_of(lambda names, t: SYS_WFS in names)
             if not re.match(r'^<.* as yash_env::system::concurrency::WaitForSignals>::wait_for_signals$', b.root)]
    cx.floor(len(sites), 3, 'consumers of WaitForSignals::wait_for_signals')
    for body, blk, t in sites:
        cx.fn(body.fn)
        du = Q.DefUse(body)
        d = await_done(F, body, du, t)
        taint = Q.forward_taint(body, {t['dest']['l']})
        how = None
        # 1. same body
        found, p = _feeds(F, body, du, {t['dest']['l']}, [d if d is not None else blk])
        if found:
            how = 'loop in the same function'
            if p:
                cx.violation(body.root, 'catch-skipped', 'a path returns the signals without recording them in the trap set',
                             loc=body.loc(t), path=Q.render_path(body, p))
        # 2. stored into a captured collection, consumed by the enclosing function
        if how is None:
            for sb, st in Q.find_calls(body, STORE):
                if not any(Q.operand_local(a) in taint for a in st['a'][1:]):
                    continue
                o = du.origin(st['a'][0])
                hops = 0
                while o['k'] == 'ref' and (o['pl'].get('p') or []) == ['*'] and hops < 4:
                    o = du.origin_place({'l': o['pl']['l']})
                    hops += 1
                pl = o.get('pl') if o['k'] in ('ref', 'place') else None
                cap = None
                if pl is not None and pl['l'] == 1:
                    fs = [e['f'] for e in pl.get('p') or [] if isinstance(e, dict) and 'f' in e]
                    cap = int(fs[0]) if fs and str(fs[0]).isdigit() else None
                if cap is None:
                    continue
                parent_fn = body.fn.rsplit('::{closure', 1)[0]
                parent = F.bodies.get(parent_fn)
                if parent is None:
                    continue
                pdu = Q.DefUse(parent)
                for ab, aj, as_ in parent.stmts():
                    if as_['k'] == 'assign' and as_['rv']['k'] == 'agg' and as_['rv'].get('def') == body.fn:
                        op = as_['rv']['ops'][cap]
                        oo = pdu.origin(op)
                        base = oo['pl']['l'] if oo['k'] == 'ref' else Q.operand_local(op)
                        found, p = _feeds(F, parent, pdu, {base}, [ab])
                        if found:
                            how = 'collected into `%s`, drained by %s' % (parent.local_name(base), parent.fn)
                            cx.fn(parent.fn)
                            # every batch obtained from the system reaches the collection: no exit, and no next wait, before the store
                            start = d if d is not None else t.get('to')
                            if start is not None:
                                q = Q.must_pass(body, [start], {sb}, goal_blocks=set(body.return_blocks()) | {blk})
                                if q is not None:
                                    cx.violation(body.root, 'batch-dropped', 'a batch of caught signals can leave this function (or be '
                                                 'overwritten by the next wait) without being added to `%s`: the signals delivered together '
                                                 'with the one that ends the wait (e.g. SIGTERM arriving with the SIGINT that interrupts a '
                                                 'built-in) are consumed but their traps never run' % parent.local_name(base),
                                                 loc=body.loc(t), path=Q.render_path(body, q))
                            if p:
                                cx.violation(body.root, 'catch-skipped', 'a path leaves %s without recording the collected signals '
                                             'in the trap set' % parent.fn, loc=parent.loc(as_), path=Q.render_path(parent, p))
        # 3. returned to the callers
        if how is None and 0 in taint:
            callers = F.callers_of(lambda names, tt: body.root in names)
            oks = 0
            for cb, ci, ct in callers:
                cdu = Q.DefUse(cb)
                found, p = _feeds(F, cb, cdu, {ct['dest']['l']}, [ct['to']] if ct.get('to') is not None else [ci])
                if found and not p:
                    oks += 1
                    cx.fn(cb.fn)
                else:
                    cx.violation(cb.root, 'catch-missing', 'the signals returned by %s are not all passed to TrapSet::catch_signal: '
                                 'a signal caught here never runs its trap' % body.root, loc=cb.loc(ct),
                                 path=Q.render_path(cb, p) if p else None)
            if callers:
                how = 'returned to %d caller(s), %d feed the trap set' % (len(callers), oks)
        cx.site('%s: wait_for_signals at %s -> %s' % (body.fn, body.loc(t), how))
        if how is None:
            cx.violation(body.root, 'catch-missing', 'the signal list obtained from the system is not passed to '
                         'TrapSet::catch_signal: a signal caught here never runs its trap', loc=body.loc(t))
    # catch_signal itself marks the entry of that signal
    cb = F.body(CATCH)
    cx.fn(CATCH)
    if not Q.find_calls(cb, [GRAND + '::mark_as_caught']):
        cx.violation(CATCH, 'no-mark', 'TrapSet::catch_signal does not mark the signal as caught', loc=cb.loc(cb.d))


# ----------------------------------------------------------------- R7
RUN_TRAPS = 'yash_semantics::trap::signal::run_traps_for_caught_signals'
RUN_TRAP = 'yash_semantics::trap::run_trap'


@RS.rule('C11.R7', 'K-GUARD+K-ORDER', 'traps run after every command, never inside another trap; $? is saved before and restored unless interrupted')
def r7(cx):
    F = cx.F
    body = F.main_body(RUN_TRAPS)
    cx.fn(body.fn)
    du = Q.DefUse(body)
    runs = Q.find_calls(body, [RUN_TRAP])
    takes = Q.find_calls(body, ['yash_env::trap::TrapSet::take_caught_signal'])
    cx.require(runs and takes, 'run_trap / take_caught_signal not called by run_traps_for_caught_signals')
    for b, t in runs + takes:
        cs = conds(F, body, du, b)
        guarded = any(Q.cond_is_call(c[0], ['yash_semantics::trap::signal::in_trap']) and c[1] == ('bool', False) for c in cs)
        cx.site('%s: %s at %s, under !in_trap: %s' % (body.fn, pp.callee(t).split('::')[-1], body.loc(t), guarded))
        if not guarded:
            cx.violation(RUN_TRAPS, 'unguarded:%s' % pp.callee(t).split('::')[-1], 'a trap can be taken/run while another trap action '
                         'is running (the in_trap test does not dominate it)', loc=body.loc(t))
    # the trap that is run is the one taken; polls signals first
    poll = Q.find_calls(body, ['yash_env::Env::<S>::poll_signals'])
    if not poll or not all(body.dominates(poll[0][0], b) for b, t in takes):
        cx.violation(RUN_TRAPS, 'no-poll', 'pending signals are not polled before traps are taken', loc=body.loc(body.d))
    # run_trap: save / restore of the exit status
    # private same-module helpers inlined: `settle_exit_status(&mut env, &result, previous_exit_status)` holding the restore is
    # the same save / restore (the helper's `env.exit_status = <parameter>` is a copy of the saved local once inlined)
    rb = F.inlined(RUN_TRAP)
    cx.fn(rb.fn)
    for h in getattr(rb, 'inlined_from', None) or []:
        cx.fn(h)
    du2 = Q.DefUse(rb)
    loops = Q.find_calls(rb, ['*::read_eval_loop'])
    cx.require(len(loops) == 1, 'read_eval_loop not called exactly once in run_trap')
    lb, lt = loops[0]
    saves = []
    for b, j, s in rb.stmts():
        if s['k'] == 'assign' and s['rv']['k'] == 'use' and Q.is_plain(s['lhs']):
            pl = Q.operand_place(s['rv']['o'])
            if pl is not None and Q._projects_field(pl, 'yash_env::Env', 'exit_status') and rb.dominates(b, lb):
                saves.append((b, j, s))
    restores = []
    for b, j, s in rb.stmts():
        if s['k'] == 'assign' and Q._projects_field(s['lhs'], 'yash_env::Env', 'exit_status') and s['rv']['k'] == 'use':
            l = root_local(du2, s['rv']['o'])
            if any(l == sv[2]['lhs']['l'] for sv in saves):
                restores.append((b, j, s))
    cx.site('%s: exit status saved at %s, restored at %s' % (rb.fn, [rb.loc(s) for _, _, s in saves], [rb.loc(s) for _, _, s in restores]))
    if not saves or not restores:
        cx.violation(RUN_TRAP, 'no-save-restore', 'run_trap does not save $? before the trap action and restore it afterwards',
                     loc=rb.loc(lt))
    else:
        d = await_done(F, rb, du2, lt)
        cx.require(d is not None, 'read_eval_loop is not awaited in run_trap')
        interrupt = set()
        for sb in rb.live_blocks():
            ec = Q.edge_condition(F, rb, du2, sb)
            if ec and ec[0]['k'] == 'discr' and 'Divert' in (ec[0].get('ty') or ''):
                for tgt, labs in ec[1].items():
                    if set(labs) == {('variant', 'Interrupt')}:
                        interrupt.add((sb, tgt))
        p = Q.must_pass(rb, [d], {b for b, j, s in restores}, removed_edges=interrupt)
        if p:
            cx.violation(RUN_TRAP, 'restore-skipped', 'after a trap action that was not interrupted, $? is not restored on some path',
                         loc=rb.loc(restores[0][2]), path=Q.render_path(rb, p))
        # the trap frame is pushed before the action runs
        frames = [(b, t) for b, t in Q.find_calls(rb, ['*::push_frame'])]
        ok = False
        for b, t in frames:
            o = du2.origin(t['a'][1])
            if o['k'] == 'agg' and o['rv'].get('variant') == 'Trap' and rb.dominates(b, lb):
                ok = True
        if not ok:
            cx.violation(RUN_TRAP, 'no-trap-frame', 'the trap action does not run under a Frame::Trap (in_trap could not see it)',
                         loc=rb.loc(lt))
    # Command::execute runs the traps after the command, run_command before
    cfn = '<yash_syntax::syntax::Command as yash_semantics::command::Command<S>>::execute'
    cb = F.main_body(cfn)
    cx.fn(cb.fn)
    du3 = Q.DefUse(cb)
    rt = Q.find_calls(cb, [RUN_TRAPS])
    cx.site('%s: run_traps_for_caught_signals at %s' % (cb.fn, [cb.loc(t) for _, t in rt]))
    if not rt:
        cx.violation(cfn, 'no-trap-run', 'traps are not run after a command', loc=cb.loc(cb.d))
    else:
        p = Q.must_pass(cb, [0], {b for b, _ in rt})
        if p:
            cx.violation(cfn, 'trap-run-skipped', 'a path through Command::execute returns without running pending traps',
                         loc=cb.loc(rt[0][1]), path=Q.render_path(cb, p))
        subs = [(b, t) for b, t in cb.calls() if any(n.endswith('::execute') for n in Q.callee_names(t))]
        cx.floor(len(subs), 3, 'sub-command execute calls in Command::execute')
        for b, t in subs:
            d = await_done(F, cb, du3, t)
            if d is None or not any(cb.dominates(d, r) or r in cb.reachable(d) for r, _ in rt):
                cx.violation(cfn, 'traps-before-command', 'traps are run before the command, not after it', loc=cb.loc(t))
        if await_done(F, cb, du3, rt[0][1]) is None:
            cx.violation(cfn, 'trap-run-not-awaited', 'run_traps_for_caught_signals is not awaited', loc=cb.loc(rt[0][1]))
    rfn = 'yash_semantics::runner::run_command'
    rcb = F.main_body(rfn)
    cx.fn(rcb.fn)
    du4 = Q.DefUse(rcb)
    rt = Q.find_calls(rcb, [RUN_TRAPS])
    ex = [(b, t) for b, t in rcb.calls() if any(n.endswith('::execute') for n in Q.callee_names(t))]
    cx.site('%s: run_traps_for_caught_signals at %s, execute at %s' % (rcb.fn, [rcb.loc(t) for _, t in rt], [rcb.loc(t) for _, t in ex]))
    if not rt or not ex or not all(await_done(F, rcb, du4, rt[0][1]) is not None and
                                   rcb.dominates(await_done(F, rcb, du4, rt[0][1]), b) for b, t in ex):
        cx.violation(rfn, 'no-trap-run-before', 'pending traps are not run (to completion) before a top-level command', loc=rcb.loc(rcb.d))


# ----------------------------------------------------------------- R8
@RS.rule('C11.R8', 'K-GUARD', 'override_ignore reaching TrapSet::set_action is `Interactive == On`; nobody passes a constant true')
def r8(cx):
    F = cx.F
    TS = 'yash_env::trap::TrapSet::set_action'

    def classify(body, du, operand, depth=2):
        o = du.origin(operand)
        if o['k'] == 'const':
            return 'const:%s' % o['o'].get('c')
        if o['k'] == 'call' and Q.callee_is(o['t'], EQ):
            t = o['t']
            names = eq_const_args(body, du, t)
            src = [Q.value_source(body, du, a) for a in t['a']]
            got = any(s is not None and Q.callee_is(s, ['yash_env::option::OptionSet::get']) and
                      any(n.endswith('Option::Interactive') for n in eq_const_args(body, du, s)) for s in src)
            if got and any(n.endswith('State::On') for n in names):
                return 'interactive'
            return 'other-comparison'
        # parameter (plain fn) or captured parameter (coroutine): follow to the callers
        idx = None
        if o['k'] == 'arg':
            idx = o['l'] - 1
        elif o['k'] == 'place' and o['pl']['l'] == 1 and body.d.get('coroutine'):
            fs = [e['f'] for e in o['pl'].get('p') or [] if isinstance(e, dict) and 'f' in e]
            idx = int(fs[0]) if fs and str(fs[0]).isdigit() else None
        if idx is not None and depth > 0:
            root = body.root
            res = set()
            for cb, ci, ct in F.callers_of(lambda names, tt: root in names):
                if idx < len(ct['a']):
                    res.add(classify(cb, Q.DefUse(cb), ct['a'][idx], depth - 1))
            if res:
                return '|'.join(sorted(res))
            return 'param-without-callers'
        return 'unknown:%s' % o['k']
    sites = F.callers_of(lambda names, t: TS in names)
    cx.floor(len(sites), 1, 'callers of TrapSet::set_action')
    for body, blk, t in sites:
        du = Q.DefUse(body)
        cls = classify(body, du, t['a'][-1])
        cx.site('%s: TrapSet::set_action(.., override_ignore = %s) at %s' % (body.root, cls, body.loc(t)))
        cx.fn(body.fn)
        if cls != 'interactive':
            cx.violation(body.root, 'override-ignore:%s' % cls.split(':')[0], 'override_ignore must be the value of `Interactive == On` '
                         '(found %s): otherwise a non-interactive shell could trap or reset a signal that was ignored on entry, or an '
                         'interactive one could not' % cls, loc=body.loc(t))
    # the public wrapper forwards its parameter unchanged
    for f_ in (TS, 'yash_env::trap::TrapSet::set_action_impl'):
        pn = [p_.get('name') for p_ in F.hir_of(f_)['params']]
        cx.require('override_ignore' in pn, 'parameter override_ignore of %s not found (%s)' % (f_, pn))
    sb = F.main_body(TS)
    cx.fn(sb.fn)
    du = Q.DefUse(sb)
    for b, t in Q.find_calls(sb, ['yash_env::trap::TrapSet::set_action_impl']):
        nm = Q.operand_name(sb, du, t['a'][-1])
        cx.site('%s forwards %s to set_action_impl' % (sb.fn, nm))
        if nm != 'override_ignore':
            cx.violation(TS, 'override-not-forwarded', 'TrapSet::set_action does not forward override_ignore', loc=sb.loc(t))
    ib = F.main_body('yash_env::trap::TrapSet::set_action_impl')
    du = Q.DefUse(ib)
    for b, t in Q.find_calls(ib, [GRAND + '::set_action']):
        nm = Q.operand_name(ib, du, t['a'][-1])
        cx.site('%s forwards %s to GrandState::set_action' % (ib.fn, nm))
        if nm != 'override_ignore':
            cx.violation('yash_env::trap::TrapSet::set_action_impl', 'override-not-forwarded', 'set_action_impl does not forward '
                         'override_ignore', loc=ib.loc(t))


# ----------------------------------------------------------------- R9
EXECVE = 'yash_env::system::process::Exec::execve'
DISABLE = 'yash_env::trap::TrapSet::disable_internal_dispositions'


@RS.rule('C11.R9', 'K-ORDER', 'the shell\'s internal dispositions are removed (awaited) before every execve')
def r9(cx):
    F = cx.F
    sites = [(b, i, t) for b, i, t in F.callers_of(lambda names, t: EXECVE in names)
             if not (b.root.startswith('<') or '::delegates::' in b.root)]
    cx.floor(len(sites), 1, 'execve call sites')

    def protected(body, blk):
        du = Q.DefUse(body)
        for db, dt in Q.find_calls(body, [DISABLE]):
            d = await_done(F, body, du, dt)
            if d is not None and (d == blk or body.dominates(d, blk)):
                return True
        return False
    for body, blk, t in sites:
        cx.fn(body.fn)
        if protected(body, blk):
            cx.site('%s: execve at %s, after disable_internal_dispositions' % (body.fn, body.loc(t)))
            continue
        # a helper: every call of it must be protected
        callers = F.callers_of(lambda names, tt: body.root in names)
        ok = bool(callers) and all(protected(cb, ci) for cb, ci, ct in callers)
        cx.site('%s: execve at %s, helper called from %s (protected: %s)' % (body.fn, body.loc(t), [cb.root for cb, ci, ct in callers], ok))
        if not ok:
            cx.violation(body.root, 'exec-with-internal-dispositions', 'execve is reached without disable_internal_dispositions having '
                         'completed: the new program inherits the shell\'s own ignore/catch settings (e.g. SIGQUIT, SIGTSTP ignored)',
                         loc=body.loc(t))
    # disable_internal_dispositions covers every signal the enable_* functions may set
    db = F.logical(DISABLE)
    enabled, disabled = set(), set()
    for fn in F.bodies:
        if not fn.startswith('yash_env::trap::TrapSet::'):
            continue
        b = F.bodies[fn]
        du = Q.DefUse(b)
        for blk, t in Q.find_calls(b, ['yash_env::trap::TrapSet::set_internal_disposition']):
            sig = [a.get('cdef', '').split('::')[-1] for a in t['a'] if a.get('cdef')]
            disp = [du.origin(a) for a in t['a']]
            var = [o['rv'].get('variant') for o in disp if o['k'] == 'agg' and o['rv'].get('adt') == DISP]
            if not sig or not var:
                continue
            if var[0] == 'Default':
                if 'disable' in b.root:
                    disabled.add(sig[0])
            else:
                enabled.add(sig[0])
    # transitive: disable_internal_dispositions calls the two group functions
    cx.site('internal dispositions enabled for %s; reset to Default for %s' % (sorted(enabled), sorted(disabled)))
    cx.require(enabled, 'no enable_internal_disposition_* call found')
    called = set()
    for b in db:
        for blk, t in b.calls():
            for n in Q.callee_names(t):
                called.add(n)
    for need in ('disable_internal_dispositions_for_terminators', 'disable_internal_dispositions_for_stoppers'):
        if not any(n.endswith(need) for n in called):
            cx.violation(DISABLE, 'missing:%s' % need, 'disable_internal_dispositions does not call %s' % need, loc=db[0].loc(db[0].d))
    if not enabled <= disabled:
        cx.violation(DISABLE, 'not-all-reset', 'internal dispositions are enabled for %s but only %s are ever reset'
                     % (sorted(enabled), sorted(disabled)), loc=db[0].loc(db[0].d))


# shared with C08 (the same clause serves both properties): on subshell entry only the action of an
# existing record changes - in particular the Inherited origin of a signal that was ignored when the shell
# started survives, so it stays untrappable in the subshell
@RS.rule('C11.R9b', 'K-RES', 'the internal dispositions removed for execve are installed again when execve fails and the shell goes on '
         '(an interactive shell that survives a failed `exec` must still ignore SIGTERM/SIGQUIT/SIGTSTP.. and catch SIGINT/SIGCHLD)')
def r9b(cx):
    F = cx.F
    fn = 'yash_env::semantics::command::replace_current_process'
    body = F.main_body(fn)
    cx.fn(body.fn)
    off = Q.find_calls(body, [re.compile(r'TrapSet::disable_internal_dispositions(_for_\w+)?$')])
    if not off:
        cx.site('%s: the internal dispositions are not removed here' % body.fn)
        return
    on = Q.find_calls(body, [re.compile(r'TrapSet::(enable_internal_dispositions?(_for_\w+)?|restore_internal_dispositions|set_internal_disposition)$')])
    errs = [b for b, j, s in Q.find_aggregates(body, 'core::result::Result', 'Err') if s['lhs']['l'] == 0]
    cx.require(errs, 'replace_current_process has no failure return')
    p = Q.must_pass(body, [off[0][1]['to']], {b for b, _ in on}, goal_blocks=set(errs)) if off[0][1].get('to') is not None else [0]
    cx.site('%s: internal dispositions removed at %s; installed again before the failure return: %s' % (body.fn, body.loc(off[0][1]), p is None and bool(on)))
    if p is not None or not on:
        cx.violation(fn, 'internal-dispositions-not-restored', 'replace_current_process removes the shell\'s internal dispositions before execve and '
                     'returns the execve failure without installing them again: after a failed `exec` an interactive shell keeps running with '
                     'SIGINT, SIGTERM, SIGQUIT and the job-control signals at their default action - `yash -i +m -c \'exec /nonexistent; kill -TERM $$; '
                     'echo alive\'` is killed (143) where the documentation says these signals are always ignored by an interactive shell',
                     loc=body.loc(off[0][1]))


from rules.C08 import r3 as _c08_enter_subshell_tables
from engine import Rule
RS.rules.append(Rule('C11.R10', 'K-TABLE+K-GUARD', 'subshell entry touches only the action of a trap record (origin Inherited is preserved); '
                     'reset/ignore tables as in C08.R3', _c08_enter_subshell_tables))


from rules.C08 import r3b as _c08_enter_subshell_origin
RS.rules.append(Rule('C11.R10b', 'K-GUARD+K-SIBLING', 'subshell entry: a signal the shell itself starts to ignore gets origin Subshell (trappable in the '
                     'subshell); a signal ignored on entry keeps origin Inherited; the disposition is installed even when unchanged (C08.R3b)',
                     _c08_enter_subshell_origin))


# --- explanation addendum (generated catalogue in DESIGN.md reads RS.explanation)
RS.explanation += ' Added later: every batch of caught signals taken from the system reaches the collection that is drained into the trap set (R6 batch clause).'


# ----------------------------------------------------------------- R11
TRAPSET = 'yash_env::trap::TrapSet'
TS_ENTER = TRAPSET + '::enter_subshell'
GS_ENTER = GRAND + '::enter_subshell'
PLAIN_TABLE_ITER = re.compile(r'^<alloc::collections::btree::map::(IterMut|ValuesMut|Iter|Values)<')


def _passes_record_on(F, callee):
    """A private helper of the trap module that hands the record it is given to GrandState::enter_subshell on every path
    (extracting the loop body into `async fn enter_one(state, ..)` is a behaviour-preserving refactoring)."""
    if not callee or not callee.startswith('yash_env::trap::') or callee == GS_ENTER or (F.fns.get(callee) or {}).get('vis') == 'pub':
        return False
    try:
        hb = F.main_body(callee)
    except Exception:
        return False
    hdu = Q.DefUse(hb)
    done = set()
    for b, t in Q.find_calls(hb, [GS_ENTER]):
        d = await_done(F, hb, hdu, t)
        if d is not None:
            done.add(d)
    return bool(done) and Q.must_pass(hb, [0], done) is None


@RS.rule('C11.R11', 'K-PASS', 'subshell entry: every record of the trap table is handed to GrandState::enter_subshell (awaited) - no test in '
         'TrapSet::enter_subshell can skip an existing entry; which signals change is decided per record by GrandState (C11.R10)')
def r11(cx):
    F = cx.F
    body = F.main_body(TS_ENTER)
    cx.fn(body.fn)
    du = Q.DefUse(body)
    # iterators derived from self.traps
    seeds = set()
    for b, j, s in body.stmts():
        if s['k'] == 'assign' and Q.is_plain(s['lhs']) and any(Q._projects_field(pl, TRAPSET, 'traps') for pl in Q.rvalue_places(s['rv'])):
            seeds.add(s['lhs']['l'])
    for b, t in body.calls():
        if any(Q.operand_place(a) is not None and Q._projects_field(Q.operand_place(a), TRAPSET, 'traps') for a in t['a']):
            seeds.add(t['dest']['l'])
    cx.require(seeds, 'TrapSet::enter_subshell does not read TrapSet::traps')
    table = Q.forward_taint(body, seeds)
    heads = [(b, t) for b, t in Q.find_calls(body, NEXT) if t['a'] and Q.operand_local(t['a'][0]) in table]
    cx.require(heads, 'TrapSet::enter_subshell: no loop over the trap table (Iterator::next on an iterator of TrapSet::traps) found')
    other_loops = []
    handed = 0
    for hb, ht in heads:
        entry = Q.forward_taint(body, {ht['dest']['l']})
        through, shown = set(), []
        for b, t in body.calls():
            callee = t['f'].get('def') or ''
            direct = Q.callee_is(t, [GS_ENTER])
            if not direct and not _passes_record_on(F, callee):
                continue
            # the record handled is the one the iterator yielded (enter_subshell on some other record does not count)
            if not (Q.operand_local(t['a'][0]) in entry if direct else any(Q.operand_local(a) in entry for a in t['a'])):
                continue
            d = await_done(F, body, du, t)
            shown.append(body.loc(t))
            if d is None:
                cx.violation(TS_ENTER, 'entry-not-awaited', 'the future returned by GrandState::enter_subshell for a trap table entry is not awaited: '
                             'the record and the disposition of that signal are not changed for the subshell', loc=body.loc(t))
                d = b
            through.add(d)
        if not through:
            # a loop over the table that does something else with the records (clear_parent_states written out in place):
            # not the loop this clause is about, as long as some loop does hand the records on
            other_loops.append((hb, ht))
            cx.site('%s: another loop over the trap table at %s (hands nothing to GrandState::enter_subshell)' % (body.fn, body.loc(ht)))
            continue
        handed += 1
        names = Q.callee_names(ht)
        cx.require(any(PLAIN_TABLE_ITER.match(n) for n in names), 'TrapSet::enter_subshell iterates over the trap table through %s, not a plain '
                   'BTreeMap iterator: an adaptor could drop entries before the loop body, the rule cannot follow it' % sorted(names))
        ec = Q.edge_condition(F, body, du, ht['to']) if ht.get('to') is not None else None
        cx.require(ec is not None and ec[0]['k'] == 'discr', 'the result of Iterator::next over the trap table is not matched right after the call')
        starts = [tgt for tgt, labs in ec[1].items() if ('variant', 'Some') in labs]
        cx.require(starts, 'no Some edge after Iterator::next over the trap table')
        cx.site('%s: loop over the trap table at %s; each entry handed to GrandState::enter_subshell at %s' % (body.fn, body.loc(ht), shown))
        p = Q.must_pass(body, starts, through, goal_blocks=set(body.return_blocks()) | {hb})
        if p is not None:
            cx.violation(TS_ENTER, 'entry-skipped', 'an existing entry of the trap table can be skipped on subshell entry without reaching '
                         'GrandState::enter_subshell: its command trap / internal disposition is not reset and - since the code after the loop only '
                         'handles signals WITHOUT an entry - SIGINT/SIGQUIT with an entry (after `trap - INT` or `trap -p`) keep the default action in '
                         'an asynchronous subshell instead of being ignored', loc=body.loc(body.term(p[-2] if len(p) > 1 else p[0])),
                         path=Q.render_path(body, p))
    if not handed:
        hb, ht = other_loops[0]
        cx.violation(TS_ENTER, 'entries-not-reset', 'the entries of the trap table are not passed to GrandState::enter_subshell on subshell entry: '
                     'command traps of the parent stay armed in the subshell', loc=body.loc(ht))


RS.explanation += ' On subshell entry every record of the trap table reaches GrandState::enter_subshell, no test in TrapSet::enter_subshell skips one (R11).'


# ---------------------------------------------------------------------------------------
# added after the audit C13h2 #4 (open finding: a program started with `exec` inherits a signal mask that blocks every trapped signal)
@RS.rule('C11.R9c', 'K-ORDER', 'exec resets caught signals for the new program (POSIX: "signals set to be caught are set to the default action" - '
         'and the shell keeps every signal that has a trap command BLOCKED outside its select loop, a mask that execve hands on): before '
         'execve the dispositions of the command traps are reset through the signal system (which unblocks them), not only the internal ones')
def r9c(cx):
    F = cx.F
    fn = 'yash_env::semantics::command::replace_current_process'
    body = F.main_body(fn)
    cx.fn(body.fn)
    execs = Q.find_calls(body, [re.compile(r'::Exec::execve$'), re.compile(r'::execve$')])
    cx.require(execs, 'replace_current_process no longer calls execve')

    def resets_command_traps(callee, depth=2):
        """A TrapSet / GrandState routine that looks at Action::Command and calls SignalSystem::set_disposition."""
        bodies = F.logical(callee) if callee in F.by_root else []
        sets = any(Q.find_calls(b, [re.compile(r'SignalSystem::set_disposition$'), re.compile(r'::set_disposition$')]) for b in bodies)
        looks = False
        for b in bodies:
            du = Q.DefUse(b)
            for u in b.live_blocks():
                ec = Q.edge_condition(F, b, du, u)
                if ec and ec[0]['k'] == 'discr' and re.search(r'trap::(\w+::)?Action', ec[0].get('ty') or ''):
                    looks = True
        if sets and looks:
            return True
        if depth:
            for b in bodies:
                for blk, t in b.calls():
                    c = pp.callee(t)
                    if c.startswith('yash_env::trap::') and c != callee and resets_command_traps(c.split('::{closure')[0], depth - 1):
                        return True
        return False

    before = []
    for eb, et in execs:
        for blk, t in body.calls():
            c = pp.callee(t)
            if c.startswith('yash_env::trap::') and 'internal' not in c.split('::')[-1] and body.dominates(blk, eb) and resets_command_traps(c):
                before.append((blk, t))
    cx.site('%s: command traps reset (and thereby unblocked) before execve: %s' % (body.fn, [pp.callee(t).split('::')[-1] for b, t in before] or 'no'))
    if not before:
        cx.violation(fn, 'trapped-signals-stay-blocked-across-exec', 'replace_current_process removes only the shell\'s internal dispositions before '
                     'execve; signals with a trap command stay blocked (the shell unblocks them only inside select) and the new program inherits '
                     'that mask: `{ trap x USR1; exec sleep 3; } & kill -USR1 $!; wait $!` reports 0 after 3 s (SigBlk of the exec\'d process shows '
                     'USR1), where dash and bash report "killed by SIGUSR1" at once', loc=body.loc(execs[0][1]))


RS.explanation += ' Before execve the command traps are reset through the signal system, which unblocks them (R9c, open finding).'


from rules.C08 import r13 as _c08_mask_window
RS.rules.append(Rule('C11.R12', 'K-ORDER+K-RES', 'no disposition is changed (and nothing returns) between block_sigint_sigquit and restore_sigmask: a caught signal '
                     'stays blocked outside select and the select mask never inherits the temporary block (C08.R13)', _c08_mask_window))
RS.explanation += ' No disposition is changed between block_sigint_sigquit and restore_sigmask (R12 = C08.R13).'


def _cond_key(c):
    o, lab, e = c
    return (json.dumps(o.get('pl'), sort_keys=True) if o['k'] != 'call' else id(o['t']), lab, e)


def _all_conds(F, body, du, blk, _depth=0):
    """Conditions that hold in block blk: Q.implied_conditions (materialised `&&` / `||`, copies of an inlined helper's result),
    C08.conds, and the resolution of a tested bool local that is only ever assigned constants (`let f = matches!(..); .. if f`,
    also when the test reads a copy of the flag): what holds in every block that assigns the selected constant."""
    out = list(Q.implied_conditions(F, body, du, blk))
    seen = {_cond_key(c) for c in out}
    for c in conds(F, body, du, blk):
        if _cond_key(c) not in seen:
            seen.add(_cond_key(c))
            out.append(c)
    if _depth < 3:
        for o, lab, e in list(out):
            if lab[0] != 'bool' or o['k'] != 'place' or o['pl'].get('p'):
                continue
            defs = du.defs.get(o['pl']['l'], [])
            vals = [(b, _const_bool_of(node)) for b, j, node in defs if j != 't']
            if len(defs) < 2 or len(vals) != len(defs) or any(v is None for _, v in vals):
                continue
            common = None
            for b, v in vals:
                if v != lab[1]:
                    continue
                cs = {_cond_key(c): c for c in _all_conds(F, body, du, b, _depth + 1)}
                common = cs if common is None else {k: c for k, c in common.items() if k in cs}
            for k, c in (common or {}).items():
                if k not in seen:
                    seen.add(k)
                    out.append(c)
    return out


def _const_bool_of(node):
    if node.get('k') == 'assign' and node['rv']['k'] == 'use' and node['rv']['o'].get('c') in ('true', 'false'):
        return node['rv']['o']['c'] == 'true'
    return None


# ----------------------------------------------------------------- R13
# added for seed C11-s7 (run_traps_for_caught_signals drained every pending flag into a Vec before running any action)
TAKES = ['yash_env::trap::TrapSet::take_caught_signal', 'yash_env::trap::TrapSet::take_signal_if_caught']
_LIST_PROPAGATORS = Q.PROPAGATING_CALLS + Q.AWAIT_CALLS + Q.TRY_BRANCH + [
    re.compile(r'^core::option::Option::<T>::(as_ref|as_mut|as_deref|copied|cloned|take)$')]


def _runs_trap_of(F, callee, depth=1):
    """`callee` is run_trap itself, or a non-public helper of yash_semantics::trap that reaches (and awaits) run_trap on every
    path to its return (extracting `async fn run_one(env, signal, state)` is a behaviour-preserving refactoring)."""
    if callee == RUN_TRAP:
        return True
    if not callee or depth <= 0 or not callee.startswith('yash_semantics::trap::') or (F.fns.get(callee) or {}).get('vis') == 'pub':
        return False
    try:
        hb = F.main_body(callee)
    except Exception:
        return False
    hdu = Q.DefUse(hb)
    done = set()
    for b, t in hb.calls():
        if _runs_trap_of(F, t['f'].get('def') or '', depth - 1):
            d = await_done(F, hb, hdu, t)
            if d is not None:
                done.add(d)
    return bool(done) and Q.must_pass(hb, [0], done) is None


_OPTION_BRANCH = ['<core::option::Option<T> as core::ops::try_trait::Try>::branch']


def _no_command_none_edges(F, body, du, start, no_command):
    """Edges that are taken only when an inlined helper said "the taken state has no command": the None edge of a test on an
    `Option` (or the Break edge after `?` = Option::branch on it) whose value is the return place of an inlined helper, assigned
    only constant `Some{..}` / `None` aggregates, where EVERY block that assigns `None` is reached only when the action of the
    taken state is not Action::Command (`fn command_and_origin(&TrapState) -> Option<..>` used as `command_and_origin(state)?`:
    the merge at the helper's return block hides which arm leads to which edge of the `?`). The path conditions: the value is
    assigned after `start` on every path to the test, and every link of the copy chain lies on every path from the assignment to
    the test (no stale copy). A helper that answers None for a command keeps its None block outside no_command: nothing is removed."""
    out = set()
    for u in sorted(body.live_blocks()):
        ec = Q.edge_condition(F, body, du, u)
        if not ec or ec[0]['k'] != 'discr' or not Q.is_plain(ec[0]['pl']):
            continue
        edges = [(u, tgt) for tgt, labs in ec[1].items()
                 if labs and all(l[0] == 'variant' and l[1] in ('None', 'Break') for l in labs)]
        if not edges:
            continue
        x, chain = ec[0]['pl']['l'], [ec[0].get('b', u)]
        for _ in range(8):
            d = du.single_def(x)
            if d is None:
                break
            blk, idx, node = d
            if idx == 't':
                if not Q.callee_is(node, _OPTION_BRANCH) or Q.operand_local(node['a'][0]) is None \
                        or not Q.is_plain(Q.operand_place(node['a'][0])):
                    break
            elif not (node['k'] == 'assign' and node['rv']['k'] == 'use' and Q.operand_place(node['rv']['o']) is not None
                      and Q.is_plain(Q.operand_place(node['rv']['o']))):
                break
            chain.append(blk)
            x = Q.operand_local(node['a'][0] if idx == 't' else node['rv']['o'])
        defs = du.defs.get(x, [])
        if len(defs) < 2 or not all(j != 't' and n['k'] == 'assign' and Q.is_plain(n['lhs']) and n['rv']['k'] == 'agg'
                                    and n['rv'].get('adt') == 'core::option::Option' and n['rv'].get('variant') in ('Some', 'None')
                                    for _, j, n in defs):
            continue
        def_blocks = {b for b, _, _ in defs}
        none_blocks = {b for b, _, n in defs if n['rv']['variant'] == 'None'}
        if not none_blocks or not none_blocks <= no_command:
            continue
        if u in def_blocks or u in body.reachable(start, removed=def_blocks):
            continue            # the tested value may have been assigned before the signal was taken
        if any(u in body.reachable(rb, removed={c}) for rb in def_blocks for c in set(chain) - {u, rb}):
            continue            # a link of the copy chain can be skipped: the test may read a stale copy
        out.update(edges)
    return out


def _take_then_run(cx, F, body, fn):
    """The K-PASS clause of R13 on one body that calls TrapSet::take_*. Returns the number of take sites examined."""
    du = Q.DefUse(body)
    takes = Q.find_calls(body, TAKES)
    take_blocks = {b for b, _ in takes}
    n = 0
    for tb, tt in takes:
        n += 1
        if tt.get('to') is None:
            continue
        taint = Q.forward_taint(body, {tt['dest']['l']})
        narrow = Q.forward_taint(body, {tt['dest']['l']}, through_calls=_LIST_PROPAGATORS)
        # "nothing was taken": the None / Break edge of a test on the take result itself (its type still names the TrapState)
        absent = set()
        for u in body.live_blocks():
            ec = Q.edge_condition(F, body, du, u)
            if not ec or ec[0]['k'] != 'discr' or ec[0]['pl']['l'] not in narrow or 'TrapState' not in (ec[0].get('ty') or ''):
                continue
            for tgt, labs in ec[1].items():
                if labs and all(l[0] == 'variant' and l[1] in ('None', 'Break') for l in labs):
                    absent.add((u, tgt))
        # "the signal has no command to run": blocks reached only when the action of the taken state is not Action::Command
        # (decided by a variant test on the taken state's action; through `matches!` / `&&` flags via implied_conditions)
        no_command = set()
        for u in sorted(body.live_blocks()):
            for org, lab, e in _all_conds(F, body, du, u):
                if org['k'] != 'discr' or org['pl']['l'] not in taint or not re.search(r'trap::(\w+::)?Action\b', org.get('ty') or ''):
                    continue
                ec = Q.edge_condition(F, body, du, e[0]) if e[0] != e[1] else None
                labs = ec[1].get(e[1], []) if ec else []
                if labs and ('variant', 'Command') not in labs and all(l[0] == 'variant' for l in labs):
                    no_command.add(u)
                    break
        # the action of the taken state is run (and awaited)
        through, shown = set(), []
        for b, t in body.calls():
            callee = t['f'].get('def') or ''
            if not _runs_trap_of(F, callee):
                continue
            args = t['a'][2:3] if callee == RUN_TRAP else t['a']
            if not any(Q.operand_local(a) in taint for a in args):
                continue            # runs something that was not taken here
            d = await_done(F, body, du, t)
            shown.append(body.loc(t))
            if d is None:
                cx.violation(fn, 'taken-action-not-awaited', 'the future that runs the trap action of the taken signal is not awaited: the pending '
                             'flag is cleared and the action never runs', loc=body.loc(t))
                d = b
            through.add(d)
        helper_none = _no_command_none_edges(F, body, du, tt['to'], no_command) if getattr(body, 'inlined_from', None) else set()
        p = Q.must_pass(body, [tt['to']], through | no_command, goal_blocks=set(body.return_blocks()) | take_blocks,
                        removed_edges=absent | helper_none)
        cx.site('%s: %s at %s; the taken action is run at %s before the next take / return: %s'
                % (body.fn, pp.callee(tt).split('::')[-1], body.loc(tt), shown or 'nowhere', p is None))
        if p is not None:
            end = 'takes the next caught signal' if p[-1] in take_blocks else 'returns'
            cx.violation(fn, 'pending-cleared-without-running', 'after a caught signal has been taken out of the trap set (its pending flag is cleared) '
                         'this function %s without having run that signal\'s trap action: whatever happens later - an earlier action of the same '
                         'batch diverts (`trap return USR1` inside a function, `trap break USR1` in a loop) and the `?` leaves, or the future is '
                         'dropped - the signal is no longer pending anywhere, so its trap runs zero times instead of once' % end,
                         loc=body.loc(tt), path=Q.render_path(body, p))
    return n


@RS.rule('C11.R13', 'K-PASS', 'a pending flag is cleared only immediately before its own action runs: from the Some edge of every '
         'TrapSet::take_caught_signal / take_signal_if_caught, each path to the NEXT take or to a return passes the awaited run_trap of the '
         'taken state (paths on which the taken state has no Action::Command excepted) - caught signals are never collected first and run later')
def r13(cx):
    F = cx.F
    sites = [(b, i, t) for b, i, t in F.callers_of(lambda names, t: any(n in TAKES for n in names))
             if not b.root.startswith('yash_env::trap::')]
    cx.floor(len({b.fn for b, i, t in sites}), 2, 'functions that take caught signals out of the trap set')
    seen = set()
    for b0, _, _ in sites:
        if b0.fn in seen:
            continue
        seen.add(b0.fn)
        cx.fn(b0.fn)
        body = F.inlined(b0)
        du = Q.DefUse(body)
        runs = [t for b, t in body.calls() if _runs_trap_of(F, t['f'].get('def') or '')]
        returned = any(0 in Q.forward_taint(body, {t['dest']['l']}) for b, t in Q.find_calls(body, TAKES))
        sync_private = (F.fns.get(b0.root) or {}).get('vis') != 'pub' and not F.is_async(b0.root) and b0.fn == b0.root
        if not runs and returned and sync_private:
            # a private helper that only fetches the next trap (`fn next_trap(env) -> Option<..>`): the clause is about its callers,
            # which see the take call once the helper is inlined
            callers = F.callers_of(lambda names, tt: b0.root in names)
            followed = 0
            for cb, ci, ct in callers:
                if cb.fn in seen:
                    continue
                seen.add(cb.fn)
                icb = F.inlined(cb)
                if Q.find_calls(icb, TAKES):
                    cx.fn(cb.fn)
                    followed += _take_then_run(cx, F, icb, cb.root)
                else:
                    cx.site('%s calls %s, which takes a caught signal, but the helper cannot be inlined' % (cb.fn, b0.root))
                    cx.violation(cb.root, 'take-helper-not-followed', 'the caller of a helper that takes a caught signal out of the trap set '
                                 'could not be analysed (the helper is not inlinable): the rule cannot see that the action runs', loc=cb.loc(ct))
            if callers:
                continue
        _take_then_run(cx, F, body, b0.root)


RS.explanation += (' A caught signal is taken out of the trap set (pending flag cleared) only immediately before its own action is run and awaited; '
                   'no function drains several pending signals before running them (R13).')


# ----------------------------------------------------------------- R14
# added for seed C11-s8 (= C08): Concurrent::set_disposition unblocked the signal only when the PREVIOUS disposition was Catch.
# The sibling of C08.R3b one layer down: GrandState::enter_subshell(.., Ignore) installs the disposition "even if it does not change"
# because this function then unblocks SIGINT/SIGQUIT; so here nothing but the NEW disposition may decide whether the mask is updated.
SIGNAL_SYSTEM = 'yash_env::trap::SignalSystem'
SIGACTION_CALLS = [SIGACTION, re.compile(r' as yash_env::system::signal::Sigaction>::sigaction$'), '*::Sigaction::sigaction']
SIGMASK_CALLS = ['yash_env::system::signal::Sigmask::sigmask', re.compile(r' as yash_env::system::signal::Sigmask>::sigmask$'), '*::Sigmask::sigmask']
SIGMASK_OP = 'yash_env::system::signal::SigmaskOp'


def _updates_mask(F, t, depth=2):
    """The call changes the process signal mask: Sigmask::sigmask itself or a helper of the system layer that calls it."""
    if Q.callee_is(t, SIGMASK_CALLS):
        return True
    callee = (t['f'].get('def') or '').split('::{closure')[0]
    if depth <= 0 or not callee.startswith('yash_env::system::') or callee not in F.by_root:
        return False
    return any(_updates_mask(F, ct, depth - 1) for hb in F.logical(callee) for _, ct in hb.calls())


def _mask_op(du, t):
    """SigmaskOp variant (Add / Remove / Set) a mask-updating call is given as a plain argument, or None."""
    for a in t['a']:
        o = du.origin(a)
        if o['k'] == 'agg' and o['rv'].get('adt') == SIGMASK_OP:
            return o['rv'].get('variant')
    return None


def _canon_place(du, operand):
    """The place an operand is a copy of / a reference to (for comparing "the same value")."""
    o = du.origin(operand)
    for _ in range(6):
        if o['k'] in ('place', 'ref'):
            pl = du.deref_origin(o['pl'])
            if Q.is_plain(pl):
                o2 = du.origin_place(pl)
                if o2['k'] in ('place', 'ref') and o2.get('pl') != pl:
                    o = o2
                    continue
            return json.dumps(pl, sort_keys=True)
        return None
    return None


def _says_about_new(body, du, org, lab, new_places, variants):
    """What a condition states about the new disposition: ('is', V) / ('is-not', V) for `new == / != Disposition::V`,
    ('variant', V) for a variant test on the value itself; None when the condition is about something else."""
    if org['k'] == 'call' and Q.callee_is(org['t'], EQ + NE) and len(org['t']['a']) == 2 and lab[0] == 'bool':
        ct = org['t']
        if not any(_canon_place(du, a) in new_places for a in ct['a']):
            return None
        consts = [n.rsplit('::', 1)[-1] for n in eq_const_args(body, du, ct) if n.startswith(DISP + '::')]
        if len(consts) != 1 or consts[0] not in variants:
            return None
        equal = lab[1] if Q.callee_is(ct, EQ) else not lab[1]
        return ('is' if equal else 'is-not', consts[0])
    if org['k'] == 'discr' and (org.get('ty') or '').lstrip('&').strip() == DISP and lab[0] == 'variant':
        if _canon_place(du, {'cp': org['pl']}) in new_places:
            return ('variant', lab[1])
    return None


def _contradicting_edges(F, body, du, new_places, variant, variants):
    """Switch edges that cannot be taken when the new disposition is `variant`: the edges of tests `new == / != Disposition::W` and of
    variant tests on the value itself, and every edge into a block whose implied conditions (dominating tests, seen through
    materialised `matches!` / `&&` flags) contradict it."""
    out = set()

    def contradicts(conds):
        per_edge = {}
        for org, lab, e in conds:
            what = _says_about_new(body, du, org, lab, new_places, variants)
            if what is None:
                continue
            if what[0] == 'is' and what[1] != variant or what[0] == 'is-not' and what[1] == variant:
                return True
            if what[0] == 'variant':
                per_edge.setdefault((e, json.dumps(org.get('pl'), sort_keys=True)), set()).add(what[1])
        return any(variant not in labs for labs in per_edge.values())
    live = body.live_blocks()
    for u in live:
        ec = Q.edge_condition(F, body, du, u)
        if ec:
            for tgt, labs in ec[1].items():
                if contradicts([(ec[0], lab, (u, tgt)) for lab in labs]):
                    out.add((u, tgt))
    for s in live:
        if s != 0 and contradicts(_all_conds(F, body, du, s)):
            for u in body.pred(s):
                out.add((u, s))
    return out


@RS.rule('C11.R14', 'K-PASS+K-GUARD', 'SignalSystem::set_disposition of the system layer keeps mask and disposition together on every successful path, '
         'decided by the NEW disposition alone: Catch -> the signal is blocked (awaited) before sigaction installs the handler; Default/Ignore '
         '-> it is unblocked (awaited) after sigaction, whatever sigaction reports as the previous disposition')
def r14(cx):
    F = cx.F
    variants = [v['name'] for v in F.adt(DISP)['variants']]
    cx.require('Catch' in variants and len(variants) >= 2, 'Disposition::Catch not found')
    impls = [it['def'] for i in F.impls if i.get('trait_def') == SIGNAL_SYSTEM for it in i['items'] if it['name'] == 'set_disposition']
    cx.require(impls, 'no implementation of SignalSystem::set_disposition found')
    installers = 0
    for fn in impls:
        bodies = [b for b in F.logical(fn) if Q.find_calls(b, SIGACTION_CALLS)]
        if not bodies:
            fwd = [pp.callee(t) for b in F.logical(fn) for _, t in b.calls() if any(n.endswith('::set_disposition') for n in Q.callee_names(t))]
            cx.site('%s: no sigaction here; forwards to %s' % (fn, sorted(set(fwd)) or 'nothing'))
            if not fwd:
                cx.violation(fn, 'no-sigaction', 'this implementation of SignalSystem::set_disposition neither installs the disposition nor forwards '
                             'the request', loc=F.body(fn).loc(F.body(fn).d))
            continue
        for body in bodies:
            installers += 1
            cx.fn(body.fn)
            du = Q.DefUse(body)
            sig = Q.find_calls(body, SIGACTION_CALLS)
            new_places = {_canon_place(du, st['a'][-1]) for sb, st in sig}
            cx.require(None not in new_places and len(new_places) == 1,
                       '%s: the disposition passed to sigaction is not a plain copy of one parameter / capture' % fn)
            old_taint = set()
            for sb, st in sig:
                old_taint |= Q.forward_taint(body, {st['dest']['l']})
            updates = []
            for b, t in body.calls():
                if any(t is st for _, st in sig) or not _updates_mask(F, t):
                    continue
                d = await_done(F, body, du, t)
                op = _mask_op(du, t)
                if d is None and F.is_async((t['f'].get('def') or '').split('::{closure')[0]):
                    cx.violation(fn, 'mask-update-not-awaited:%s' % op, 'the future of the mask update is not awaited: the mask is not changed',
                                 loc=body.loc(t))
                updates.append((b, t, d if d is not None else b, op))
            cx.site('%s: sigaction at %s; mask updates: %s' % (body.fn, [body.loc(st) for _, st in sig],
                                                                [(op, body.loc(t)) for b, t, d, op in updates] or 'none'))
            if not updates:
                cx.violation(fn, 'mask-never-updated', 'set_disposition installs the disposition but never changes the signal mask: a caught signal '
                             'is delivered outside select, an ignored/defaulted one may stay blocked', loc=body.loc(sig[0][1]))
                continue
            oks = {b for b, j, s in Q.find_aggregates(body, 'core::result::Result', 'Ok') if s['lhs']['l'] == 0}
            goals = oks or set(body.return_blocks())
            err = _error_edges(F, body, du, old_taint)
            for _, t, _, _ in updates:
                err |= _error_edges(F, body, du, Q.forward_taint(body, {t['dest']['l']}, through_calls=Q.AWAIT_CALLS + TRY))
            for v in variants:
                removed = _contradicting_edges(F, body, du, new_places, v, variants) | err
                feasible = body.reachable(0, removed_edges=removed) | {0}
                sigs = [(sb, st) for sb, st in sig if sb in feasible]
                if not sigs:
                    cx.site('%s: new disposition %s: sigaction is not reached' % (body.fn, v))
                    cx.violation(fn, 'not-installed:%s' % v, 'set_disposition(signal, %s) never reaches sigaction' % v, loc=body.loc(sig[0][1]))
                    continue
                sblocks = {sb for sb, _ in sigs}
                if v == 'Catch':
                    through = {d for b, t, d, op in updates if op in ('Add', None)}
                    p = Q.must_pass(body, [0], through, goal_blocks=sblocks, removed_edges=removed)
                    cx.site('%s: new disposition Catch: blocked before sigaction on every path: %s' % (body.fn, p is None))
                    if p is not None:
                        cx.violation(fn, 'catch-not-blocked-first', 'when the new disposition is Catch the handler is installed on a path that has not '
                                     'blocked the signal first: a signal arriving right then runs the handler outside select and its trap waits for '
                                     'an unrelated wake-up', loc=body.loc(body.term(p[-1])), path=Q.render_path(body, p))
                    continue
                after = set()
                for sb in sblocks:
                    after |= body.reachable(sb, removed_edges=removed)
                through = {d for b, t, d, op in updates if op in ('Remove', None) and d in after}
                starts = [st['to'] if st.get('to') is not None else sb for sb, st in sigs]
                p = Q.must_pass(body, starts, through, goal_blocks=goals, removed_edges=removed)
                cx.site('%s: new disposition %s: unblocked after sigaction on every successful path: %s' % (body.fn, v, p is None))
                if p is not None:
                    on_old = False
                    for x, y in zip(p, p[1:]):
                        ec = Q.edge_condition(F, body, du, x)
                        if ec and ((ec[0]['k'] == 'call' and any(Q.operand_local(a) in old_taint or
                                                                   (du.origin(a)['k'] == 'ref' and du.origin(a)['pl']['l'] in old_taint)
                                                                   for a in ec[0]['t']['a'])) or
                                   (ec[0]['k'] in ('discr', 'place') and ec[0]['pl']['l'] in old_taint)):
                            on_old = True
                    cx.violation(fn, 'unblock-skipped:%s' % v, 'set_disposition(signal, %s) can succeed without removing the signal from the '
                                 'signal mask%s. GrandState::enter_subshell(.., Ignore) installs Ignore "even if it does not change" exactly '
                                 'because this call unblocks SIGINT/SIGQUIT, which Config::start blocked before the fork: an asynchronous command '
                                 'started without job control keeps them blocked for its whole life, `trap - INT` in it has no effect, and every '
                                 'program it execs inherits the blocked mask'
                                 % (v, ' - the skipping test reads the PREVIOUS disposition returned by sigaction' if on_old else ''),
                                 loc=body.loc(body.term(p[-2] if len(p) > 1 else p[0])), path=Q.render_path(body, p))
    cx.floor(installers, 1, 'implementations of SignalSystem::set_disposition that call sigaction')


RS.explanation += (' In the system layer set_disposition updates the signal mask on every successful path, decided by the new disposition alone: '
                   'blocked before a handler is installed, unblocked after Default/Ignore is installed whatever the previous disposition was (R14).')


# ---------------------------------------------------------------------------------------
# wave 5 (reported as pre-existing by seed agent C11w5; fix d60b1c6): the handler's slot array must hold every distinct signal
_SLOTS = 'yash_env::system::real::CAUGHT_SIGNALS'
_SIGNAL_NAME = 'yash_env::signal::Name'


def _const_int(F, node, depth=0):
    node = H.peel(node) if isinstance(node, dict) else node
    if not isinstance(node, dict) or depth > 6:
        return None
    if node.get('k') == 'lit' and isinstance(node.get('v'), int):
        return node['v']
    if node.get('k') == 'block' and not node.get('stmts'):
        return _const_int(F, node.get('e'), depth + 1)
    if node.get('k') == 'path' and node.get('def') in F.hir and str(F.hir[node['def']].get('kind')).startswith(('Const', 'AnonConst', 'AssocConst')):
        return _const_int(F, F.hir[node['def']]['body'], depth + 1)
    return None


@RS.rule('C11.R15', 'K-CONST', 'a caught signal is never dropped by the handler for want of room: the async-signal-safe handler of the real '
         'system records each distinct signal in one slot of a fixed static array (a second arrival of the same signal reuses its slot) '
         'and the slots are emptied only by caught_signals() after pselect; trapped signals stay blocked outside pselect, so EVERY trapped '
         'signal may be delivered in one burst - the array must have at least as many slots as the shell knows signals (the named '
         'signals of signal::Name; real-time signals come on top)')
def r15(cx):
    F = cx.F
    cx.require(_SLOTS in F.hir, 'static CAUGHT_SIGNALS not found (anchor moved: review how the handler hands signals over)')
    h = F.hir[_SLOTS]
    cx.fn(_SLOTS)
    lens = []
    for k in sorted(F.hir):
        if k.startswith(_SLOTS + '::{constant#'):
            lens.append(_const_int(F, F.hir[k]['body']))
    body = H.peel(h['body'])
    if isinstance(body, dict) and body.get('k') == 'repeat' and isinstance(body.get('n'), dict):
        lens.append(_const_int(F, body['n']))
    lens = [x for x in lens if x is not None]
    cx.require(lens, 'the length of CAUGHT_SIGNALS is not a constant this rule can read')
    cx.require(_SIGNAL_NAME in F.adts, 'signal::Name not found')
    named = [v['name'] for v in F.adts[_SIGNAL_NAME]['variants'] if not v['fields']]
    ranged = [v['name'] for v in F.adts[_SIGNAL_NAME]['variants'] if v['fields']]
    cx.require(len(named) >= 20, 'signal::Name lists fewer than 20 named signals (anchor changed)')
    n = min(lens)
    cx.site('CAUGHT_SIGNALS has %d slots; signal::Name knows %d named signals (+ the real-time ranges %s)' % (n, len(named), ranged))
    # the handler must fill slots by compare-exchange from the first free one and reuse the slot of the same signal
    hb = F.bodies.get('yash_env::system::real::catch_signal') or F.main_body('yash_env::system::real::catch_signal')
    cas = Q.find_calls(hb, [re.compile(r'Atomic::<isize>::compare_exchange$|AtomicIsize::compare_exchange$')])
    cx.site('catch_signal: compare_exchange x%d' % len(cas))
    cx.require(cas, 'catch_signal no longer claims a slot with compare_exchange (review the hand-over protocol)')
    if n < len(named):
        cx.violation(_SLOTS, 'fewer-slots-than-signals', 'the handler has %d slots for %d named signals (plus real-time signals): when more '
                     'than %d distinct trapped signals are pending at one pselect - they stay blocked, hence pending, while the shell is '
                     'busy - the later ones find no slot and their trap actions never run (`trap` on 9 signals, all sent during one slow '
                     'built-in step: two actions are lost)' % (n, len(named), n), loc='%s:%s' % (h['file'], h['line']))


RS.explanation += ' The signal handler of the real system has a slot for every signal the shell knows, so no caught signal is dropped (R15).'
