"""C06 - the parser is total; printing a parsed command re-parses to the same tree.

Decided here: the token tables of the printer (Display / as_str / as_char / From) and of the
parser (operator trie, keyword and special-parameter tables, modifier and escape lexers,
TryFrom<Operator>) are mutual inverses; the operator trie is well-formed for the binary
search that reads it; printer matches are variant-exhaustive and injective; the two
documented print disambiguations are present under the documented guards."""
import re
from engine import RuleSet
import mirq as Q
import hirq as H

RS = RuleSet(
    'C06',
    explanation=(
        'Table extraction from HIR (constants evaluated, match arms interpreted): for every operator, keyword, special '
        'parameter, switch action/condition, trim side, redirection operator, case continuation, and-or connective and '
        'named escape, the text the printer emits is looked up in the parser\'s own table and must come back as the same '
        'variant (P(D(v)) = v), and for tables with a common domain also D(P(s)) = s; the operator trie (Trie/Edge '
        'constants) spells exactly the as_str image, each edge array is strictly ascending by key (Trie::edge uses '
        'binary_search_by_key: an unsorted node silently loses operators) and Trie::edge really is that binary search; '
        'the characters dispatched to the switch/trim lexers are exactly the keys of their tables (a key dispatched but '
        'not in the table reaches unreachable!(): totality); every printer match over a syntax enum has one non-wildcard '
        'arm set per variant, disjoint from the others; keyword-first simple commands print redirections first exactly '
        'when there is no assignment and the first word is a keyword; `<<` followed by a delimiter starting with an '
        'unquoted `-` prints a separating space.'),
    not_decided='parse(print(parse(s))) = parse(s) on whole trees (spacing between tokens, nesting, quoting of word '
                'contents, here-document bodies); termination and panic-freedom of the parser at large (only the '
                'unreachable!() arms of the modifier lexers are tied to their dispatch); numeric escape forms '
                '(\\cX, \\NNN, \\xHH, \\uHHHH, \\UHHHHHHHH)',
    trusted=['Rust `match` semantics as interpreted by ycheck/hirq (first matching arm, guards)'],
)

SYN = 'yash_syntax::syntax::'
OP = 'yash_syntax::parser::lex::op::Operator'
KW = 'yash_syntax::parser::lex::keyword::Keyword'
OPMOD = 'yash_syntax::parser::lex::op::'
DISPLAY = 'core::fmt::Display'


# ---------------------------------------------------------------- generic helpers (candidates for hirq)
def impl_fn(F, adt, trait_def, item, trait_has=None, self_is_adt=True):
    """Definition path of method `item` of `impl <trait_def> for <adt>`."""
    from facts import AnchorMissing
    hits = []
    for i in F.impls:
        if i.get('trait_def') != trait_def:
            continue
        if i.get('self_adt') != adt:
            continue
        if trait_has is not None and trait_has not in (i.get('trait') or ''):
            continue
        for it in i['items']:
            if it['name'] == item and it['kind'] == 'Fn':
                hits.append(it['def'])
    if len(hits) != 1:
        raise AnchorMissing('impl %s%s for %s: %d %s methods' % (trait_def, '<%s>' % trait_has if trait_has else '', adt, len(hits), item))
    return hits[0]


def strip(n):
    """Peel blocks without statements, refs, `?`, `.await`."""
    while isinstance(n, dict):
        k = n.get('k')
        if k == 'block' and not n.get('stmts') and n.get('e'):
            n = n['e']
        elif k == 'ref':
            n = n['a']
        elif k in ('try', 'await'):
            n = n['e']
        else:
            break
    return n


def emitted(n):
    """Text a printer arm emits, if it is a literal emission; else None."""
    n = strip(n)
    if not isinstance(n, dict):
        return None
    k = n.get('k')
    if k == 'lit' and n.get('t') in ('char', 'str'):
        return n['v']
    if k == 'mcall' and n.get('name') in ('write_char', 'write_str') and len(n['a']) == 1:
        v = strip(n['a'][0])
        if v.get('k') == 'lit' and v.get('t') in ('char', 'str'):
            return v['v']
        return None
    if k == 'mcall' and n.get('name') == 'write_fmt' and len(n['a']) == 1:
        a = strip(n['a'][0])
        if a.get('k') == 'call' and (a.get('def') or '').endswith('Arguments::<\'a>::from_str') and a['a']:
            v = strip(a['a'][0])
            if v.get('k') == 'lit' and v.get('t') == 'str':
                return v['v']
        return None
    if k == 'call' and n.get('ctor') and n['ctor'].get('def') == 'core::result::Result::Ok':
        a = strip(n['a'][0]) if n['a'] else None
        if a is not None and a.get('k') == 'tup' and not a.get('a'):
            return ''
    return None


def variant_of(n, adt):
    """Variant path of `adt` an expression evaluates to: V, Some(V), Ok(V), Ok(Some(V))."""
    n = strip(n)
    for _ in range(3):
        if not isinstance(n, dict):
            return None
        if n.get('k') == 'path' and (n.get('def') or '').startswith(adt + '::'):
            return n['def']
        if n.get('k') == 'call' and n.get('ctor') and n['ctor'].get('def') in (
                'core::option::Option::Some', 'core::result::Result::Ok') and len(n['a']) == 1:
            n = strip(n['a'][0])
            continue
        if n.get('k') == 'call' and n.get('ctor') and (n['ctor'].get('def') or '').startswith(adt + '::') and not n['a']:
            return n['ctor']['def']
        return None
    return None


def pat_lits(p):
    """Literals a pattern matches at top level: list of values, or None for a catch-all, or 'opaque'."""
    k = p.get('k')
    if k == 'wild':
        return None
    if k == 'bind':
        return pat_lits(p['sub']) if p.get('sub') else None
    if k == 'por':
        out = []
        for a in p['alts']:
            v = pat_lits(a)
            if v is None:
                return None
            if v == 'opaque':
                return 'opaque'
            out.extend(v)
        return out
    if k == 'pexpr' and p['e'].get('k') == 'lit':
        return [p['e'].get('v')]
    return 'opaque'


def text_table(m, adt):
    """Interpret a match over char / &str: [(lits | None, guard node | None, variant | None, arm)]."""
    out = []
    for arm in m['arms']:
        out.append((pat_lits(arm['pat']), arm.get('guard'), variant_of(arm['body'], adt), arm))
    return out


def text_lookup(table, text, guard_ok=None):
    """First arm selected for `text`. Arms with a guard are skipped when guard_ok(guard) says the guard is a
    mode restriction that is off; any other guard makes the lookup undecidable (returns 'undecidable')."""
    for lits, guard, var, arm in table:
        if lits == 'opaque':
            return 'undecidable'
        if lits is None or text in lits:
            if guard is not None:
                if guard_ok is not None and guard_ok(guard):
                    continue
                return 'undecidable'
            return var
    return None


def find_text_match(F, fn, adt, sty=('char', '&str', "&'static str")):
    """The unique match over a char/str scrutinee in fn with an arm producing a variant of adt."""
    h = F.hir_of(fn)
    ms = []
    for m in H.matches_in(h['body']):
        if (m.get('sty') or '') not in sty:
            continue
        if any(variant_of(a['body'], adt) for a in m['arms']):
            ms.append(m)
    return ms, h


def loc_of(h, node=None):
    return '%s:%s' % (h['file'], (node or {}).get('line') or h['line'])


def printer_table(cx, F, fn, adt):
    """{variant short name: emitted text or None} for the match over `adt` in printer fn; checks that literal
    arms are really what is written."""
    table, m = H.fn_match_table(F, fn, adt)
    h = F.hir_of(fn)
    out = {}
    bare = False
    for v, (i, body) in table.items():
        out[v] = emitted(body)
        b = strip(body)
        if isinstance(b, dict) and b.get('k') == 'lit':
            bare = True
    if bare:
        # the match value must be what the function writes or returns
        ok = False
        top = strip(h['body'])
        if top is m:
            ok = True          # fn returns the literal (as_str / as_char)
        for x in H.walk(h['body']):
            if x.get('k') == 'block':
                for st in x.get('stmts') or []:
                    if st.get('k') == 'let' and strip(st.get('init')) is m and st['pat'].get('k') == 'bind':
                        name = st['pat']['name']
                        for c in H.walk(x):
                            if c.get('k') == 'mcall' and c.get('name') in ('write_char', 'write_str') and \
                                    len(c['a']) == 1 and strip(c['a'][0]).get('name') == name:
                                ok = True
                if strip(x.get('e')) is m and x is strip_blocks_only(h['body']):
                    ok = True
        cx.require(ok, '%s: the literal selected by the match is not what the function writes/returns' % fn)
    return out, m, h


def strip_blocks_only(n):
    while isinstance(n, dict) and n.get('k') == 'block' and not n.get('stmts') and n.get('e'):
        n = n['e']
    return n


def delegates_to(F, fn, callee_pats):
    """Does fn's body consist of a call chain that includes a call matching callee_pats?"""
    h = F.hir_of(fn)
    return bool(H.calls(h['body'], callee_pats))


# ---------------------------------------------------------------- R1: operator trie
def _trie_node(F, val, seen):
    """Edges of a Trie constant value (const_eval output): [(key, value variant | None, next value)]."""
    if isinstance(val, tuple) and val[0] == 'path':
        d = val[1]
        if d in seen:
            return 'cycle'
        h = F.hir_of(d)
        return _trie_node(F, H.const_eval(h['body']), seen | {d})
    if isinstance(val, tuple) and val[0] == 'ctor' and val[1] == OPMOD + 'Trie' and len(val[2]) == 1 and isinstance(val[2][0], list):
        edges = []
        for e in val[2][0]:
            if not (isinstance(e, tuple) and e[0] == 'struct' and e[1] == OPMOD + 'Edge'):
                return None
            f = e[2]
            key = f.get('key')
            v = f.get('value')
            if isinstance(v, tuple) and v[0] == 'ctor' and v[1] == 'core::option::Option::Some' and \
                    isinstance(v[2][0], tuple) and v[2][0][0] == 'path':
                value = v[2][0][1]
            elif isinstance(v, tuple) and v[0] == 'path' and v[1] == 'core::option::Option::None':
                value = None
            else:
                return None
            if not isinstance(key, str) or len(key) != 1:
                return None
            edges.append((key, value, f.get('next')))
        return edges
    return None


@RS.rule('C06.R1', 'K-CONST', 'operator trie: root-to-value paths spell exactly Operator::as_str; every edge array strictly ascending; edge() is the binary search')
def r1(cx):
    F = cx.F
    as_str = OP + '::as_str'
    cx.fn(as_str)
    d, m, h = printer_table(cx, F, as_str, OP)
    cx.cellcount(len(d))
    for v, s in d.items():
        cx.require(isinstance(s, str) and s, 'Operator::as_str(%s) is not a literal' % v)
    inv = {}
    for v, s in d.items():
        if s in inv:
            cx.violation(as_str, 'ambiguous:%s' % v, 'operators %s and %s are both printed as %r' % (inv[s], v, s), loc=loc_of(h))
        inv[s] = v
    # Trie::edge is the binary search by key (sortedness is a necessary condition only then)
    eb = F.body(OPMOD + 'Trie::edge')
    cx.fn(eb.fn)
    bs = Q.find_calls(eb, [re.compile(r'^core::slice::<impl \[T\]>::binary_search')])
    lin = Q.find_calls(eb, [re.compile(r'Iterator.*::(find|position)$')])
    cx.site('Trie::edge: binary search sites=%d, linear search sites=%d' % (len(bs), len(lin)))
    cx.require(bs or lin, 'Trie::edge uses neither a binary search nor a linear search: the sortedness clause must be re-derived')
    root = OPMOD + 'OPERATORS'
    rh = F.hir_of(root)
    cx.fn(root)
    spelled = {}
    nodes = 0
    # walk
    stack = [('', ('path', root), root)]
    visited_nodes = {}
    while stack:
        prefix, val, name = stack.pop()
        edges = _trie_node(F, val, frozenset())
        cx.require(edges is not None and edges != 'cycle', 'trie node reached by %r is not a Trie(&[Edge{..}]) constant' % prefix)
        nodes += 1
        label = val[1].split('::')[-1] if isinstance(val, tuple) and val[0] == 'path' else 'inline@%r' % prefix
        nh = F.hir.get(val[1]) if isinstance(val, tuple) and val[0] == 'path' else None
        where = loc_of(nh) if nh else loc_of(rh)
        keys = [k for k, _, _ in edges]
        cx.site('trie node %s (prefix %r): keys %s' % (label, prefix, keys))
        for a, b in zip(keys, keys[1:]):
            if bs and not ord(a) < ord(b):
                lost = sorted({prefix + k for k in keys})
                cx.violation(val[1] if nh else root, 'unsorted:%s' % label,
                             'edges of trie node %s are not strictly ascending by key (%r before %r): Trie::edge uses '
                             'binary_search_by_key, so some of the operators %s are no longer found by the lexer'
                             % (label, a, b, lost), loc=where)
                break
        for k, value, nxt in edges:
            cx.cellcount(1)
            s = prefix + k
            if value is not None:
                if s in spelled:
                    cx.violation(root, 'duplicate-path:%s' % H.short(value), 'two trie paths spell %r' % s, loc=where)
                spelled[s] = H.short(value)
            stack.append((s, nxt, name))
            cx.require(len(s) < 8, 'operator trie deeper than any operator')
    # compare
    for v, s in sorted(d.items()):
        got = spelled.get(s)
        if got is None:
            cx.violation(root, 'missing:%s' % v, 'operator %s is printed as %r but no trie path spells it: the printed form is '
                         'not lexed back as this operator' % (v, s), loc=loc_of(rh))
        elif got != v:
            cx.violation(root, 'wrong-value:%s' % v, 'the trie path %r yields %s, but %r is how %s is printed' % (s, got, s, v), loc=loc_of(rh))
    for s, v in sorted(spelled.items()):
        if d.get(v) != s and s not in inv:
            cx.violation(root, 'extra:%s' % v, 'the trie lexes %r as %s, which is printed as %r' % (s, v, d.get(v)), loc=loc_of(rh))
    # Display for Operator prints as_str
    dfn = impl_fn(F, OP, DISPLAY, 'fmt')
    cx.fn(dfn)
    if not delegates_to(F, dfn, [as_str]):
        cx.violation(dfn, 'display-not-as-str', 'Display for Operator does not print Operator::as_str()', loc=loc_of(F.hir_of(dfn)))
    # the lexer starts from OPERATORS
    opfn = [k for k in F.hir if k.startswith(OPMOD) and k.endswith('::operator')]
    cx.require(len(opfn) == 1, 'Lexer::operator not found')
    oh = F.hir_of(opfn[0])
    uses = [x for x in H.walk(oh['body']) if x.get('k') == 'path' and x.get('def') == root]
    cx.site('%s starts at OPERATORS: %s' % (opfn[0], bool(uses)))
    if not uses:
        cx.violation(opfn[0], 'lexer-root', 'Lexer::operator does not start from the OPERATORS trie', loc=loc_of(oh))
    cx.sample({'operators': len(d), 'trie_nodes': nodes, 'spelled': sorted(spelled)[:8]})


# ---------------------------------------------------------------- R1b: From / TryFrom<Operator>
@RS.rule('C06.R1b', 'K-TABLE', 'RedirOp / CaseContinuation / AndOr: TryFrom<Operator>(From(x)) = x, and Display prints the operator of From(x)')
def r1b(cx):
    F = cx.F
    as_str_tab, _, _ = printer_table(cx, F, OP + '::as_str', OP)
    for name in ('RedirOp', 'CaseContinuation', 'AndOr'):
        adt = SYN + name
        ffn = impl_fn(F, OP, 'core::convert::From', 'from', trait_has=adt)
        tfn = impl_fn(F, adt, 'core::convert::TryFrom', 'try_from', trait_has=OP)
        cx.fn(ffn)
        cx.fn(tfn)
        ftab, fm = H.fn_match_table(F, ffn, adt)
        ttab, tm = H.fn_match_table(F, tfn, OP)
        fh = F.hir_of(ffn)
        th = F.hir_of(tfn)
        to_op = {}
        for v, (i, body) in ftab.items():
            o = variant_of(body, OP)
            cx.require(o is not None, '%s: From arm for %s is not an Operator variant' % (ffn, v))
            to_op[v] = H.short(o)
        for v, o in sorted(to_op.items()):
            cx.cellcount(1)
            back = variant_of(ttab[o][1], adt)
            back = H.short(back) if back else None
            if back != v:
                cx.violation(tfn, 'inverse:%s' % v, '%s::%s is printed as operator %s (%r), which the parser converts back to %s'
                             % (name, v, o, as_str_tab.get(o), back or 'an error'), loc=loc_of(th))
        seen = {}
        for v, o in to_op.items():
            if o in seen:
                cx.violation(ffn, 'ambiguous:%s' % v, '%s::%s and %s::%s are printed as the same operator %s' % (name, seen[o], name, v, o),
                             loc=loc_of(fh))
            seen[o] = v
        # Display
        dfn = impl_fn(F, adt, DISPLAY, 'fmt')
        cx.fn(dfn)
        dh = F.hir_of(dfn)
        if delegates_to(F, dfn, [ffn]):
            cx.site('%s: Display delegates to Operator::from' % name)
        else:
            dtab, dm, _ = printer_table(cx, F, dfn, adt)
            for v, s in sorted(dtab.items()):
                cx.cellcount(1)
                want = as_str_tab.get(to_op.get(v))
                if s != want:
                    cx.violation(dfn, 'display:%s' % v, '%s::%s is printed as %r but parsed from %r (operator %s)'
                                 % (name, v, s, want, to_op.get(v)), loc=loc_of(dh))
        cx.sample({name: to_op})


# ---------------------------------------------------------------- R1c: keywords and special parameters
@RS.rule('C06.R1c', 'K-TABLE', 'Keyword::{as_str, from_str} and SpecialParam::{as_char, from_char} are mutual inverses')
def r1c(cx):
    F = cx.F
    pairs = [
        (KW, KW + '::as_str', impl_fn(F, KW, 'core::str::traits::FromStr', 'from_str'), 'keyword'),
        (SYN + 'SpecialParam', SYN + 'conversions::<impl yash_syntax::syntax::SpecialParam>::as_char',
         SYN + 'conversions::<impl yash_syntax::syntax::SpecialParam>::from_char', 'special parameter'),
    ]
    for adt, pfn, qfn, what in pairs:
        if pfn not in F.hir:
            c = [k for k in F.hir if k.endswith('::' + pfn.split('::')[-1]) and adt.split('::')[-1] in k]
            cx.require(len(c) == 1, 'printer table %s not found' % pfn)
            pfn = c[0]
        if qfn not in F.hir:
            c = [k for k in F.hir if k.endswith('::' + qfn.split('::')[-1]) and adt.split('::')[-1] in k]
            cx.require(len(c) == 1, 'parser table %s not found' % qfn)
            qfn = c[0]
        cx.fn(pfn)
        cx.fn(qfn)
        d, m, ph = printer_table(cx, F, pfn, adt)
        ms, qh = find_text_match(F, qfn, adt)
        cx.require(len(ms) == 1, '%s: expected one text match, found %d' % (qfn, len(ms)))
        tab = text_table(ms[0], adt)
        for v, s in sorted(d.items()):
            cx.cellcount(1)
            cx.require(isinstance(s, str), '%s(%s) is not a literal' % (pfn, v))
            got = text_lookup(tab, s)
            cx.require(got != 'undecidable', '%s: lookup of %r undecidable' % (qfn, s))
            if got is None or H.short(got) != v:
                cx.violation(qfn, 'inverse:%s' % v, '%s %s is printed as %r, which is parsed as %s'
                             % (what, v, s, H.short(got) if got else 'not a ' + what), loc=loc_of(qh))
        for lits, guard, var, arm in tab:
            if var is None or not lits or lits == 'opaque':
                continue
            for s in lits:
                cx.cellcount(1)
                if d.get(H.short(var)) != s:
                    cx.violation(qfn, 'extra:%s' % s, '%r is parsed as %s %s, which is printed as %r'
                                 % (s, what, H.short(var), d.get(H.short(var))), loc=loc_of(qh, arm))
        inv = {}
        for v, s in d.items():
            if s in inv:
                cx.violation(pfn, 'ambiguous:%s' % v, '%ss %s and %s are both printed as %r' % (what, inv[s], v, s), loc=loc_of(ph))
            inv[s] = v
        # Display goes through the table
        dfn = impl_fn(F, adt, DISPLAY, 'fmt')
        cx.fn(dfn)
        if not delegates_to(F, dfn, [pfn]):
            cx.violation(dfn, 'display-not-table', 'Display for %s does not print through %s' % (adt, pfn), loc=loc_of(F.hir_of(dfn)))
        cx.sample({what: dict(list(sorted(d.items()))[:6])})
    # the lexer recognises keywords with Keyword::from_str and special parameters with from_char
    users = F.callers_of(lambda names, t: pairs[0][2] in names or
                         ('core::str::<impl str>::parse' in names and (t['f'].get('ga') or '').startswith(KW)))
    cx.site('keyword recognition sites: %s' % sorted({b.root for b, i, t in users}))
    if not any(b.root.startswith('yash_syntax::parser::lex::') for b, i, t in users):
        cx.violation(pairs[0][2], 'keyword-table-unused', 'the lexer does not recognise reserved words with Keyword::from_str',
                     loc=None)


# ---------------------------------------------------------------- R1d: modifiers
def _lexer_fn(F, suffix):
    c = [k for k in F.hir if k.startswith('yash_syntax::parser::lex::modifier::') and k.endswith('>::' + suffix)]
    from facts import AnchorMissing
    if len(c) != 1:
        raise AnchorMissing('modifier lexer %s: %d candidates' % (suffix, len(c)))
    return c[0]


def _param_index(h, node):
    """Index (in h['params']) of the parameter the local `node` denotes: the parameter itself, or the `let p = p;` copy an
    async fn makes of it. None if it is something else."""
    n = strip(node)
    if not isinstance(n, dict) or n.get('k') != 'local':
        return None
    ids = [p.get('id') if p.get('k') == 'bind' else None for p in h['params']]
    if n.get('id') in ids:
        return ids.index(n['id'])
    for x in H.walk(h['body']):
        if x.get('k') == 'block':
            for st in x.get('stmts') or []:
                if st.get('k') == 'let' and st['pat'].get('k') == 'bind' and st['pat'].get('id') == n.get('id') and \
                        not str(st['pat'].get('mode', '')).endswith('Mut)'):
                    i = strip(st.get('init'))
                    if isinstance(i, dict) and i.get('k') == 'local' and i.get('id') in ids:
                        return ids.index(i['id'])
    return None


def _find_text_match_deep(F, fn, adt):
    """find_text_match, seeing through ONE private synchronous helper of the same module: when fn has no char match producing
    `adt` itself, the match is looked for in the non-public same-module functions fn calls, provided the helper matches on
    one of its own parameters and fn passes one of ITS parameters (the symbol it was dispatched with) in that position.
    Returns (matches, hir of the function that holds them)."""
    from facts import same_module_private
    ms, h = find_text_match(F, fn, adt)
    if ms:
        return ms, h
    accept = same_module_private(F, fn)
    out, oh = [], h
    seen = set()
    for c in H.calls(h['body']):
        callee = c.get('def')
        if not callee or callee == fn or callee in seen or callee not in F.hir or not accept(callee) or F.is_async(callee):
            continue
        seen.add(callee)
        hh = F.hir[callee]
        hms, _ = find_text_match(F, callee, adt)
        for m in hms:
            pi = _param_index(hh, m['scrut'])
            if pi is None:
                continue
            # every call of the helper in fn hands over a parameter of fn
            sites = [x for x in H.calls(h['body'], [callee])]
            def arg_ok(x):
                a = ([x['recv']] if x.get('k') == 'mcall' else []) + list(x['a'])
                return pi < len(a) and _param_index(h, a[pi]) is not None
            if all(arg_ok(x) for x in sites):
                out.append(m)
                oh = hh
    return out, oh


def _bool_selections(F, body, adt):
    """Places where a bool selects between two variants of `adt`: `if c {A} else {B}` and `match c {true => A, false|_ => B}`
    (either arm order). Returns [(cond node, variant on true, variant on false)]."""
    out = []
    for x in H.walk(body):
        if x.get('k') == 'if' and variant_of(x.get('t'), adt) and variant_of(x.get('f'), adt):
            out.append((x['c'], variant_of(x['t'], adt), variant_of(x['f'], adt)))
        elif x.get('k') == 'match' and x.get('sty') == 'bool' and len(x['arms']) == 2 and \
                all(a.get('guard') is None and variant_of(a['body'], adt) for a in x['arms']):
            first = pat_lits(x['arms'][0]['pat'])
            second = pat_lits(x['arms'][1]['pat'])
            if first in ([True], [False]) and (second is None or second == [not first[0]]):
                vs = {first[0]: variant_of(x['arms'][0]['body'], adt), (not first[0]): variant_of(x['arms'][1]['body'], adt)}
                out.append((x['scrut'], vs[True], vs[False]))
    return out


def _let_init(h, node):
    """The initialiser of the immutable `let` that binds the local `node` (else the node itself)."""
    n = strip(node)
    if isinstance(n, dict) and n.get('k') == 'local':
        for x in H.walk(h['body']):
            if x.get('k') == 'block':
                for st in x.get('stmts') or []:
                    if st.get('k') == 'let' and st['pat'].get('k') == 'bind' and st['pat'].get('id') == n.get('id') and \
                            not str(st['pat'].get('mode', '')).endswith('Mut)') and st.get('init') is not None:
                        return st['init']
    return node


def _char_pat(p):
    """A pattern over the peeked character, given as `char` or `Option<char>`: (literals | None (catch-all) | 'opaque',
    names bound to the character). `Some(<p>)` is read as <p>; `None` matches no character ([])."""
    k = p.get('k')
    if k == 'ptuplestruct':
        if (p.get('p') or {}).get('def') == 'core::option::Option::Some' and len(p.get('sub') or []) == 1:
            return _char_pat(p['sub'][0])
        return 'opaque', set()
    if k == 'pexpr' and p['e'].get('k') == 'path' and p['e'].get('def') == 'core::option::Option::None':
        return [], set()
    if k == 'bind':
        if p.get('sub'):
            lits, names = _char_pat(p['sub'])
            return lits, names | {p.get('name')}
        return None, {p.get('name')}
    if k == 'por':
        out, names = [], None
        for a in p['alts']:
            v, n = _char_pat(a)
            if v is None or v == 'opaque':
                return v, set()
            out.extend(v)
            names = n if names is None else (names & n)
        return out, names or set()
    return pat_lits(p), set()


@RS.rule('C06.R1d', 'K-TABLE', 'SwitchAction / SwitchCondition / TrimSide: Display and the modifier lexer are inverses; dispatch = table keys')
def r1d(cx):
    F = cx.F
    sfn = _lexer_fn(F, 'switch')
    tfn = _lexer_fn(F, 'trim')
    dispatch_fn = _lexer_fn(F, 'suffix_modifier')
    dh = F.hir_of(dispatch_fn)
    # dispatch: which characters go to which lexer. The match is over the peeked character, either unwrapped first
    # (`if let Some(symbol) = .. { match symbol {..} }`) or as the Option itself (`match next { Some(symbol @ ('+' | ..)) => ..`).
    disp = {}
    dms = [m for m in H.matches_in(dh['body']) if m.get('sty') in ('char', 'core::option::Option<char>')
           and any(H.calls(a['body'], [sfn, tfn]) for a in m['arms'])]
    cx.require(len(dms) == 1, 'suffix_modifier: expected one match over the peeked char')
    for arm in dms[0]['arms']:
        lits, bound = _char_pat(arm['pat'])
        if arm.get('guard') is not None and H.calls(arm['body'], [sfn, tfn]):
            cx.require(False, 'suffix_modifier: a dispatching arm has a guard')
        callee = None
        for c in H.calls(arm['body'], [sfn, tfn]):
            callee = c.get('def')
            scr = strip(dms[0]['scrut']).get('name') if dms[0].get('sty') == 'char' else None
            passed = [strip(a).get('name') for a in c['a']]
            if not (({scr} | bound) - {None}) & set(passed):
                cx.violation(dispatch_fn, 'dispatch-arg', 'the matched character is not the symbol passed to %s' % callee.split('::')[-1],
                             loc=loc_of(dh, arm))
        if callee and isinstance(lits, list):
            disp.setdefault(callee, []).extend(lits)
    for adt_name, lexfn in (('SwitchAction', sfn), ('TrimSide', tfn)):
        adt = SYN + adt_name
        dfn = impl_fn(F, adt, DISPLAY, 'fmt')
        cx.fn(dfn)
        cx.fn(lexfn)
        d, m, ph = printer_table(cx, F, dfn, adt)
        ms, qh = _find_text_match_deep(F, lexfn, adt)
        cx.require(len(ms) == 1, '%s: expected one char match producing %s' % (lexfn, adt_name))
        if qh['fn'] != lexfn:
            cx.fn(qh['fn'])
        tab = text_table(ms[0], adt)
        keys = [x for lits, g, var, arm in tab if isinstance(lits, list) and var for x in lits]
        for v, s in sorted(d.items()):
            cx.cellcount(1)
            cx.require(isinstance(s, str) and len(s) == 1, 'Display for %s::%s is not a single character' % (adt_name, v))
            got = text_lookup(tab, s)
            if got in (None, 'undecidable') or H.short(got) != v:
                cx.violation(lexfn, 'inverse:%s' % v, '%s::%s is printed as %r, which the lexer reads as %s'
                             % (adt_name, v, s, H.short(got) if got not in (None, 'undecidable') else 'no %s' % adt_name), loc=loc_of(qh))
        inv = {}
        for v, s in d.items():
            if s in inv:
                cx.violation(dfn, 'ambiguous:%s' % v, '%s::%s and %s::%s are both printed as %r' % (adt_name, inv[s], adt_name, v, s),
                             loc=loc_of(ph))
            inv[s] = v
        dk = disp.get(lexfn, [])
        cx.site('%s: table keys %s, dispatched %s' % (lexfn.split('::')[-1], sorted(keys), sorted(dk)))
        for c in sorted(set(dk) - set(keys)):
            cx.violation(dispatch_fn, 'dispatch-not-in-table:%s' % c, 'suffix_modifier sends %r to %s, whose table has no arm for it: '
                         'the parser panics (unreachable!) on `${x%s}`' % (c, lexfn.split('::')[-1], c), loc=loc_of(dh))
        for c in sorted(set(keys) - set(dk)):
            cx.violation(dispatch_fn, 'table-not-dispatched:%s' % c, '%r has an arm in %s but suffix_modifier never sends it there: '
                         'the printed modifier is not parsed back' % (c, lexfn.split('::')[-1]), loc=loc_of(dh))
    # SwitchCondition: ':' <-> UnsetOrEmpty
    adt = SYN + 'SwitchCondition'
    dfn = impl_fn(F, adt, DISPLAY, 'fmt')
    cx.fn(dfn)
    d, m, ph = printer_table(cx, F, dfn, adt)
    sh = F.hir_of(sfn)
    ifs = _bool_selections(F, sh['body'], adt)
    cx.require(len(ifs) == 1, 'switch(): expected one `if` selecting the SwitchCondition')
    cond = strip(ifs[0][0])
    cx.require(cond.get('k') == 'local', 'switch(): the SwitchCondition test is not a plain flag')
    flag = cond['name']
    pnames = [p.get('name') for p in sh['params']]
    cx.require(flag in pnames, 'switch(): flag %s is not a parameter' % flag)
    idx = pnames.index(flag) - 1          # method call arguments exclude self
    on_true, on_false = H.short(ifs[0][1]), H.short(ifs[0][2])
    # the flag at the call site: `let colon = self.skip_if(|c| c == LIT)`
    calls = H.calls(dh['body'], [sfn])
    cx.require(len(calls) == 1, 'suffix_modifier: expected one call of switch')
    arg = strip(calls[0]['a'][idx])
    cx.require(arg.get('k') == 'local', 'suffix_modifier: the flag passed to switch is not a local')
    lit = None
    for x in H.walk(dh['body']):
        if x.get('k') == 'block':
            for st in x.get('stmts') or []:
                if st.get('k') == 'let' and st['pat'].get('k') == 'bind' and st['pat'].get('id') == arg.get('id'):
                    cmp_ = [y for y in H.walk(st['init']) if y.get('k') == 'binary' and y.get('op') == '==' and
                            strip(y['b']).get('k') == 'lit']
                    sk = H.calls(st['init'], [re.compile(r'::skip_if$')])
                    if len(cmp_) == 1 and sk:
                        lit = strip(cmp_[0]['b'])['v']
    cx.require(lit is not None, 'suffix_modifier: the flag is not `skip_if(|c| c == <char>)`')
    cx.site('switch condition: %r present -> %s, absent -> %s; printed %s' % (lit, on_true, on_false, d))
    cx.cellcount(2)
    if d.get(on_true) != lit:
        cx.violation(dfn, 'inverse:%s' % on_true, 'SwitchCondition::%s is printed as %r but parsed from a leading %r' % (on_true, d.get(on_true), lit),
                     loc=loc_of(ph))
    if d.get(on_false) != '':
        cx.violation(dfn, 'inverse:%s' % on_false, 'SwitchCondition::%s is printed as %r but parsed from the absence of %r'
                     % (on_false, d.get(on_false), lit), loc=loc_of(ph))
    # TrimLength: doubled symbol
    th = F.hir_of(tfn)
    tl = SYN + 'TrimLength'
    ifs = _bool_selections(F, th['body'], tl)
    cx.require(len(ifs) == 1, 'trim(): expected one `if` selecting the TrimLength')
    tdisp = impl_fn(F, SYN + 'Trim', DISPLAY, 'fmt')
    cx.fn(tdisp)
    ttab, tm = H.fn_match_table(F, tdisp, tl)
    twice = {v: len(H.calls(body, [re.compile(r'Display.*::fmt$')])) for v, (i, body) in ttab.items()}
    on_true = H.short(ifs[0][1])
    on_false = H.short(ifs[0][2])
    # the test is the skip_if itself or an immutable flag initialised with it (`let is_doubled = self.skip_if(..).await?;`)
    tcond = strip(_let_init(th, ifs[0][0]))
    has_skip = tcond.get('k') == 'mcall' and bool(H.calls(tcond, [re.compile(r'::skip_if$')])) and \
        H.callee_matches(tcond, [re.compile(r'::skip_if$')])
    cx.site('trim length: second symbol -> %s, none -> %s; Display repeats side: %s' % (on_true, on_false, twice))
    cx.cellcount(2)
    if not (has_skip and twice.get(on_true) == 1 and twice.get(on_false) == 0):
        cx.violation(tdisp, 'trim-length', 'Trim prints the side symbol once more for %s, but the lexer reads a repeated symbol as %s'
                     % ([v for v, n in twice.items() if n], on_true), loc=loc_of(F.hir_of(tdisp)))


# ---------------------------------------------------------------- R1e: named escapes
@RS.rule('C06.R1e', 'K-TABLE', 'EscapeUnit: each named escape is printed as backslash + the character the escape lexer maps back to it')
def r1e(cx):
    F = cx.F
    adt = SYN + 'EscapeUnit'
    dfn = impl_fn(F, adt, DISPLAY, 'fmt')
    cx.fn(dfn)
    dh = F.hir_of(dfn)
    a = F.adt(adt)
    unit = [v['name'] for v in a['variants'] if not v.get('fields')]
    cx.require(len(unit) >= 10, 'EscapeUnit: fewer than 10 field-less variants')
    ms = [m for m in H.matches_in(dh['body']) if (m.get('sty') or '').lstrip('&') == adt]
    cx.require(len(ms) == 1, 'Display for EscapeUnit: expected one match')
    efn = [k for k in F.hir if k.startswith('yash_syntax::parser::lex::escape::') and k.endswith('>::escape_unit')]
    cx.require(len(efn) == 1, 'Lexer::escape_unit not found')
    efn = efn[0]
    cx.fn(efn)
    tms, eh = find_text_match(F, efn, adt, sty=('char',))
    cx.require(len(tms) == 1, 'escape_unit: expected one char match producing EscapeUnit variants')
    tab = text_table(tms[0], adt)

    def portable_guard(g):
        g = strip(g)
        if g.get('k') != 'local':
            return False
        # `let portable = self.mode().portable`
        for x in H.walk(eh['body']):
            if x.get('k') == 'block':
                for st in x.get('stmts') or []:
                    if st.get('k') == 'let' and st['pat'].get('k') == 'bind' and st['pat'].get('id') == g.get('id'):
                        i = strip(st['init'])
                        return i.get('k') == 'field' and i.get('name') == 'portable'
        return False
    printed = {}
    for v in unit:
        cx.cellcount(1)
        i, arm = H.first_matching_arm(ms[0], ('variant', adt + '::' + v, None))
        cx.require(i is not None, 'Display arm for EscapeUnit::%s not decidable: %s' % (v, arm))
        s = emitted(arm['body'])
        if not (isinstance(s, str) and len(s) == 2 and s[0] == '\\'):
            cx.violation(dfn, 'shape:%s' % v, 'EscapeUnit::%s is not printed as a backslash and one character (%r)' % (v, s), loc=loc_of(dh, arm))
            continue
        if s in printed:
            cx.violation(dfn, 'ambiguous:%s' % v, 'EscapeUnit::%s and ::%s are both printed as %r' % (printed[s], v, s), loc=loc_of(dh, arm))
        printed[s] = v
        cx.site('EscapeUnit::%s printed %r' % (v, s))
        got = text_lookup(tab, s[1], guard_ok=portable_guard)
        cx.require(got != 'undecidable', 'escape_unit: lookup of %r undecidable' % s[1])
        if got is None or H.short(got) != v:
            cx.violation(efn, 'inverse:%s' % v, 'EscapeUnit::%s is printed as %r, which the escape lexer reads as %s'
                         % (v, s, 'EscapeUnit::' + H.short(got) if got else 'a numeric/invalid escape'), loc=loc_of(eh))
    # the match is on the character after a backslash
    cx.sample({'named escapes': printed})


# ---------------------------------------------------------------- R2: exhaustive, injective printer matches
PRINTER_FNS = re.compile(r'^yash_syntax::syntax::impl_display::<impl core::fmt::Display for ')


@RS.rule('C06.R2', 'K-TABLE', 'printer matches over syntax enums: every variant has its own non-wildcard arm; consumers print with Display')
def r2(cx):
    F = cx.F
    fns = [k for k in F.hir if PRINTER_FNS.search(k) and k.endswith('>::fmt')]
    fns += [OP + '::as_str', KW + '::as_str']
    fns += [k for k in F.hir if k.startswith(SYN + 'conversions::<impl core::convert::From<') and k.endswith('for yash_syntax::parser::lex::op::Operator>::from')]
    fns += [k for k in F.hir if k.endswith('<impl yash_syntax::syntax::SpecialParam>::as_char')]
    cx.floor(len(fns), 40, 'printer functions')
    enums = 0
    for fn in sorted(fns):
        h = F.hir_of(fn)
        for m in H.matches_in(h['body']):
            sty = (m.get('sty') or '').lstrip('&').strip()
            sty = re.sub(r'^mut ', '', sty)
            a = F.adts.get(sty)
            if not a or not sty.startswith('yash_syntax::') or len(a.get('variants') or []) < 2 or a.get('kind', 'enum') not in ('enum', 'Enum'):
                continue
            if m.get('src') not in (None, 'Normal'):
                continue
            enums += 1
            cx.fn(fn)
            arms_of = {}
            for v in H.enum_variants(F, sty):
                hit = []
                for i, arm in enumerate(m['arms']):
                    r = H.pat_matches_value(arm['pat'], ('variant', v, None))
                    if r is False:
                        continue
                    if H.pat_variants(arm['pat']) is None:
                        hit.append(('wild', i))
                        break
                    hit.append(('arm', i))
                    if not arm.get('guard'):
                        break
                arms_of[v] = hit
                cx.cellcount(1)
            cx.site('%s: match over %s, %d variants' % (fn.split('impl_display::')[-1], sty.split('::')[-1], len(arms_of)))
            owner = {}
            for v, hit in arms_of.items():
                if any(k == 'wild' for k, i in hit):
                    cx.violation(fn, 'wildcard:%s' % H.short(v), '%s is printed by a catch-all arm: a new variant would be printed as '
                                 'something else without a compile error' % v, loc=loc_of(h, m))
                    continue
                for k, i in hit:
                    if i in owner and owner[i] != v:
                        cx.violation(fn, 'shared-arm:%s' % H.short(v), '%s and %s are printed by the same arm: they cannot be told apart '
                                     'when parsed back' % (owner[i], v), loc=loc_of(h, m))
                    owner[i] = v
    cx.floor(enums, 14, 'printer matches over syntax enums')
    # consumers print through Display (not Debug)
    consumers = ['yash_builtin::typeset::print_functions::print_one', 'yash_semantics::command::pipeline::to_job_name']
    item_fns = [k for k in F.by_root if k.startswith('yash_semantics::command::item::') and k.endswith('::execute_async')] or \
        [k for k in F.by_root if k.startswith('yash_semantics::command::item::')]
    for root in consumers + item_fns:
        if root not in F.by_root:
            continue
        for b in F.logical(root):
            for i, t in b.calls():
                ga = t['f'].get('ga') or ''
                nm = (t['f'].get('def') or t['f'].get('decl') or '')
                if 'yash_syntax::syntax::' in ga and ('Argument' in nm or nm.endswith('ToString>::to_string') or nm.endswith('::to_string')):
                    cx.site('%s prints %s with %s' % (root, ga, nm.split('::')[-1]))
                    if nm.endswith('new_debug'):
                        cx.violation(root, 'debug-print:%s' % ga.split('::')[-1], '%s is shown to the user with Debug formatting' % ga, loc=b.loc(t))


# ---------------------------------------------------------------- a function seen with its helpers and predicate closures in place
# `opt.is_some_and(|x| p(x))` is `match opt { Some(x) => p(x), None => false }`: the rules about first_word_is_keyword (R3, R3b,
# R5) decide clauses about WHICH tests stand between the words of the command and the answer, so they must read the same CFG
# whether a test is written as a `let .. else`, as a private helper, or as a closure handed to one of the std predicates below.
_ADAPTERS = re.compile(r'^core::(?:option::Option::<T>|result::Result::<T, E>)::(is_some_and|is_none_or|is_ok_and|is_err_and|map_or|and_then|map)$')
# `opt.and_then(|x| f(x))` is `match opt { Some(x) => f(x), None => None }`, `opt.map(|x| f(x))` is `match opt { Some(x) => Some(f(x)),
# None => None }`: the answer for the other variant is the aggregate `None` (marker _NONE), `map` re-wraps the closure's result.
_NONE = object()
# adapter -> (variant whose payload is given to the closure, index of the closure operand, answer for the other variant)
_ADAPTER_SHAPE = {
    ('option', 'is_some_and'): ('Some', 1, 'false'), ('option', 'is_none_or'): ('Some', 1, 'true'),
    ('option', 'map_or'): ('Some', 2, None),
    ('option', 'and_then'): ('Some', 1, _NONE), ('option', 'map'): ('Some', 1, _NONE),
    ('result', 'is_ok_and'): ('Ok', 1, 'false'), ('result', 'is_err_and'): ('Err', 1, 'false'),
    ('result', 'map_or'): ('Ok', 2, None),
}
_ADAPTER_VARIANT_INDEX = {'None': 0, 'Some': 1, 'Ok': 0, 'Err': 1}


def _expand_adapters(F, body, max_blocks=120):
    """A copy of `body` in which every call `opt.is_some_and(closure)` (is_none_or / is_ok_and / is_err_and / map_or) whose
    closure is a closure expression of the workspace is replaced by the `match` it stands for, with the closure's blocks in
    place of the call. Returns `body` itself when there is no such call."""
    import copy
    import facts as _facts
    du = Q.DefUse(body)
    todo = []
    for i, t in body.calls():
        name = t['f'].get('def') or t['f'].get('decl') or ''
        m = _ADAPTERS.match(name)
        if not m or t.get('to') is None or t['dest'].get('p'):
            continue
        shape = _ADAPTER_SHAPE.get(('option' if 'option::Option' in name else 'result', m.group(1)))
        if shape is None or len(t['a']) <= shape[1]:
            continue
        org = du.origin(t['a'][shape[1]])
        if not (org['k'] == 'agg' and org['rv'].get('ak') == 'closure'):
            continue
        cb = F.bodies.get(org['rv'].get('def'))
        if cb is None or cb.d.get('coroutine') or cb.argc != 2 or len(cb.blocks) > max_blocks:
            continue
        if not ('cp' in t['a'][0] or 'mv' in t['a'][0]):
            continue
        todo.append((i, t, cb, shape + (m.group(1) == 'map',)))
    if not todo:
        return body
    d = copy.deepcopy(body.d)
    for i, t, cb, (variant, ci, other, rewrap) in todo:
        line = t.get('line')
        subject = len(d['locals'])
        d['locals'].append({'ty': (t.get('at') or ['?'])[0]})
        tag = len(d['locals'])
        d['locals'].append({'ty': 'isize'})
        ret_to, ret_dest = t['to'], t['dest']
        if rewrap:
            # the closure answers into a fresh local; one more block wraps it: dest = Some(answer)
            ret_dest = {'l': len(d['locals'])}
            d['locals'].append({'ty': cb.locals[0].get('ty', '?')})
        L = len(d['locals'])
        d['locals'].extend(copy.deepcopy(cb.locals))
        b_other = len(d['blocks'])
        if other is _NONE:
            other_rv = {'k': 'agg', 'ak': 'adt', 'adt': 'core::option::Option', 'variant': 'None', 'ops': []}
        else:
            other_rv = {'k': 'use', 'o': {'c': other, 'ty': 'bool'} if other is not None else t['a'][1]}
        d['blocks'].append({'s': [{'k': 'assign', 'lhs': t['dest'], 'line': line, 'rv': other_rv}],
                            't': {'k': 'goto', 'to': t['to'], 'line': line}})
        if rewrap:
            ret_to = len(d['blocks'])
            d['blocks'].append({'s': [{'k': 'assign', 'lhs': t['dest'], 'line': line,
                                       'rv': {'k': 'agg', 'ak': 'adt', 'adt': 'core::option::Option', 'variant': 'Some',
                                              'ops': [{'mv': ret_dest}]}}],
                                't': {'k': 'goto', 'to': t['to'], 'line': line}})
        b_call = len(d['blocks'])
        B = b_call + 1
        d['blocks'].append({'s': [{'k': 'assign', 'lhs': {'l': L + 1}, 'rv': {'k': 'use', 'o': t['a'][ci]}, 'line': line},
                                  {'k': 'assign', 'lhs': {'l': L + 2}, 'line': line,
                                   'rv': {'k': 'use', 'o': {'mv': {'l': subject, 'p': [{'v': variant}, {'f': '0'}]}}}}],
                            't': {'k': 'goto', 'to': B, 'line': line, 'inlined': cb.fn}})
        cfile = cb.file if cb.file != body.file else None
        for blk in cb.blocks:
            d['blocks'].append(_facts._shift_block(blk, L, B, ret_to, ret_dest, cfile))
        head = d['blocks'][i]
        head['s'].append({'k': 'assign', 'lhs': {'l': subject}, 'rv': {'k': 'use', 'o': t['a'][0]}, 'line': line})
        head['s'].append({'k': 'assign', 'lhs': {'l': tag}, 'line': line,
                          'rv': {'k': 'discr', 'pl': {'l': subject}, 'ty': (t.get('at') or ['?'])[0]}})
        head['t'] = {'k': 'switch', 'd': {'mv': {'l': tag}}, 'dty': 'isize', 'line': line,
                     'ts': [[_ADAPTER_VARIANT_INDEX[variant], b_call]], 'else': b_other, 'adapter': t['f'].get('def') or t['f'].get('decl')}
    nb = _facts.Body(d, body.crate)
    nb.inlined_from = list(getattr(body, 'inlined_from', [])) + [x[2].fn for x in todo]
    return nb


def _in_place(F, fn, rounds=4, max_total=600):
    """The body of `fn` with the small private helpers of its module inlined (F.inlined) and the closures it hands to the
    Option/Result predicates expanded (_expand_adapters), repeated so that a helper called from such a closure, and a
    closure inside such a helper, are seen too."""
    body = F.main_body(fn) if isinstance(fn, str) else fn
    seen = list(getattr(body, 'inlined_from', []))
    for _ in range(rounds):
        nb = F.inlined(body)
        if nb is not body:
            seen += [f for f in getattr(nb, 'inlined_from', []) if f not in seen]
        nb2 = _expand_adapters(F, nb)
        if nb2 is not nb:
            seen += [f for f in getattr(nb2, 'inlined_from', []) if f not in seen]
        if nb2 is body or len(nb2.blocks) > max_total:
            break
        body = nb2
    if seen:
        body.inlined_from = seen
    return body


# ---------------------------------------------------------------- R3: documented disambiguations
def _bool_eval(n, atoms, lets=None, depth=6):
    """Evaluate a condition built from !, ||, && over recognised atoms; atoms(node) -> key or None. `lets` = {binding id:
    initialiser} of the immutable `let`s of the function: a condition materialised in a local is read through it."""
    n = strip(n)
    k = n.get('k')
    if k == 'local' and lets and n.get('id') in lets and depth > 0:
        return _bool_eval(lets[n['id']], atoms, lets, depth - 1)
    if k == 'unary' and n.get('op') == '!':
        f = _bool_eval(n['a'], atoms, lets, depth)
        return None if f is None else (lambda env, f=f: not f(env))
    if k == 'binary' and n.get('op') in ('||', '&&'):
        a, b = _bool_eval(n['a'], atoms, lets, depth), _bool_eval(n['b'], atoms, lets, depth)
        if a is None or b is None:
            return None
        if n['op'] == '||':
            return lambda env: a(env) or b(env)
        return lambda env: a(env) and b(env)
    key = atoms(n)
    if key is None:
        return None
    return lambda env, key=key: env[key]


@RS.rule('C06.R3', 'K-GUARD', 'print disambiguations: keyword-first simple commands print redirections first; `<< -x` keeps a space')
def r3(cx):
    F = cx.F
    # SimpleCommand
    adt = SYN + 'SimpleCommand'
    dfn = impl_fn(F, adt, DISPLAY, 'fmt')
    cx.fn(dfn)
    h = F.hir_of(dfn)

    def atoms(n):
        if n.get('k') == 'mcall' and n.get('name') == 'is_empty':
            r = strip(n['recv'])
            if r.get('k') == 'field' and r.get('name') == 'assigns':
                return 'no_assigns'
        if n.get('k') == 'mcall' and (n.get('def') or '').endswith('SimpleCommand::first_word_is_keyword'):
            return 'keyword_first'
        return None
    # immutable `let name = <init>;` bindings: a condition may be materialised in one before it is tested
    lets = {}
    for x in H.walk(h['body']):
        if x.get('k') == 'block':
            for st in x.get('stmts') or []:
                if st.get('k') == 'let' and st['pat'].get('k') == 'bind' and not st['pat'].get('sub') and st.get('init') and \
                        not st.get('els') and (st['pat'].get('mode') or '').replace(' ', '').endswith(',Not)'):
                    lets[st['pat']['id']] = st['init']

    def tests_keyword(c, depth=6):
        if H.calls(c, [re.compile(r'first_word_is_keyword$')]):
            return True
        return depth > 0 and any(y.get('k') == 'local' and y.get('id') in lets and tests_keyword(lets[y['id']], depth - 1)
                                 for y in H.walk(c))
    ifs = [x for x in H.walk(h['body']) if x.get('k') == 'if' and tests_keyword(x['c'])]
    if not ifs:
        cx.site('Display for SimpleCommand: no test of first_word_is_keyword')
        cx.violation(dfn, 'no-keyword-test', 'a simple command whose first word is a reserved word (e.g. `>/dev/null if`) is printed '
                     'words-first and re-parses as a compound command', loc=loc_of(h))
    else:
        cx.require(len(ifs) == 1, 'Display for SimpleCommand: more than one keyword test')
        f = _bool_eval(ifs[0]['c'], atoms, lets)
        cx.require(f is not None, 'Display for SimpleCommand: condition is not a formula over assigns.is_empty() and first_word_is_keyword()')
        # which iterator is which field
        field_of = {}
        for x in H.walk(h['body']):
            if x.get('k') == 'block':
                for st in x.get('stmts') or []:
                    if st.get('k') == 'let' and st['pat'].get('k') == 'bind':
                        fl = [y.get('name') for y in H.walk(st['init']) if y.get('k') == 'field' and y.get('adt') == adt]
                        if len(set(fl)) == 1:
                            field_of[st['pat']['id']] = fl[0]

        def order(branch):
            out = []

            def rec(n):
                n = strip(n)
                if n.get('k') == 'mcall' and n.get('name') == 'chain':
                    rec(n['recv'])
                    for a in n['a']:
                        rec(a)
                elif n.get('k') == 'local' and n.get('id') in field_of:
                    out.append(field_of[n['id']])
                elif n.get('k') == 'mcall':
                    rec(n['recv'])
            chains = [x for x in H.walk(branch) if x.get('k') == 'mcall' and x.get('name') == 'chain']
            if chains:
                rec(chains[0])
            return out
        o_t, o_f = order(ifs[0]['t']), order(ifs[0]['f'])
        cx.site('Display for SimpleCommand: then-branch order %s, else-branch order %s' % (o_t, o_f))
        for na in (True, False):
            for kf in (True, False):
                cx.cellcount(1)
                o = o_t if f({'no_assigns': na, 'keyword_first': kf}) else o_f
                if na and kf:
                    ok = o[:1] == ['redirs'] and 'words' in o and o.index('words') > 0
                    if not ok:
                        cx.violation(dfn, 'keyword-first-order', 'with no assignment and a reserved word as first word the command is '
                                     'printed as %s: it re-parses as a compound command (redirections must come first)' % o, loc=loc_of(h, ifs[0]))
                else:
                    if o != ['assigns', 'words', 'redirs']:
                        cx.violation(dfn, 'normal-order:%s:%s' % (na, kf), 'assigns.is_empty()=%s, keyword first=%s: printed as %s, '
                                     'expected assignments, words, redirections' % (na, kf, o), loc=loc_of(h, ifs[0]))
    # first_word_is_keyword consults the lexer's keyword table
    kfn = [k for k in F.hir if k.endswith('SimpleCommand::first_word_is_keyword')]
    cx.require(len(kfn) == 1, 'first_word_is_keyword not found')
    kb = _in_place(F, kfn[0])          # a lookup moved into a private helper or a predicate closure still counts
    cx.fn(kfn[0])
    for f_ in getattr(kb, 'inlined_from', []):
        cx.fn(f_)
    parses = [t for b, t in kb.calls() if (t['f'].get('ga') or '').startswith(KW) or KW in ' '.join(Q.callee_names(t))]
    cx.site('first_word_is_keyword: keyword table used at %d sites' % len(parses))
    if not parses:
        cx.violation(kfn[0], 'keyword-table', 'first_word_is_keyword does not consult Keyword::from_str', loc=kb.loc(kb.d))
    # HereDoc
    adt = SYN + 'HereDoc'
    dfn = impl_fn(F, adt, DISPLAY, 'fmt')
    cx.fn(dfn)
    h = F.hir_of(dfn)
    top = strip_blocks_only(h['body'])
    stmts = list(top.get('stmts') or []) + ([{'k': 'stmt', 'e': top['e']}] if top.get('e') else [])
    pos = {'op': None, 'space': None, 'delim': None}
    for idx, st in enumerate(stmts):
        e = strip(st.get('e') or st.get('init') or {})
        if e.get('k') == 'mcall' and e.get('name') in ('write_str', 'write_fmt') and \
                any(y.get('k') == 'lit' and y.get('v') in ('<<', '<<-') for y in H.walk(e)):
            pos['op'] = idx
        elif e.get('k') == 'if' and strip(e['c']).get('k') == 'letexpr':
            le = strip(e['c'])
            p = le['pat']
            chain = []
            while isinstance(p, dict) and p.get('k') == 'ptuplestruct' and len(p['sub']) == 1:
                chain.append(p['p'].get('def'))
                p = p['sub'][0]
            dash = p.get('k') == 'pexpr' and p['e'].get('v') == '-'
            init = strip(le['init'])
            on_first = init.get('k') == 'mcall' and init.get('name') == 'first' and \
                [y.get('name') for y in H.walk(init['recv']) if y.get('k') == 'field'][:2] == ['units', 'delimiter']
            space = any(emitted(y) == ' ' for y in H.walk(e['t']))
            if chain == ['core::option::Option::Some', SYN + 'WordUnit::Unquoted', SYN + 'TextUnit::Literal'] and dash and on_first and space:
                pos['space'] = idx
        elif any(y.get('k') == 'field' and y.get('name') == 'delimiter' and y.get('adt') == adt for y in H.walk(e)):
            if pos['delim'] is None:
                pos['delim'] = idx
    cx.site('Display for HereDoc: operator stmt %s, dash-space stmt %s, delimiter stmt %s' % (pos['op'], pos['space'], pos['delim']))
    cx.require(pos['op'] is not None and pos['delim'] is not None, 'Display for HereDoc: operator / delimiter emission not recognised')
    if pos['space'] is None:
        cx.violation(dfn, 'no-dash-space', '`<<` followed by a delimiter that starts with an unquoted `-` is printed as `<<-...`, '
                     'which re-parses as the tab-removing operator with a different delimiter', loc=loc_of(h))
    elif not (pos['op'] < pos['space'] < pos['delim']):
        cx.violation(dfn, 'dash-space-misplaced', 'the separating space is not emitted between the operator and the delimiter', loc=loc_of(h))


# ---------------------------------------------------------------------------------------
# C06.R4 - totality: explicit panic-capable constructs of the parser are the reviewed ones,
# and the reasons that make the fallible ones safe are re-checked on the facts.
import re as _re

_UNWRAP = _re.compile(r'core::(option::Option|result::Result)::<.*?>::(unwrap|expect)$')
_PANIC = _re.compile(r'^core::panicking::(panic|panic_fmt|assert_failed|panic_explicit|unreachable_display|panic_display)$')


def _unwrap_sites(F):
    out = []
    for b in F.bodies_in(['yash_syntax::parser']):
        du = None
        for blk, t in b.calls():
            if any(_UNWRAP.search(n) for n in Q.callee_names(t)):
                du = du or Q.DefUse(b)
                src = Q.value_source(b, du, t['a'][0])
                prod = (src['f'].get('def') or src['f'].get('decl') or '?') if src is not None else None
                out.append((b, blk, t, src, prod))
    return out


def _closure_calls_only(F, body, du, operand, wanted):
    """The predicate passed as `operand` (closure aggregate or fn item) is `wanted`."""
    org = du.origin(operand)
    if org['k'] == 'const' and org['o'].get('fn'):
        return Q.name_matches(org['o']['fn'], wanted)
    if org['k'] == 'agg' and org['rv'].get('ak') == 'closure':
        cb = F.bodies.get(org['rv']['def'])
        if cb is None:
            return False
        calls = [t for _, t in cb.calls()]
        return len(calls) == 1 and Q.callee_is(calls[0], [wanted])
    return False


def _reason_token_present(cx, F, b, blk, t):
    req = Q.find_calls(b, [_re.compile(r'Parser::<.*>::require_token$')])
    if not any(rb != blk and b.dominates(rb, blk) for rb, _ in req):
        return 'the unwrap of `self.token` is not preceded by require_token()'
    rq = [fn for fn in F.bodies if _re.search(r'Parser::<.*>::require_token::\{closure#0\}$', fn)]
    if len(rq) != 1:
        return 'require_token not found'
    rb = F.bodies[rq[0]]
    rdu = Q.DefUse(rb)
    writes = [s for _, _, s, kind, f in Q.field_writes(rb, '*::Parser', 'token') if kind == 'assign']

    def is_some(s):
        rv = s['rv']
        if rv['k'] == 'agg':
            return rv.get('variant') == 'Some'
        if rv['k'] == 'use':
            org = rdu.origin(rv['o'])
            return org['k'] == 'agg' and org['rv'].get('variant') == 'Some'
        return False
    ok = any(is_some(s) for s in writes)
    return None if ok else 'require_token does not store Some(..) into self.token'


def _reason_guarded_by_predicate(wanted_pred, producer_arg_index=0):
    def chk(cx, F, b, blk, t):
        du = Q.DefUse(b)
        src = Q.value_source(b, du, t['a'][0])
        if src is None:
            return 'producer of the unwrapped value not found'
        # the character comes from consume_char_if(<predicate>) on the Some edge
        cands = Q.find_calls(b, [_re.compile(r'::consume_char_if$')])
        doms = [(cb, ct) for cb, ct in cands if cb != blk and b.dominates(cb, blk)]
        if not doms:
            return 'no consume_char_if dominates the unwrap'
        cb, ct = doms[-1]
        if not _closure_calls_only(F, b, du, ct['a'][1], wanted_pred):
            return 'the character is accepted by a predicate other than %s, which is what makes the unwrap infallible' % (
                wanted_pred.pattern if hasattr(wanted_pred, 'pattern') else wanted_pred)
        return None
    return chk


def _reason_special_param(cx, F, b, blk, t):
    r = _reason_guarded_by_predicate('yash_syntax::parser::lex::raw_param::is_special_parameter_char')(cx, F, b, blk, t)
    if r:
        return r
    h = F.hir_of('yash_syntax::parser::lex::raw_param::is_special_parameter_char')
    names = [H.short(c.get('def') or c.get('decl') or '') for c in H.calls(h['body'])]
    return None if ('from_char' in names and 'is_some' in names) else \
        'is_special_parameter_char is no longer `SpecialParam::from_char(c).is_some()`'


def _reason_const_nonzero(cx, F, b, blk, t):
    du = Q.DefUse(b)
    src = Q.value_source(b, du, t['a'][0])
    if src is None or not src['a']:
        return 'producer not found'
    c = src['a'][0].get('c')
    return None if (c is not None and str(c).split('_')[0] not in ('0',)) else 'NonZero::new is not given a non-zero constant'


# (function suffix, unwrap|expect, producer suffix) -> (max sites, reason text, checker or None)
UNWRAP_OK = [
    (r'Parser::<.*>::peek_token::\{closure#0\}$', 'unwrap', r'Option::<T>::as_ref$', 1,
     'require_token() has just filled self.token', _reason_token_present),
    (r'Parser::<.*>::take_token_raw::\{closure#0\}$', 'unwrap', None, 1,
     'require_token() has just filled self.token', _reason_token_present),
    (r'short_function_definition::\{closure#0\}$', 'unwrap', r'Vec::<T, A>::pop$', 1,
     'the caller passes a simple command consisting of exactly one word (checked by debug_assert and by simple_command)', None),
    (r'here_doc_content::\{closure#0\}$', 'expect', r'OnceCell::<T>::set$', 1,
     'each here-document operator is queued once and its content read once', None),
    (r'raw_param::\{closure#0\}$', 'unwrap', r'SpecialParam>::from_char$', 1,
     'the character was accepted by is_special_parameter_char, i.e. from_char(c).is_some()', _reason_special_param),
    (r'raw_param::\{closure#0\}$', 'unwrap', r'<impl char>::to_digit$', 1,
     'the character was accepted by char::is_ascii_digit, so to_digit(10) is Some',
     _reason_guarded_by_predicate('core::char::methods::<impl char>::is_ascii_digit')),
    (r'from_str::unwrap_ready$', 'expect', r'now_or_never$', 1,
     'FromStr parses from memory: the future never pends', None),
    (r'LexerCore::<.*>::substitute_alias$', 'unwrap', r'NonZero::<T>::new$', 1,
     'NonZero::new of the constant 1', _reason_const_nonzero),
]

# explicit panics (assert!/unreachable!/panic!/debug_assert!) : function suffix -> max sites (each site = 1 call)
PANIC_OK = {
    r'case::.*::case_command::\{closure#0\}$': 1, r'case::.*::case_item::\{closure#0\}$': 1,
    r'case_item::\{closure#0\}::pattern_error_cause$': 1, r'Parser::<.*>::has_blank::\{closure#0\}$': 1,
    r'Parser::<.*>::here_doc_contents::\{closure#0\}$': 1, r'Parser::<.*>::location::\{closure#0\}$': 1,
    r'core::Rec::<T>::unwrap$': 1, r'for_loop::.*::for_loop::\{closure#0\}$': 1, r'for_loop_values::\{closure#0\}$': 1,
    r'short_function_definition::\{closure#0\}$': 2, r'grouping::.*::grouping::\{closure#0\}$': 1,
    r'grouping::.*::subshell::\{closure#0\}$': 1, r'arithmetic_expansion::\{closure#0\}$': 1,
    r'Lexer::<.*>::disable_line_continuation$': 1, r'LexerCore::<.*>::consume_char$': 1,
    r'LexerCore::<.*>::mark_line_continuation$': 1, r'LexerCore::<.*>::peek_char_at$': 1, r'LexerCore::<.*>::rewind$': 1,
    r'LexerCore::<.*>::substitute_alias$': 1, r'single_quoted_escaped_string::\{closure#0\}$': 1,
    r'modifier::.*::trim::\{closure#0\}$': 1, r'modifier::.*::switch::\{closure#0\}$': 1,
    r'list::error_type_for_trailing_token_in_command_line$': 1, r'if_command::\{closure#0\}$': 1,
    r'simple_command::.*::simple_command::\{closure#0\}$': 3, r'until_loop::\{closure#0\}$': 1, r'while_loop::\{closure#0\}$': 1,
}


@RS.rule('C06.R4', 'K-EFFECT+K-GUARD', 'parser totality: every unwrap/expect/panic in yash_syntax::parser is reviewed, and the guard that makes each fallible unwrap safe still holds')
def r4(cx):
    F = cx.F
    seen = {}
    for b, blk, t, src, prod in _unwrap_sites(F):
        kind = 'expect' if any(n.endswith('::expect') for n in Q.callee_names(t)) else 'unwrap'
        cx.fn(b.fn)
        row = None
        for pat, k, ppat, mx, why, chk in UNWRAP_OK:
            if _re.search(pat, b.fn) and k == kind and ((ppat is None and prod is None) or (ppat and prod and _re.search(ppat, prod))):
                row = (pat, k, ppat, mx, why, chk)
                break
        cx.site('%s: %s of %s at %s' % (b.fn, kind, (prod or '?').split('::')[-1], b.loc(t)))
        if row is None:
            cx.violation(b.root, '%s<-%s' % (kind, (prod or 'unknown').split('::')[-1]),
                         'unreviewed `%s()` in the parser on the result of %s: if that can be None/Err for some input text the shell '
                         'panics instead of reporting a syntax error' % (kind, prod or 'an unknown producer'), loc=b.loc(t))
            continue
        key = (row[0], row[1], row[2])
        seen[key] = seen.get(key, 0) + 1
        if seen[key] > row[3]:
            cx.violation(b.root, '%s<-%s#extra' % (kind, (prod or 'unknown').split('::')[-1]), 'more `%s()` sites than reviewed (%d)' % (kind, row[3]),
                         loc=b.loc(t))
        if row[5] is not None:
            bad = row[5](cx, F, b, blk, t)
            if bad:
                cx.violation(b.root, '%s<-%s#guard' % (kind, (prod or 'unknown').split('::')[-1]),
                             'the reason this `%s()` cannot fail (%s) no longer holds: %s' % (kind, row[4], bad), loc=b.loc(t))
    # explicit panics
    counts = {}
    for b in F.bodies_in(['yash_syntax::parser']):
        for blk, t in b.calls():
            if any(_PANIC.search(n) for n in Q.callee_names(t)):
                counts.setdefault(b.fn, []).append(b.loc(t))
    def reviewed(fn):
        mx = None
        for pat, n in PANIC_OK.items():
            if _re.search(pat, fn):
                mx = n
        return mx

    # A block of a reviewed function extracted into a private helper of the same module keeps the review of that function:
    # a non-public function whose EVERY caller is a reviewed function of its module is counted with each of them (the sites
    # of the helper and of the caller together must not exceed the reviewed number). The guards that make the reviewed
    # constructs safe are decided by the rules that own them, which follow the helper (R1d for the modifier tables).
    from facts import same_module_private
    adopted = {}                       # helper body fn -> [reviewed caller body fn]
    for fn in sorted(counts):
        if reviewed(fn) is not None:
            continue
        root = F.bodies[fn].root
        sig = F.fns.get(root)
        if sig is None or sig.get('vis') == 'pub':
            continue
        callers = {b.fn for b, blk, t in F.callers_of(lambda names, t: root in names) if b.root != root}
        # the helper must be called, not handed around as a value
        as_value = any(o.get('fn') == root for b in F.bodies_in(['yash_syntax::']) for _, _, st in b.stmts()
                       if st['k'] == 'assign' for o in Q.rvalue_operands(st['rv']) if isinstance(o, dict)) or \
            any(isinstance(a, dict) and a.get('fn') == root for b in F.bodies_in(['yash_syntax::']) for _, t in b.calls() for a in t['a'])
        if callers and not as_value and all(reviewed(c) is not None and same_module_private(F, F.bodies[c].root)(root) for c in callers):
            adopted[fn] = sorted(callers)
    extra = {}
    for fn, owners in adopted.items():
        for o in owners:
            extra.setdefault(o, []).extend(counts[fn])
    for fn, locs in sorted(counts.items()):
        cx.site('%s: %d explicit panic/assert site(s)' % (fn, len(locs)))
        cx.fn(fn)
        if fn in adopted:
            for o in adopted[fn]:
                total = len(counts.get(o, [])) + len(extra[o])
                cx.site('%s: counted with the reviewed sites of %s (private helper called from reviewed functions only): %d in total'
                        % (fn, o, total))
                if total > reviewed(o):
                    cx.violation(o, 'panic-site-count', '%d explicit panic sites (with the private helper %s), %d reviewed'
                                 % (total, fn.split('::')[-1], reviewed(o)), loc=locs[-1])
            continue
        mx = reviewed(fn)
        if mx is None:
            cx.violation(fn, 'panic-site', 'unreviewed panic!/unreachable!/assert! in the parser (%d site(s)): the parser must answer every '
                         'input with a tree or a syntax error' % len(locs), loc=locs[0])
        elif len(locs) > mx:
            cx.violation(fn, 'panic-site-count', '%d explicit panic sites, %d reviewed' % (len(locs), mx), loc=locs[-1])
    cx.floor(len(counts), 20, 'functions with explicit panic sites')


@RS.rule('C06.R3b', 'K-GUARD+K-CONST', 'first_word_is_keyword answers `false` only for a missing/non-literal first word or from the keyword table; a length shortcut must admit the longest keyword')
def r3b(cx):
    F = cx.F
    fns = [k for k in F.bodies if k.endswith('SimpleCommand::first_word_is_keyword')]
    cx.require(len(fns) == 1, 'first_word_is_keyword not found')
    _r3b_decide(cx, F, fns)


_R3B_ABSENT = [re.compile(r'::first$'), re.compile(r'::to_string_if_literal$'), re.compile(r'::get$'), re.compile(r'::first_mut$')]
_R3B_KW_RESULT = 'core::result::Result<' + KW + ','
# `word.extend_literal(&mut s)` answering Err(NotLiteral) is "the first word is not a literal" as much as to_string_if_literal() == None
_R3B_NOT_LITERAL = 'core::result::Result<(), ' + SYN + 'conversions::NotLiteral>'


def _r3b_sources(b, du, local, depth=24):
    """Every definition the value of `local` may come from, followed through moves, borrows, `?` and the adaptors that keep
    absence (Q.PROPAGATING_CALLS): [('call', block, terminator) | ('other', block, node) | ('arg', None, local)]."""
    out, seen, work = [], set(), [(local, depth)]
    while work:
        l, dep = work.pop()
        if l in seen:
            continue
        seen.add(l)
        defs = du.defs.get(l, [])
        if not defs or dep == 0:
            out.append(('other' if defs else 'arg', None, l))
            continue
        for blk, idx, node in defs:
            if (node.get('dest') if idx == 't' else node.get('lhs') or {}).get('p'):
                out.append(('other', blk, node))
            elif idx == 't':
                src = Q.operand_place(node['a'][0]) if node['a'] else None
                if src is not None and Q.callee_is(node, Q.TRY_BRANCH + Q.PROPAGATING_CALLS):
                    work.append((src['l'], dep - 1))
                else:
                    out.append(('call', blk, node))
            elif node['k'] == 'assign' and node['rv']['k'] == 'use' and Q.operand_place(node['rv']['o']) is not None:
                work.append((Q.operand_place(node['rv']['o'])['l'], dep - 1))
            elif node['k'] == 'assign' and node['rv']['k'] == 'ref':
                work.append((node['rv']['pl']['l'], dep - 1))
            else:
                out.append(('other', blk, node))
    return out


def _r3b_from_words(b, du, local, depth=12):
    """The value of `local` is (a view of) the `words` of the simple command: `self.words`, its slice, a borrow of either."""
    seen = set()
    while depth > 0 and local not in seen:
        seen.add(local)
        depth -= 1
        defs = du.defs.get(local, [])
        if len(defs) != 1:
            return False
        blk, idx, node = defs[0]
        if idx == 't':
            if not (node['a'] and Q.operand_place(node['a'][0]) is not None and Q.callee_is(node, [
                    re.compile(r'^alloc::vec::Vec::<T, A>::(as_slice|as_mut_slice)$'), '*::Deref::deref', '*::AsRef::as_ref', '*::Borrow::borrow',
                    re.compile(r'^<alloc::vec::Vec<T, A> as core::ops::deref::Deref>::deref$')])):
                return False
            local = Q.operand_place(node['a'][0])['l']
            continue
        if node['k'] != 'assign' or node['lhs'].get('p'):
            return False
        rv = node['rv']
        pl = rv['pl'] if rv['k'] == 'ref' else Q.operand_place(rv['o']) if rv['k'] == 'use' else None
        if pl is None:
            return False
        proj = [e for e in pl.get('p') or [] if e != '*']
        if proj:
            return len(proj) == 1 and isinstance(proj[0], dict) and proj[0].get('f') == 'words' and proj[0].get('adt') == SYN + 'SimpleCommand'
        local = pl['l']
    return False


def _r3b_justified_edges(cx, F, b, du, words, covered_residuals=None):
    """The switch edges on which answering "not a keyword" is right: the first word is missing / not a literal, the keyword
    table said no, or a length test that no keyword passes. covered_residuals = blocks of `?` propagations (from_residual)
    that are themselves only reached through such an edge (None: do not accept any)."""
    maxlen, minlen = max(len(w) for w in words), min(len(w) for w in words)
    notes = {}

    def absent_value(local):
        srcs = _r3b_sources(b, du, local)
        if not srcs:
            return False
        for kind, blk, node in srcs:
            if kind == 'other' and blk is not None and covered_residuals is not None and blk in covered_residuals and \
                    node.get('k') == 'assign' and not node['lhs'].get('p') and _r10_wrapper(node['rv']) == []:
                # the `None` that `opt.and_then(..)` / `opt.map(..)` / `x?` hands on for an absent first word: written in a block
                # that is only reached through a justifying edge
                continue
            if kind == 'other' and node.get('k') == 'assign' and not node['lhs'].get('p') and node['rv'].get('k') == 'agg' and \
                    node['rv'].get('adt') == 'core::option::Option' and node['rv'].get('variant') == 'Some':
                # `Some(..)` (what `opt.map(..)` re-wraps its closure's answer in) never takes the None edge
                continue
            if kind != 'call':
                return False
            dty = (node.get('dty') or '').lstrip('&')
            if Q.callee_is(node, _R3B_ABSENT) or dty.startswith(_R3B_KW_RESULT):
                continue
            if Q.callee_is(node, Q.FROM_RESIDUAL) and dty.startswith('core::option::Option<') and \
                    covered_residuals is not None and blk in covered_residuals:
                continue
            return False
        return True

    def const_int(o):
        if not isinstance(o, dict) or not ('c' in o or 'cdef' in o):
            return None
        if o.get('cdef') and o['cdef'] in F.hir:
            v = H.const_eval(F.hir[o['cdef']]['body'])
            if isinstance(v, int) and not isinstance(v, bool):
                return v
        try:
            return int(str(o.get('c')).split('_')[0])
        except ValueError:
            return None

    def words_len(o):
        """operand `o` is the number of words of the command"""
        org = du.origin(o)
        if org['k'] == 'unop' and org['rv'].get('op') in ('PtrMetadata', 'Len'):
            pl = Q.operand_place(org['rv']['o']) if isinstance(org['rv'].get('o'), dict) else org['rv'].get('pl')
            return pl is not None and _r3b_from_words(b, du, pl['l'])
        if org['k'] == 'unknown' and org['rv'].get('k') == 'len' and org['rv'].get('pl'):
            return _r3b_from_words(b, du, org['rv']['pl']['l'])
        if org['k'] == 'call' and Q.callee_is(org['t'], [re.compile(r'::len$')]) and org['t']['a'] and Q.operand_place(org['t']['a'][0]):
            return _r3b_from_words(b, du, Q.operand_place(org['t']['a'][0])['l'])
        return False

    def justified(org, lab, u):
        org, lab = Q.peel_not(du, org, lab)
        if org['k'] == 'discr':
            ty = org['ty'].lstrip('&')
            if lab == ('variant', 'None') and ty.startswith('core::option::Option<'):
                return absent_value(org['pl']['l'])
            if lab == ('variant', 'Break') and ty.startswith('core::ops::control_flow::ControlFlow<core::option::Option<core::convert::Infallible>'):
                return absent_value(org['pl']['l'])
            # "from the keyword table": the lookup result (a Result<Keyword, _>) is known to be Err on this path
            if lab == ('variant', 'Err') and (ty.startswith(_R3B_KW_RESULT) or ty == _R3B_NOT_LITERAL):
                return True
            return False
        if org['k'] == 'call' and lab[0] == 'bool':
            t = org['t']
            at0 = ((t.get('at') or [''])[0]).lstrip('&')
            if (at0.startswith(_R3B_KW_RESULT) or at0 == _R3B_NOT_LITERAL) and \
                    ((Q.callee_is(t, [re.compile(r'^core::result::Result::<T, E>::is_err$')]) and lab[1] is True) or
                     (Q.callee_is(t, [re.compile(r'^core::result::Result::<T, E>::is_ok$')]) and lab[1] is False)):
                return True
            src = Q.operand_place(t['a'][0]) if t['a'] else None
            if src is not None and at0.startswith('core::option::Option<') and \
                    ((Q.callee_is(t, [re.compile(r'^core::option::Option::<T>::is_none$')]) and lab[1] is True) or
                     (Q.callee_is(t, [re.compile(r'^core::option::Option::<T>::is_some$')]) and lab[1] is False)):
                return absent_value(src['l'])
            if src is not None and lab[1] is True and Q.callee_is(t, [re.compile(r'::is_empty$')]):
                return _r3b_from_words(b, du, src['l'])
            return False
        if org['k'] == 'binop' and lab[0] == 'bool' and org['rv']['op'] in ('Eq', 'Ne'):
            # `[] => false` / `words.len() == 0`: there is no first word
            for x, y in ((org['rv']['a'], org['rv']['b']), (org['rv']['b'], org['rv']['a'])):
                if const_int(du.origin(y).get('o') if du.origin(y)['k'] == 'const' else None) == 0 and words_len(x):
                    return (org['rv']['op'] == 'Eq') == lab[1]
            return False
        if org['k'] == 'binop' and lab[0] == 'bool' and org['rv']['op'] in ('Gt', 'Ge', 'Lt', 'Le'):
            ops = [du.origin(o)['o'] if du.origin(o)['k'] == 'const' else o for o in (org['rv']['a'], org['rv']['b'])]
            consts = [(i, o) for i, o in enumerate(ops) if 'c' in o or 'cdef' in o]
            if len(consts) != 1:
                return False
            i, o = consts[0]
            n = const_int(o)
            if n is None:
                return False
            op = org['rv']['op']
            # normalise to: "length REL n" holds on this edge, with the length on the left
            if i == 0:
                op = {'Gt': 'Lt', 'Ge': 'Le', 'Lt': 'Gt', 'Le': 'Ge'}[op]
            if not lab[1]:
                op = {'Gt': 'Le', 'Ge': 'Lt', 'Lt': 'Ge', 'Le': 'Gt'}[op]
            notes[u] = 'length %s %d' % (op, n)
            # false may be answered only for lengths that no keyword has
            return (op == 'Gt' and n >= maxlen) or (op == 'Ge' and n > maxlen) or (op == 'Lt' and n <= minlen) or (op == 'Le' and n < minlen)
        return False

    edges = set()
    for u in sorted(b.live_blocks()):
        ec = Q.edge_condition(F, b, du, u)
        if ec is None:
            continue
        org, labels = ec
        for v, labs in labels.items():
            if labs and all(justified(org, lab, u) for lab in labs):
                edges.add((u, v))
    return edges, notes


def _r3b_decide(cx, F, fns):
    # the function with its private helpers and predicate closures in place: the tests are the same tests wherever they are written
    b = _in_place(F, fns[0])
    cx.fn(b.fn)
    for f_ in getattr(b, 'inlined_from', []):
        cx.fn(f_)
    du = Q.DefUse(b)
    # longest keyword, read from Keyword::as_str
    kfn = [k for k in F.hir if k.endswith('Keyword::as_str') or k.endswith('<impl yash_syntax::parser::lex::keyword::Keyword>::as_str')]
    cx.require(len(kfn) == 1, 'Keyword::as_str not found: %s' % kfn)
    words = [x.get('v') for x in H.walk(F.hir[kfn[0]]['body']) if x.get('k') == 'lit' and x.get('t') == 'str']
    cx.require(len(words) >= 15, 'keyword table not readable')
    maxlen = max(len(w) for w in words)
    # locals that carry the answer: the return place and whatever is moved into it (results of inlined helpers / closures, `let r = ..; r`)
    carriers = {0}
    grew = True
    while grew:
        grew = False
        for blk, j, s in b.stmts():
            if s['k'] == 'assign' and not s['lhs'].get('p') and s['lhs']['l'] in carriers and s['rv']['k'] == 'use':
                pl = Q.operand_place(s['rv']['o'])
                if pl is not None and not pl.get('p') and pl['l'] not in carriers and b.locals[pl['l']].get('ty') == 'bool':
                    carriers.add(pl['l'])
                    grew = True
    falses = [(blk, j, s) for blk, j, s in b.stmts() if s['k'] == 'assign' and s['lhs']['l'] in carriers and not s['lhs'].get('p')
              and s['rv']['k'] == 'use' and str(s['rv']['o'].get('c')) == 'false']
    cx.site('first_word_is_keyword: %d constant-false results; longest keyword has %d characters' % (len(falses), maxlen))
    # edges that justify the answer `false`; a `?` that hands an absent first word on is justified by the edge it was reached through
    strict, _ = _r3b_justified_edges(cx, F, b, du, words)
    # .. and so is the `None` an Option adapter (`and_then`, `map`) hands on; a chain of them is followed to a fixpoint
    just, notes, residuals = strict, {}, None
    for _ in range(6):
        open_blocks = b.reachable(0, removed_edges=just)
        covered = {blk for blk, t in b.calls() if Q.callee_is(t, Q.FROM_RESIDUAL) and blk not in open_blocks}
        covered |= {blk for blk, j, s in b.stmts() if s['k'] == 'assign' and not s['lhs'].get('p') and _r10_wrapper(s['rv']) == []
                    and blk not in open_blocks}
        if covered == residuals:
            break
        residuals = covered
        just, notes = _r3b_justified_edges(cx, F, b, du, words, covered_residuals=residuals)
    cx.site('first_word_is_keyword: %d switch edge(s) justify the answer `false` (first word missing / not a literal, keyword table '
            'said no, length no keyword has)' % len(just))
    before = b.reachable(0, removed_edges=just)
    rets = set(b.return_blocks())
    for blk, j, s in falses:
        c = s['lhs']['l']
        # the constant is the answer unless the carrier is written again on the way out
        if any(s2['k'] == 'assign' and s2['lhs']['l'] == c and not s2['lhs'].get('p') for s2 in b.blocks[blk]['s'][j + 1:]):
            continue
        kills = {x for x, _, s2 in b.stmts() if x != blk and s2['k'] == 'assign' and s2['lhs']['l'] == c and not s2['lhs'].get('p')}
        ckills = {x for x, t in b.calls() if x != blk and t['dest']['l'] == c and not t['dest'].get('p')}
        # a call that defines the carrier does so when it returns: its own block is still passed
        after = b.reachable(blk, removed=kills, removed_edges=just | {(x, y) for x in ckills for y in b.succ(x)})
        # violated iff some path entry -> this `false` -> return takes none of the justifying edges
        if blk in before and (rets & after):
            why = sorted({notes[u] for org, lab, (u, v) in Q.dominating_conditions(F, b, du, blk) if u in notes and (u, v) not in just})
            cx.violation(b.fn, 'false-without-table', 'first_word_is_keyword answers "not a keyword" on a path that neither found the first word '
                         'missing/non-literal nor consulted the keyword table (%s; the longest keyword has %d characters): a simple command whose '
                         'name is that keyword after a redirection is then printed words-first and no longer parses back'
                         % (', '.join(why) or 'unrecognised guard', maxlen), loc=b.loc(s))


@RS.rule('C06.R1f', 'K-SIBLING', r"the \c escape: the lexer demands a doubled backslash for control-backslash, so the printer must emit it doubled")
def r1f(cx):
    F = cx.F
    pfn = [k for k in F.hir if Q.re.search(r'lex::escape::.*::escape_unit$', k)]
    cx.require(len(pfn) == 1, 'Lexer::escape_unit not found: %s' % pfn)
    ph = F.hir[pfn[0]]
    special = [x for x in H.walk(ph['body']) if x.get('k') == 'path' and (x.get('def') or '').endswith('SyntaxError::IncompleteControlBackslashEscape')]
    cx.fn(pfn[0])
    dfn = impl_fn(F, 'yash_syntax::syntax::EscapeUnit', 'core::fmt::Display', 'fmt')
    cx.require(dfn is not None, 'Display for EscapeUnit not found')
    cx.fn(dfn)
    dh = F.hir_of(dfn)
    ms = [m for m in H.matches_in(dh['body']) if 'EscapeUnit' in (m.get('sty') or '')]
    cx.require(len(ms) == 1, 'match over EscapeUnit not found in its Display impl')
    CTRL = 'yash_syntax::syntax::EscapeUnit::Control'
    cx.site('escape_unit: control-backslash special case present: %s' % bool(special))
    if not special:
        return
    i, arm = H.first_matching_arm(ms[0], ('variant', CTRL, [('lit', 0x1C)]))
    j, arm2 = H.first_matching_arm(ms[0], ('variant', CTRL, [('lit', 0x01)]))
    cx.site('Display for EscapeUnit: Control(0x1C) -> arm %s, Control(0x01) -> arm %s' % (i, j))
    loc = '%s:%s' % (dh['file'], dh['line'])
    if i is None or j is None:
        from facts import AnchorMissing
        raise AnchorMissing('Display for EscapeUnit: Control arms not decidable (%s / %s)' % (arm, arm2))
    lits = [x.get('v') for x in H.walk(arm['body']) if x.get('k') == 'lit' and x.get('t') in ('str', 'bytes')]
    doubled = any(isinstance(v, str) and '\\c\\\\' in v for v in lits)
    if i == j or not doubled:
        cx.violation(dfn, 'control-backslash-not-doubled', "the lexer reads control-backslash only as `\\c\\\\` (a single backslash after \\c is "
                     "IncompleteControlBackslashEscape) but Display prints EscapeUnit::Control(0x1C) through the general `\\c<char>` arm: "
                     "the printed form of $'\\c\\\\' does not parse back", loc=loc)


# ---------------------------------------------------------------- R2b: raw source text is printed verbatim
WRITER_CALLS = re.compile(r'^(core::fmt::Formatter::<\'a>::(write_fmt|write_str|write_char|pad)|core::fmt::Write::(write_fmt|write_str|write_char)|'
                          r'core::fmt::Arguments::<\'a>::(new|new_const|new_v1|new_v1_formatted|from_str)|'
                          r'core::fmt::rt::Argument::<\'_>::new_display|<str as core::fmt::Display>::fmt|core::fmt::Display::fmt|'
                          r'<alloc::rc::Rc<T, A> as core::fmt::Display>::fmt|<alloc::rc::Rc<T, A> as core::ops::deref::Deref>::deref|'
                          r'<alloc::rc::Rc<T, A> as core::convert::AsRef<T>>::as_ref|core::ops::deref::Deref::deref)$')


@RS.rule('C06.R2b', 'K-EFFECT', 'a command substitution keeps its content as raw source text: the printer writes that text verbatim between '
         '`$(` and `)` (anything derived from it parses back to a different tree)')
def r2b(cx):
    F = cx.F
    fn = [k for k in F.hir if k.endswith('<impl core::fmt::Display for yash_syntax::syntax::TextUnit>::fmt')]
    cx.require(len(fn) == 1, 'Display for TextUnit not found')
    h = F.hir_of(fn[0])
    cx.fn(fn[0])
    arms = []
    for m in H.matches_in(h['body']):
        for arm in m['arms']:
            if H.pat_matches_value(arm['pat'], ('variant', 'yash_syntax::syntax::TextUnit::CommandSubst', None)) and \
                    H.pat_variants(arm['pat']) is not None:
                arms.append(arm)
    cx.require(len(arms) == 1, 'the CommandSubst arm of Display for TextUnit was not found')
    arm = arms[0]
    a = F.adts['yash_syntax::syntax::TextUnit']
    raw = [f['name'] for v in a['variants'] if v['name'].endswith('CommandSubst') for f in v['fields'] if 'str' in f['ty'] or 'String' in f['ty']]
    cx.require(raw == ['content'], 'TextUnit::CommandSubst no longer has exactly one raw-text field `content` (found %s)' % raw)
    binds = {}
    for n in H.walk(arm['pat']):
        if n.get('k') == 'pstruct':
            for fname, fpat in n.get('fields') or []:
                if fname == 'content':
                    for b in H.walk(fpat):
                        if b.get('k') == 'bind':
                            binds[b['name']] = 'content'
    cx.require(binds, 'the CommandSubst arm does not bind the `content` field')
    bad = []
    for n in H.walk(arm['body']):
        if n.get('k') in ('call', 'mcall'):
            nm = n.get('def') or n.get('decl') or ''
            if not WRITER_CALLS.match(nm) and not n.get('ctor'):
                bad.append(nm)
        if n.get('k') in ('if', 'match') and not n.get('exp') and n.get('src') in (None, 'Normal'):
            bad.append('conditional')
    lits = [x.get('v') for x in H.walk(arm['body']) if x.get('k') == 'lit' and x.get('t') in ('str', 'bytes', 'char')]
    uses = [x for x in H.walk(arm['body']) if x.get('k') == 'local' and x.get('name') in binds]
    cx.site('%s: CommandSubst arm writes literals %s and the field `content` (%d use(s)); other calls: %s'
            % (fn[0].split('impl_display::')[-1], lits, len(uses), sorted(set(bad)) or 'none'))
    if bad or not uses:
        cx.violation(fn[0], 'raw-content-not-verbatim', 'the printer does not write the raw text of a command substitution as it is (%s): the '
                     'parser stores the exact source between `$(` and `)`, so any re-rendering prints a tree that parses back differently '
                     '(and `$(` + `(subshell)` even becomes an arithmetic expansion `$((`)' % (', '.join(sorted(set(bad))) or 'content unused'),
                     loc='%s:%s' % (h['file'], arm['body'].get('line') or h['line']))


# ---------------------------------------------------------------- R5: every keyword counts
# A small path-sensitive evaluation of the MIR of first_word_is_keyword under the hypothesis "the keyword table recognised the
# word" (the lookup returned Ok(k), k unknown). Abstract values: True / False, ('Ok', payload), ('Some', payload), ('None',),
# ('ref', v), ('discr', variant name), ('closure', def), ('?', why) = not determined by the hypothesis.
_R5_STD = r'core::(?:result::Result::<T, E>|option::Option::<T>)::'
_R5_KEEP = re.compile(_R5_STD + r'(as_ref|as_mut|as_deref|as_deref_mut|copied|cloned|map_err|inspect|inspect_err|or|or_else|ok|iter)$')
_R5_PAYLOAD = re.compile(_R5_STD + r'(unwrap|expect|unwrap_or|unwrap_or_else|unwrap_or_default|unwrap_unchecked)$')


def _r5_unknown(v):
    return v is None or (isinstance(v, tuple) and v and v[0] == '?')


def _r5_closure_const(F, v):
    """The constant bool a closure returns on all its paths, or None."""
    if not (isinstance(v, tuple) and v[0] == 'closure'):
        return None
    cb = F.bodies.get(v[1])
    if cb is None:
        return None
    vals = set()
    for b, j, s in cb.stmts():
        if s['k'] == 'assign' and s['lhs']['l'] == 0:
            rv = s['rv']
            c = str(rv['o'].get('c')) if rv['k'] == 'use' and 'c' in rv['o'] and not s['lhs'].get('p') else None
            vals.add(c)
    for b, t in cb.calls():
        if t['dest']['l'] == 0:
            vals.add(None)
    if vals == {'true'}:
        return True
    if vals == {'false'}:
        return False
    return None


def _r5_paths(cx, F, body, is_lookup, limit=50000):
    """Enumerate the paths of `body` from its entry; the destination of a lookup call is assumed to be Ok(unknown keyword).
    Returns [(value of the return place, path, state)] for the paths that passed a lookup and return."""
    def place_val(st, p):
        v = st.get(p['l'])
        for e in p.get('p') or []:
            if e == '*':
                v = v[1] if isinstance(v, tuple) and v and v[0] == 'ref' else None
            elif isinstance(e, dict) and 'v' in e:
                v = v if isinstance(v, tuple) and v and v[0] == e['v'] else None
            elif isinstance(e, dict) and 'f' in e:
                v = v[1] if isinstance(v, tuple) and len(v) == 2 and v[0] in ('Ok', 'Some') and e['f'] in (0, '0') else None
            else:
                v = None
        return v

    def operand_val(st, o):
        if 'cp' in o or 'mv' in o:
            return place_val(st, o.get('cp') or o.get('mv'))
        c = str(o.get('c'))
        if o.get('ty') == 'bool' and c in ('true', 'false'):
            return c == 'true'
        return None

    def rvalue_val(st, rv, where):
        k = rv['k']
        if k == 'use':
            return operand_val(st, rv['o'])
        if k == 'ref':
            return ('ref', place_val(st, rv['pl']))
        if k == 'unop' and rv.get('op') == 'Not':
            v = operand_val(st, rv['o'])
            return (not v) if isinstance(v, bool) else ('?', 'a negated condition at %s' % where)
        if k == 'binop' and rv.get('op') in ('Eq', 'Ne', 'BitAnd', 'BitOr', 'BitXor'):
            a, b = operand_val(st, rv['a']), operand_val(st, rv['b'])
            if isinstance(a, bool) and isinstance(b, bool):
                return {'Eq': a == b, 'Ne': a != b, 'BitAnd': a and b, 'BitOr': a or b, 'BitXor': a != b}[rv['op']]
            return ('?', 'a comparison at %s' % where)
        if k == 'discr':
            v = place_val(st, rv['pl'])
            if isinstance(v, tuple) and v and v[0] in ('Ok', 'Some', 'None'):
                return ('discr', v[0])
            return None
        if k == 'agg' and rv.get('ak') == 'closure':
            return ('closure', rv.get('def'))
        if k == 'cast':
            return operand_val(st, rv['o'])
        return None

    def call_val(st, t, where):
        name = t['f'].get('def') or t['f'].get('decl') or '?'
        if is_lookup(t):
            return ('Ok', None) if (t.get('dty') or '').startswith('core::result::Result<') else ('?', 'the result of the lookup at %s' % where)
        args = [operand_val(st, a) for a in t['a']]
        a0 = args[0] if args else None
        if isinstance(a0, tuple) and a0 and a0[0] == 'ref':
            a0 = a0[1]
        known = isinstance(a0, tuple) and a0 and a0[0] in ('Ok', 'Some', 'None')
        m = re.search(_R5_STD + r'(\w+)$', name)
        if known and m:
            meth, var = m.group(1), a0[0]
            if meth in ('is_ok', 'is_some'):
                return var != 'None'
            if meth in ('is_err', 'is_none'):
                return var == 'None'
            if meth == 'err':
                return ('None',)
            if _R5_KEEP.search(name):
                return ('Some', a0[1]) if (meth in ('ok',) and var == 'Ok') else a0
            if var == 'None':
                return ('?', 'the result of %s at %s' % (H.short(name), where))
            if meth in ('is_ok_and', 'is_some_and', 'is_none_or') and len(args) > 1:
                c = _r5_closure_const(F, args[1])
                return c if c is not None else ('?', 'the predicate given to %s at %s' % (meth, where))
            if meth == 'is_err_and':
                return False
            if meth in ('map_or', 'map_or_else') and len(args) > 2:
                c = _r5_closure_const(F, args[2])
                return c if c is not None else ('?', 'the closure given to %s at %s' % (meth, where))
            if meth in ('map', 'and_then', 'filter') and len(args) > 1:
                c = _r5_closure_const(F, args[1])
                if meth == 'map':
                    return (var, c)
                return ('?', 'the closure given to %s at %s' % (meth, where))
            if _R5_PAYLOAD.search(name):
                return a0[1] if not _r5_unknown(a0[1]) else ('?', 'the keyword found (unwrapped at %s)' % where)
        return ('?', 'the result of %s at %s' % (H.short(name), where))

    out = []
    seen = set()
    stack = [(0, {}, (0,))]
    steps = 0
    while stack:
        b, st, path = stack.pop()
        steps += 1
        cx.require(steps < limit, 'path enumeration of %s does not terminate' % body.fn)
        key = (b, tuple(sorted((k, repr(v)) for k, v in st.items())))
        if key in seen:
            continue
        seen.add(key)
        st = dict(st)
        blk = body.blocks[b]
        for s in blk['s']:
            if s['k'] == 'assign':
                v = rvalue_val(st, s['rv'], body.loc(s))
                if not s['lhs'].get('p'):
                    st[s['lhs']['l']] = v
                elif s['lhs']['p'][0] != '*':
                    st[s['lhs']['l']] = None
            elif s['k'] == 'setdiscr':
                st[s['lhs']['l']] = None
        t = blk['t']
        k = t['k']
        if k == 'return':
            if st.get(-1):
                out.append((st.get(0), path, st))
            continue
        if k == 'call':
            v = call_val(st, t, body.loc(t))
            if is_lookup(t):
                st[-1] = True
            if not t['dest'].get('p'):
                st[t['dest']['l']] = v
            else:
                st[t['dest']['l']] = None
            if t.get('to') is not None:
                stack.append((t['to'], st, path + (t['to'],)))
            continue
        if k == 'switch':
            v = operand_val(st, t['d'])
            tgt = None
            if isinstance(v, bool):
                hit = [x[1] for x in t['ts'] if x[0] == int(v)]
                tgt = hit[0] if hit else t['else']
            elif isinstance(v, tuple) and v and v[0] == 'discr':
                idx = {'None': 0, 'Some': 1, 'Ok': 0, 'Err': 1}[v[1]]
                hit = [x[1] for x in t['ts'] if x[0] == idx]
                tgt = hit[0] if hit else t['else']
            for s2 in ([tgt] if tgt is not None else body.succ(b)):
                stack.append((s2, st, path + (s2,)))
            continue
        for s2 in body.succ(b):
            stack.append((s2, st, path + (s2,)))
    return out


@RS.rule('C06.R5', 'K-GUARD', 'first_word_is_keyword answers `true` for EVERY word the keyword table recognises: once Keyword::from_str has '
         'succeeded, no further condition (on which keyword it is, or on anything else) stands between the lookup and `true`')
def r5(cx):
    F = cx.F
    fns = [k for k in F.bodies if k.endswith('SimpleCommand::first_word_is_keyword')]
    cx.require(len(fns) == 1, 'first_word_is_keyword not found')
    _r5_decide(cx, F, fns)


def _r5_decide(cx, F, fns):
    # helpers of the module and closures given to Option/Result predicates in place (a lookup inside `first().is_some_and(|w| ..)`
    # or inside a private `word_is_keyword(word)` is the same lookup)
    body = _in_place(F, fns[0])
    cx.fn(body.fn)
    for f_ in getattr(body, 'inlined_from', []):
        cx.fn(f_)

    def is_lookup(t):
        # a call that turns text into a Keyword: its result type is Result<Keyword, _> / Option<Keyword> and it is not an adaptor of
        # Result / Option itself (str::parse::<Keyword>, <Keyword as FromStr>::from_str, TryFrom<&str>, a lookup helper)
        dty = t.get('dty') or ''
        if not (dty.startswith('core::result::Result<' + KW + ',') or dty == 'core::option::Option<' + KW + '>'):
            return False
        return not re.match(r'^<?core::(result::Result|option::Option)\b', t['f'].get('def') or t['f'].get('decl') or '')
    lookups = [(b, t) for b, t in body.calls() if is_lookup(t)]
    cx.site('first_word_is_keyword: keyword table lookup (str -> Result<Keyword, _>) x%d%s'
            % (len(lookups), (' at ' + body.loc(lookups[0][1])) if lookups else ''))
    if not lookups:
        cx.violation(fns[0], 'no-table-lookup', 'first_word_is_keyword does not look the first word up in the keyword table '
                     '(Keyword::from_str): which words count as reserved is no longer decided by the table the parser uses', loc=body.loc(body.d))
        return
    for b, t in lookups:
        cx.require((t.get('dty') or '').startswith('core::result::Result<'), 'the keyword lookup does not return a Result')
        cx.require(any(re.match(r'^&?(mut )?(str|alloc::string::String)$', x) for x in t.get('at') or []), 'the keyword lookup does not take a string')
    results = _r5_paths(cx, F, body, is_lookup)
    cx.site('first_word_is_keyword: %d path(s) return after a successful lookup; answers: %s'
            % (len(results), sorted({repr(v) if not _r5_unknown(v) else 'undetermined' for v, _, _ in results})))
    if not results:
        cx.violation(fns[0], 'no-answer-after-lookup', 'no path returns after the keyword table has recognised the word', loc=body.loc(lookups[0][1]))
        return
    bad = [(v, p) for v, p, _ in results if v is not True]
    if bad:
        v, p = sorted(bad, key=lambda x: (x[0] is not False, len(x[1])))[0]
        what = 'answers `false`' if v is False else 'lets the answer depend on %s' % (v[1] if isinstance(v, tuple) and v[0] == '?' else 'a value the lookup does not determine')
        cx.violation(fns[0], 'keyword-not-counted', 'after the keyword table has recognised the first word, first_word_is_keyword %s: for the '
                     'reserved words excluded that way (e.g. the clause delimiters then do done fi else elif esac }) a simple command such as '
                     '`2>&1 fi` or `>/dev/null done` is printed words-first (`fi 2>&1`), where the word is read as the reserved word again: '
                     'the printed text is a syntax error or a different command' % what,
                     loc=body.loc(body.term(p[-1])) if v is False else body.loc(lookups[0][1]), path=Q.render_path(body, list(p)))


# ---------------------------------------------------------------------------------------
# added after the audit C06h2 #1 (fix: the backquote lexer took `\\<newline>` for a line continuation)
@RS.rule('C06.R6', 'K-SIBLING', 'a backslash quotes the NEXT character of the source text, also when that character is a backslash followed by a '
         'newline: every lexer routine that has just consumed an unquoted backslash reads the character it escapes with line '
         'continuation disabled (text units, backquote units)')
def r6(cx):
    F = cx.F
    n = 0
    READERS = ('consume_char_if', 'consume_char_if_dyn', 'peek_char', 'consume_char', 'skip_if')
    for fn, h in F.hir.items():
        if not fn.startswith('yash_syntax::parser::lex::') or '::tests' in fn or fn.startswith('yash_syntax::parser::lex::core::') \
                or fn.startswith('yash_syntax::parser::lex::escape::'):
            continue                       # core: the primitive itself; escape: inside $'..' a backslash-newline is no continuation at all
        for node in H.walk(h['body']):
            if node.get('k') != 'if':
                continue
            cond = [x for x in H.walk(node['c']) if x.get('k') == 'mcall' and x.get('name') == 'skip_if']
            if not cond:
                continue
            clos = [x for x in H.walk(cond[0]) if x.get('k') == 'closure']
            is_bs = any(y.get('k') == 'binary' and y.get('op') == '==' and any(H.lit_value(z) == '\\' for z in (y.get('a'), y.get('b')) if isinstance(z, dict))
                        for c in clos for y in H.walk(c))
            if not is_bs:
                continue
            n += 1
            cx.fn(fn)
            reads = [x for x in H.walk(node['t']) if x.get('k') == 'mcall' and x.get('name') in READERS]
            first = reads[0] if reads else None
            helper_ok = [x for x in H.walk(node['t']) if x.get('k') in ('mcall', 'call') and _reads_raw(F, x)]
            ok = False
            if first is not None:
                ok = any(y.get('k') == 'mcall' and y.get('name') == 'disable_line_continuation' for y in H.walk(first.get('recv') or {}))
            if helper_ok and (first is None or helper_ok[0].get('line', 0) <= first.get('line', 0)):
                ok = True
            cx.site('%s: after a consumed backslash the escaped character is read with line continuation disabled: %s' % (fn.split('::')[-1], ok))
            if not ok:
                cx.violation(fn, 'escaped-char-read-with-line-continuation', 'after consuming a backslash the next character is read while line '
                             'continuation is still recognised: in `\\\\<newline>` the second backslash and the newline vanish as a line continuation '
                             'instead of the second backslash being quoted by the first - `echo `echo a\\\\<newline><newline>echo b`` prints '
                             '`aecho b` (dash, bash: `a b`), and the printed command re-parses to a different tree',
                             loc='%s:%s' % (h['file'], node.get('line') or h['line']))
    cx.floor(n, 2, 'lexer routines that consume an unquoted backslash (text unit, backquote unit)')


def _reads_raw(F, call):
    """The callee is a lexer helper that reads through disable_line_continuation()."""
    d = call.get('def') or ''
    h = F.hir.get(d)
    if h is None or not d.startswith('yash_syntax::parser::lex::'):
        return False
    return any(x.get('k') == 'mcall' and x.get('name') == 'disable_line_continuation' for x in H.walk(h['body']))


# ---------------------------------------------------------------------------------------
# added after the audit C06h2 (fixes 9cfe2aa, a17af0e, edeb143, 8386d53)
@RS.rule('C06.R7', 'K-SIBLING', 'parsing from a string is total and exact: every FromStr implementation of a syntax-tree type that drives a Parser '
         'rejects what is left of the string (RedundantToken) instead of silently returning the prefix it could parse - a checker that '
         're-parses printed text must not see a truncated tree')
def r7(cx):
    F = cx.F
    roots = sorted({b.root for b in F.bodies.values() if b.root.startswith('yash_syntax::parser::from_str::<impl core::str::traits::FromStr for ')
                    and b.root.endswith('::from_str')})
    cx.floor(len(roots), 15, 'FromStr implementations in yash_syntax::parser::from_str')
    n = 0
    for root in roots:
        bodies = F.logical(root)
        uses_parser = any(Q.find_calls(b, [re.compile(r'parser::core::Parser(::<.*>)?::new$')]) for b in bodies)
        if not uses_parser:
            continue
        n += 1
        cx.fn(root)
        rejects = any(Q.find_calls(b, [re.compile(r'from_str::reject_redundant_token$')]) for b in bodies) or \
            any(Q.find_aggregates(b, re.compile(r'SyntaxError$'), 'RedundantToken') for b in bodies)
        what = root.split(' for ')[1].split('>::')[0].split('::')[-1]
        cx.site('%s::from_str drives a Parser and rejects a redundant token: %s' % (what, rejects))
        if not rejects:
            cx.violation(root, 'trailing-text-ignored', '%s::from_str returns what it could parse and ignores the rest of the string: '
                         '"echo a ) garbage" parses as `echo a` and "}" as an empty list, where every sibling implementation answers '
                         'RedundantToken - printed text that starts or continues with a clause delimiter re-parses to a silently truncated tree' % what)
    cx.floor(n, 8, 'FromStr implementations that drive a Parser')


def _cond_mentions(F, cond, pred, depth=1):
    """Does the condition (or a workspace helper it calls, one level) contain a node satisfying pred?"""
    for y in H.walk(cond):
        if pred(y):
            return True
        if depth and y.get('k') in ('call', 'mcall'):
            d = y.get('def') or ''
            if d.startswith('yash_syntax::') and d in F.hir and _cond_mentions(F, F.hir[d]['body'], pred, depth - 1):
                return True
    return False


def _pat_nodes(n):
    """All pattern nodes below a HIR node (patterns of letexpr / match arms / let)."""
    out = []

    def rec_pat(p):
        if isinstance(p, dict):
            out.append(p)
            for v in p.values():
                rec_pat(v)
        elif isinstance(p, list):
            for x in p:
                rec_pat(x)
    for y in H.walk(n):
        if y.get('k') == 'letexpr':
            rec_pat(y.get('pat'))
        if y.get('k') == 'match':
            for a in y.get('arms') or []:
                rec_pat(a.get('pat'))
    return out


@RS.rule('C06.R3c', 'K-GUARD', 'two more print disambiguations: a function name that ends with an unquoted `$` keeps a blank before `()` (`a$()` '
         'is a command substitution), and a subshell whose body starts with a subshell keeps a blank between the two `(` (`((` is an '
         'arithmetic command for the portable-mode parser and other shells)')
def r3c(cx):
    F = cx.F
    # --- function definition
    dfn = impl_fn(F, SYN + 'FunctionDefinition', DISPLAY, 'fmt')
    cx.fn(dfn)
    h = F.hir_of(dfn)
    ifs = [y for y in H.walk(h['body']) if y.get('k') == 'if']

    def dollar_test(c):
        return any(p.get('k') == 'pexpr' and isinstance(p.get('e'), dict) and p['e'].get('v') == '$' for p in _pat_nodes({'k': 'block', 'stmts': [], 'e': c})) or \
            any(y.get('k') == 'lit' and y.get('v') == '$' for y in H.walk(c))
    guard = [i for i in ifs if _cond_mentions(F, i['c'], lambda y: (y.get('k') == 'lit' and y.get('v') == '$') or
                                              (y.get('k') == 'letexpr' and dollar_test(y)))
             and any(emitted(y) == ' ' for y in H.walk(i['t']))]
    cx.site('Display for FunctionDefinition: blank before `()` when the name ends with `$`: %s' % bool(guard))
    if not guard:
        cx.violation(dfn, 'no-blank-after-dollar-name', 'a function whose name ends with an unquoted `$` (`a$ () { :; }`) is printed as '
                     '`a$() { :; }`: `$()` is an empty command substitution, so the printed text (e.g. the job name, `typeset -fp`) does '
                     'not define the function when it is read back', loc=loc_of(h))
    # --- subshell
    cfn = impl_fn(F, SYN + 'CompoundCommand', DISPLAY, 'fmt')
    cx.fn(cfn)
    table, m = H.fn_match_table(F, cfn, SYN + 'CompoundCommand')
    cx.require('Subshell' in table, 'Display for CompoundCommand has no Subshell arm')
    arm = table['Subshell'][1]
    hc = F.hir_of(cfn)
    sub_ifs = [y for y in H.walk(arm) if y.get('k') == 'if']

    def subshell_test(y):
        if y.get('k') in ('path',) and str(y.get('def') or '').endswith('CompoundCommand::Subshell'):
            return True
        return any(str((p.get('p') or {}).get('def') or p.get('def') or '').endswith('CompoundCommand::Subshell') for p in _pat_nodes({'k': 'block', 'stmts': [], 'e': y}))
    guard2 = [i for i in sub_ifs if any(emitted(y) == ' ' for y in H.walk(i['t']))
              and (_cond_mentions(F, i['c'], subshell_test) or
                   any(_cond_mentions(F, F.hir[c.get('def')]['body'], subshell_test, 0) for c in H.walk(i['c'])
                       if c.get('k') in ('call', 'mcall') and (c.get('def') or '') in F.hir))]
    cx.site('Display for CompoundCommand::Subshell: blank between `(` and a body that starts with a subshell: %s' % bool(guard2))
    if not guard2:
        cx.violation(cfn, 'nested-subshell-double-paren', 'a subshell whose first command is a subshell, `( (a); b)`, is printed `((a); b)`: the '
                     'parser in portable mode rejects `((` (arithmetic command), so the printed tree does not parse back', loc=loc_of(hc))


# ---------------------------------------------------------------------------------------
# added for seed C06-s7 (the opening quote of $'..' was looked for with line continuation disabled)
# A line continuation is removed before the text is tokenised, so `$\<newline>{x}`, `$\<newline>(c)`, `$\<newline>x` and
# `$\<newline>'s'` are the same forms as without it. Every recogniser of a form that begins with `$` therefore decides on the
# character that follows the `$` with line continuation ENABLED; one that looks at it raw sees the backslash, declines, and the
# `$` becomes a literal followed by the rest - a tree whose printed text (`$x`, `$'s'`) reads back as the `$` form.
LEX = 'yash_syntax::parser::lex::'
_R9_READ = re.compile(r"^yash_syntax::parser::lex::(?:core::Lexer::<[^>]*>|\w+::<impl yash_syntax::parser::lex::core::Lexer<'_>>)::"
                      r"(peek_char|consume_char_if|consume_char_if_dyn|skip_if|consume_char)$")
_R9_DISABLE = re.compile(r'^yash_syntax::parser::lex::core::Lexer::<[^>]*>::disable_line_continuation$')
_R9_PLAIN = 'yash_syntax::parser::lex::core::PlainLexer<'
_R9_DEREF = ['*::Deref::deref', '*::DerefMut::deref_mut', '*::AsMut::as_mut', '*::BorrowMut::borrow_mut']
_R9_FUTURE = 'impl core::future::future::Future<'


def _r9_prim(t):
    """Name of the character-reading primitive of Lexer a call invokes, or None."""
    for n in Q.callee_names(t):
        m = _R9_READ.match(n)
        if m:
            return m.group(1)
    return None


def _r9_sublexer(F, t):
    """Definition path of the asynchronous lexer routine a call invokes on the lexer it was given, or None."""
    d = t['f'].get('def') or ''
    if not d.startswith(LEX) or _r9_prim(t) or not (t.get('dty') or '').startswith(_R9_FUTURE) or not t['a']:
        return None
    at0 = (t.get('at') or [''])[0]
    if not re.search(r'lex::core::(Lexer|WordLexer|PlainLexer)<', at0):
        return None
    return d if d in F.bodies else None


def _r9_mode(body, du, operand, depth=24):
    """How the lexer reference `operand` reads: 'raw' when it is (a view of) the PlainLexer that disable_line_continuation()
    returned, 'inherit' when it is the lexer the function itself was given, 'unknown' otherwise."""
    p = Q.operand_place(operand)
    while p is not None and depth > 0:
        depth -= 1
        l = p['l']
        if _R9_PLAIN in (body.locals[l].get('ty') or ''):
            return 'raw'
        defs = du.defs.get(l, [])
        if not defs:
            return 'inherit'                      # a parameter (the coroutine's captured `self`)
        if len(defs) != 1:
            return 'unknown'
        blk, idx, node = defs[0]
        if idx == 't':
            if Q.callee_is(node, [_R9_DISABLE]):
                return 'raw'
            if Q.callee_is(node, _R9_DEREF) and node['a']:
                p = Q.operand_place(node['a'][0])
                continue
            return 'unknown'
        if node['k'] != 'assign':
            return 'unknown'
        rv = node['rv']
        if rv['k'] == 'use':
            p = Q.operand_place(rv['o'])
        elif rv['k'] == 'ref':
            p = rv['pl']
        else:
            return 'unknown'
    return 'unknown'


def _r9_unconsumed(F, body, du, b, pend):
    """The switch ending block `b` tests the outcome of the pending read (call in block `pend`): the targets on which nothing
    was consumed (consume_char_if -> None, skip_if -> false). None when the switch tests something else (or a wrapper of the
    outcome: Poll, ControlFlow, Result), [] when only consuming edges leave it."""
    ec = Q.edge_condition(F, body, du, b)
    if ec is None:
        return None
    org, labels = ec
    pt = body.term(pend)
    out = []
    decided = False
    for v, labs in labels.items():
        keep = bool(labs)
        for lab in labs:
            o, lb = Q.peel_not(du, org, lab)
            if o['k'] == 'discr':
                place, ty = o['pl'], (o.get('ty') or '').lstrip('&')
            elif o['k'] == 'place' and lb[0] == 'bool':
                place, ty = o['pl'], 'bool'
            elif o['k'] == 'call' and lb[0] == 'bool':
                place, ty = None, 'bool'
            else:
                return None
            src = o['t'] if place is None else Q.value_source(body, du, {'cp': place})
            if src is not pt:
                return None
            if ty.startswith('core::option::Option<'):
                decided = True
                keep = keep and lb == ('variant', 'None')
            elif ty == 'bool':
                decided = True
                keep = keep and lb == ('bool', False)
            else:
                return None                      # Poll / ControlFlow / Result around the outcome: not the outcome itself
        if keep:
            out.append(v)
    return out if decided else None


def _r9_reads(F, fn, inherited, depth=4, trail=()):
    """The reads of the character at which `fn` is entered: every call of a reading primitive reachable from the entry of its
    body while nothing has been consumed (peek_char consumes nothing; consume_char_if / skip_if consume nothing on their
    None / false outcome; after any other outcome, after consume_char and after another lexer routine the position is unknown
    and the walk stops). Lexer routines called at that position are entered. -> [(body, block, call, mode, trail)]"""
    body = F.main_body(fn)
    du = Q.DefUse(body)
    out, seen, work = [], set(), [(0, None)]
    while work:
        b, pend = work.pop()
        if (b, pend) in seen:
            continue
        seen.add((b, pend))
        t = body.term(b)
        if t['k'] == 'call':
            prim = _r9_prim(t)
            sub = None if prim else _r9_sublexer(F, t)
            if prim == 'consume_char' or ((prim or sub) and pend is not None):
                continue
            if prim or sub:
                mode = _r9_mode(body, du, t['a'][0])
                mode = inherited if mode == 'inherit' else mode
                if prim:
                    out.append((body, b, t, mode, trail))
                    if t.get('to') is not None:
                        work.append((t['to'], None if prim == 'peek_char' else b))
                elif depth > 0 and sub not in trail and sub != fn:
                    out.extend(_r9_reads(F, sub, mode, depth - 1, trail + (fn,)))
                else:
                    out.append((body, b, t, 'unknown', trail))
                continue
            if t.get('to') is not None:
                work.append((t['to'], pend))
            continue
        if t['k'] == 'switch' and pend is not None:
            tg = _r9_unconsumed(F, body, du, b, pend)
            if tg is not None:
                work.extend((v, None) for v in tg)
                continue
        work.extend((v, pend) for v in body.succ(b))
    return out


def _r9_accepts_exactly(F, body, du, operand, ch):
    """The predicate handed to a reading primitive is a closure that accepts exactly the character `ch`."""
    org = du.origin(operand)
    if not (org['k'] == 'agg' and org['rv'].get('ak') == 'closure'):
        return False
    cb = F.bodies.get(org['rv'].get('def'))
    if cb is None:
        return False
    lit = "'%s'" % ch
    for _, _, s in cb.stmts():
        rv = s.get('rv') or {}
        if s['k'] == 'assign' and rv.get('k') == 'binop' and rv.get('op') == 'Eq' and \
                any(isinstance(o, dict) and o.get('c') == lit and o.get('ty') == 'char' for o in (rv.get('a'), rv.get('b'))):
            return True
    for i in cb.live_blocks():
        t = cb.term(i)
        if t['k'] == 'switch' and t.get('dty') == 'char' and [x[0] for x in t['ts']] == [ord(ch)]:
            return True
    return False


@RS.rule('C06.R9', 'K-SIBLING', 'a line continuation between `$` and what follows is no separator: every recogniser of a form that begins with `$` '
         '(`$name`, `${`, `$((`, `$(`, `$\'`) reads the character after the `$` with line continuation enabled')
def r9(cx):
    F = cx.F
    # what "enabled" means: the primitives hand the lexer they were given down to peek_char, which consults the flag
    chain = {'skip_if': 'consume_char_if', 'consume_char_if': 'consume_char_if_dyn', 'consume_char_if_dyn': 'peek_char'}
    prim_fn = {}
    for fn in F.bodies:
        m = _R9_READ.match(fn)
        if m:
            prim_fn[m.group(1)] = fn
    for p, q in chain.items():
        cx.require(p in prim_fn and q in prim_fn, 'Lexer::%s / Lexer::%s not found' % (p, q))
        rs = _r9_reads(F, prim_fn[p], 'enabled', depth=0)
        cx.require(rs and all(_r9_prim(t) == q and mode == 'enabled' for _, _, t, mode, _ in rs),
                   'Lexer::%s no longer reads through Lexer::%s on the lexer it was given' % (p, q))
    pk = F.main_body(prim_fn['peek_char'])
    lc = [t for _, t in pk.calls() if (t['f'].get('def') or '').endswith('::line_continuation')]
    cx.require(lc and all(_r9_mode(pk, Q.DefUse(pk), t['a'][0]) == 'inherit' for t in lc), 'Lexer::peek_char does not skip line continuations')
    lb = F.main_body(lc[0]['f']['def'])
    cx.require(any(isinstance(e, dict) and e.get('f') == 'line_continuation_enabled' for _, _, s in lb.stmts() if s['k'] == 'assign'
                   for pl in Q.rvalue_places(s['rv']) for e in pl.get('p') or []),
               'Lexer::line_continuation does not consult line_continuation_enabled')
    # the siblings: (1) what the routine that consumes the `$` tries next, (2) what produces a WordUnit::DollarSingleQuote
    siblings = {}          # fn -> (dispatcher, mode the dispatcher hands over)
    for d in list(F.bodies_in([LEX], exclude=[LEX + 'core::'])):
        du = None
        for rb, t in d.calls():
            if _r9_prim(t) in ('skip_if', 'consume_char_if', 'consume_char_if_dyn') and len(t['a']) > 1:
                du = du or Q.DefUse(d)
                if not _r9_accepts_exactly(F, d, du, t['a'][1], '$'):
                    continue
                for cb_, ct in d.calls():
                    sub = _r9_sublexer(F, ct)
                    if sub and cb_ != rb and d.dominates(rb, cb_):
                        siblings.setdefault(sub, (d, _r9_mode(d, du, ct['a'][0])))
        for i, j, s in Q.find_aggregates(d, SYN + 'WordUnit', 'DollarSingleQuote'):
            du = du or Q.DefUse(d)
            ops = s['rv'].get('ops') or []
            src = Q.value_source(d, du, ops[0]) if ops else None
            sub = _r9_sublexer(F, src) if src is not None else None
            cx.require(sub is not None, '%s: the content of a DollarSingleQuote unit does not come from a lexer routine' % d.fn)
            siblings.setdefault(sub, (d, _r9_mode(d, du, src['a'][0])))
    cx.floor(len(siblings), 5, 'recognisers of forms that begin with `$` (raw parameter, braced parameter, arithmetic expansion, '
                               'command substitution, dollar-single-quote)')
    nreads = 0
    for sub in sorted(siblings):
        d, handed = siblings[sub]
        cx.fn(sub)
        cx.fn(d.root)
        short = sub.split('::')[-1]
        cx.require(handed != 'unknown', '%s: the lexer handed to %s is not traceable' % (d.fn, short))
        reads = _r9_reads(F, sub, 'raw' if handed == 'raw' else 'enabled')
        cx.require(reads, '%s: no read of the character after `$` found' % sub)
        for body, b, t, mode, trail in reads:
            nreads += 1
            what = _r9_prim(t) or (t['f'].get('def') or '?').split('::')[-1]
            inner = body.root.split('::')[-1]
            cx.site('%s: the character after `$` is read by %s%s with line continuation %s'
                    % (short, what, '' if body.root == sub else ' in ' + inner, {'raw': 'DISABLED'}.get(mode, mode)))
            cx.require(mode != 'unknown', '%s: the lexer a read of the character after `$` is made on is not traceable (%s)' % (sub, body.loc(t)))
            if mode == 'raw':
                cx.violation(sub, 'char-after-dollar-read-raw' + ('' if body.root == sub else ':' + inner),
                             '%s looks at the character after the `$` with line continuation disabled: in `$\\<newline>` + the rest of the form '
                             'it sees the backslash and declines, so the `$` becomes a literal followed by the rest of the text as ordinary '
                             'units; that tree is printed without the line continuation (`$x`, `${x}`, `$(c)`, `$\'s\'`) and the printed text '
                             'reads back as the `$` form - every sibling recogniser reads this character with line continuation enabled'
                             % short, loc=body.loc(t))
    cx.floor(nreads, 7, 'reads of the character after `$`')


# ---------------------------------------------------------------------------------------
# added for seed C06-s8 (token_id looked the token's SOURCE text up in the keyword table)
# Which words are reserved is decided - by the lexer when it classifies a token and by the printer when it decides whether a
# simple command must be printed redirections-first - on ONE representation: the literal the word's units spell
# (MaybeLiteral::to_string_if_literal of the Word: Some only when every unit is an unquoted literal character). The source text
# is a different string for the same units (line continuations are only marked in the buffer, not removed; alias substitution
# replaces it), so a lookup on it disagrees with the printer and with every re-parse of the printed text.
_R10_MAYBE = re.compile(r'(^|::)MaybeLiteral(>)?::(to_string_if_literal|extend_literal)$')
_R10_VIEW = ['*::Deref::deref', '*::DerefMut::deref_mut', '*::AsRef::as_ref', '*::Borrow::borrow', '*::Clone::clone', '*::ToOwned::to_owned',
             '*::Into::into', '*::From::from',
             re.compile(r'^alloc::string::String::(as_str|as_mut_str|into_boxed_str|into_string)$'),
             re.compile(r'^alloc::str::<impl str>::(to_owned|to_string|into_string)$'),
             re.compile(r'^core::(option::Option::<T>|result::Result::<T, E>)::(as_ref|as_mut|as_deref|as_deref_mut|unwrap|expect|unwrap_or_default|'
                        r'unwrap_unchecked|cloned|copied|ok|ok_or|ok_or_else|take|inspect)$')] + Q.TRY_BRANCH
_R10_WHOLE = (SYN + 'Word', '[' + SYN + 'WordUnit]', 'alloc::vec::Vec<' + SYN + 'WordUnit>', '[T]')


def _r10_is_lookup(t):
    """A call that turns text into a Keyword (str::parse::<Keyword>, <Keyword as FromStr>::from_str, TryFrom<&str>, a lookup
    helper): result Result<Keyword, _> / Option<Keyword>, not an adaptor of Result / Option itself."""
    dty = t.get('dty') or ''
    if not (dty.startswith('core::result::Result<' + KW + ',') or dty == 'core::option::Option<' + KW + '>'):
        return False
    return not re.match(r'^<?core::(result::Result|option::Option)\b', t['f'].get('def') or t['f'].get('decl') or '')


def _r10_mut_ref_target(du, operand, depth=6):
    """The local a `&mut` operand (possibly reborrowed: `&mut *(&mut x)`) points at, or None."""
    org = du.origin(operand)
    while depth > 0 and org['k'] == 'ref' and org.get('mut'):
        depth -= 1
        pl = org['pl']
        if not pl.get('p'):
            return pl['l']
        if pl['p'] != ['*']:
            return None
        org = du.origin({'cp': {'l': pl['l']}})
    return None


def _r10_wrapper(rv):
    """`Some(x)` / `Ok(x)` -> [x]; `None` -> [] (no text at all); anything else -> None."""
    if rv.get('k') != 'agg' or rv.get('ak') != 'adt' or rv.get('adt') not in ('core::option::Option', 'core::result::Result'):
        return None
    ops = rv.get('ops') or []
    if rv.get('variant') in ('Some', 'Ok') and len(ops) == 1:
        return ops
    if rv.get('variant') == 'None' and not ops:
        return []
    return None


_R10_ADAPTERS = re.compile(r'^core::(?:option::Option::<T>|result::Result::<T, E>)::(is_some_and|is_none_or|is_ok_and|map|and_then|map_or|'
                           r'map_or_else|filter|inspect|is_some_and)$')


def _r10_sources(F, body, du, operand, depth=40, hops=2, seen=None):
    """Where the text in `operand` comes from: leaves ('literal', what) | ('other', what, node) | ('unknown', what, node)."""
    seen = set() if seen is None else seen
    p = Q.operand_place(operand)
    if p is None:
        return [('other', 'the constant %s' % operand.get('c'), None)]
    while depth > 0:
        depth -= 1
        for e in p.get('p') or []:
            if isinstance(e, dict) and e.get('adt') == SYN + 'Word' and 'f' in e:
                if e['f'] == 'units':
                    return [('literal', 'the `units` of the word')]
                return [('other', 'the field `%s` of the word' % e['f'], None)]
        l = p['l']
        if (body.fn, l) in seen:
            return []
        seen.add((body.fn, l))
        defs = du.defs.get(l, [])
        if not defs:
            return _r10_from_caller(F, body, p, hops, seen)
        # a buffer filled through an out-parameter: `let mut s = String::new(); word.extend_literal(&mut s)`
        filled = []
        for blk, t in body.calls():
            for a in t['a'][1:]:
                if _r10_mut_ref_target(du, a) == l:
                    filled.append(t)
        if filled:
            out = []
            for t in filled:
                if any(_R10_MAYBE.search(n) for n in Q.callee_names(t)):
                    out.extend(_r10_literal_of(body, t))
                else:
                    out.append(('other', 'text written by %s' % H.short(t['f'].get('def') or t['f'].get('decl') or '?'), t))
            return out
        if len(defs) > 1:
            out = []
            for blk, idx, node in defs:
                if idx == 't':
                    out.extend(_r10_call(F, body, du, node, depth, hops, seen))
                elif node['k'] == 'assign' and node['rv']['k'] in ('use', 'ref') and not node['lhs'].get('p'):
                    src = node['rv']['o'] if node['rv']['k'] == 'use' else {'cp': node['rv']['pl']}
                    out.extend(_r10_sources(F, body, du, src, depth, hops, seen))
                elif node['k'] == 'assign' and _r10_wrapper(node['rv']) is not None and not node['lhs'].get('p'):
                    for o in _r10_wrapper(node['rv']):
                        out.extend(_r10_sources(F, body, du, o, depth, hops, seen))
                else:
                    out.append(('unknown', 'a value assembled in place', node))
            return out
        blk, idx, node = defs[0]
        if idx == 't':
            return _r10_call(F, body, du, node, depth, hops, seen)
        if node['k'] != 'assign':
            return [('unknown', 'a value assembled in place', node)]
        rv = node['rv']
        if rv['k'] == 'use':
            p = Q.operand_place(rv['o'])
            if p is None:
                return [('other', 'the constant %s' % rv['o'].get('c'), node)]
        elif rv['k'] == 'ref':
            p = rv['pl']
        elif rv['k'] == 'cast':
            p = Q.operand_place(rv['o'])
            if p is None:
                return [('unknown', 'a cast', node)]
        elif _r10_wrapper(rv) is not None:
            out = []
            for o in _r10_wrapper(rv):
                out.extend(_r10_sources(F, body, du, o, depth, hops, seen))
            return out
        else:
            return [('unknown', 'a value assembled in place (%s)' % rv['k'], node)]
    return [('unknown', 'a chain too long to follow', None)]


def _r10_literal_of(body, t):
    """A MaybeLiteral call: the literal of the WHOLE word, or of a part of it."""
    self_ty = (t['f'].get('self') or (t.get('at') or [''])[0]).lstrip('&').replace('mut ', '')
    if self_ty in _R10_WHOLE:
        return [('literal', 'MaybeLiteral::%s of the %s' % ((t['f'].get('decl') or '').split('::')[-1], self_ty.split('::')[-1]))]
    return [('other', 'the literal of a %s, not of the whole word' % self_ty.split('::')[-1], t)]


_R10_PRODUCING = re.compile(r'^core::(?:option::Option::<T>|result::Result::<T, E>)::(map|and_then|map_or|map_or_else|or_else|unwrap_or_else)$')
_R10_KEEPING = [re.compile(r'^core::option::Option::<T>::(filter|take_if)$')]


def _r10_callable(F, body, du, operand, hops, seen):
    """What the closure / function handed to an Option / Result adapter answers."""
    org = du.origin(operand)
    cb = None
    if org['k'] == 'agg' and org['rv'].get('ak') == 'closure':
        cb = F.bodies.get(org['rv'].get('def'))
    elif org['k'] == 'const' and org['o'].get('fn'):
        fn = org['o']['fn']
        if _R10_MAYBE.search(fn):
            return [('unknown', 'MaybeLiteral::%s handed on as a function (receiver type not traced)' % fn.split('::')[-1], None)]
        cb = F.bodies.get(fn) if fn.startswith('yash_syntax::') else None
    if cb is None or cb.d.get('coroutine') or (cb.fn, 0) in seen:
        return [('unknown', 'the answer of a function handed to an Option/Result adapter', None)]
    return _r10_sources(F, cb, Q.DefUse(cb), {'cp': {'l': 0}}, 40, hops, seen)


def _r10_call(F, body, du, t, depth, hops, seen):
    if any(_R10_MAYBE.search(n) for n in Q.callee_names(t)):
        return _r10_literal_of(body, t)
    if Q.callee_is(t, _R10_VIEW) and t['a']:
        return _r10_sources(F, body, du, t['a'][0], depth, hops, seen)
    # iterator pipelines over the units (`word.units.iter().map(..).collect::<Option<String>>()`) keep the receiver as their source
    name = t['f'].get('decl') or t['f'].get('def') or ''
    if re.search(r'(^|::)(Iterator|IntoIterator|FromIterator)::\w+$|^core::slice::<impl \[T\]>::iter$|^core::iter::', name) and t['a']:
        return _r10_sources(F, body, du, t['a'][0], depth, hops, seen)
    if Q.callee_is(t, Q.FROM_RESIDUAL):
        return []                                  # `?` handing on an absent value: no text
    m = _R10_PRODUCING.match(t['f'].get('def') or t['f'].get('decl') or '')
    if m and len(t['a']) >= 2:
        # `opt.and_then(|w| w.to_string_if_literal())` / `.map(..)`: the text is what the closure answers (its parameter is traced
        # back to the receiver by _r10_from_caller); `map_or(default, f)` / `.or_else(f)` / `.unwrap_or_else(f)` may also hand on
        # the default / the receiver
        out = []
        if m.group(1) in ('or_else', 'unwrap_or_else'):
            out.extend(_r10_sources(F, body, du, t['a'][0], depth, hops, seen))
        if m.group(1) in ('map_or', 'map_or_else'):
            out.extend(_r10_callable(F, body, du, t['a'][1], hops, seen) if m.group(1) == 'map_or_else'
                       else _r10_sources(F, body, du, t['a'][1], depth, hops, seen))
        out.extend(_r10_callable(F, body, du, t['a'][-1], hops, seen))
        return out
    if Q.callee_is(t, _R10_KEEPING) and t['a']:
        return _r10_sources(F, body, du, t['a'][0], depth, hops, seen)
    d = t['f'].get('def') or ''
    cb = F.bodies.get(d)
    if cb is not None and d.startswith('yash_syntax::') and not F.is_async(d) and hops > 0 and (d, 0) not in seen:
        # a helper of the crate that returns the text: what it returns
        inner = _r10_sources(F, cb, Q.DefUse(cb), {'cp': {'l': 0}}, 40, hops - 1, seen)
        if inner and all(lf[0] == 'literal' for lf in inner):
            return inner
    return [('other', 'the result of %s' % H.short(t['f'].get('def') or t['f'].get('decl') or '?'), t)]


def _r10_from_caller(F, body, p, hops, seen):
    """The text is a parameter of the function (for a coroutine / closure: a captured variable): go to the callers."""
    if hops <= 0:
        return [('unknown', 'a parameter of %s' % body.fn, None)]
    fn, idx = body.fn, p['l']
    if body.fn != body.root:
        # captured variable `_1.k` of the coroutine / closure built in the parent body
        up = [e for e in p.get('p') or [] if isinstance(e, dict) and 'f' in e][:1]
        parent = F.bodies.get(body.fn.rsplit('::', 1)[0])
        if parent is not None and p['l'] == 2 and not body.d.get('coroutine'):
            # the first parameter of a closure handed to `opt.is_some_and(..)` / `.map(..)` / ..: the payload of the receiver
            pdu = Q.DefUse(parent)
            for _, t in parent.calls():
                if any(_R10_ADAPTERS.match(n) for n in Q.callee_names(t)) and \
                        any(o['k'] == 'agg' and o['rv'].get('def') == body.fn for o in (pdu.origin(a) for a in t['a'][1:])):
                    return _r10_sources(F, parent, pdu, t['a'][0], 40, hops, seen)
            return [('unknown', 'a parameter of the closure %s' % body.fn, None)]
        if p['l'] != 1 or not up or parent is None:
            return [('unknown', 'a parameter of the closure %s' % body.fn, None)]
        k = int(up[0]['f'])
        for _, _, s in parent.stmts():
            if s['k'] == 'assign' and s['rv']['k'] == 'agg' and s['rv'].get('def') == body.fn and len(s['rv'].get('ops') or []) > k:
                return _r10_sources(F, parent, Q.DefUse(parent), s['rv']['ops'][k], 40, hops, seen)
        return [('unknown', 'a captured variable of %s' % body.fn, None)]
    callers = F.callers_of(lambda names, t: fn in names)
    if not callers or not (1 <= idx <= body.argc):
        return [('unknown', 'a parameter of %s (no caller in the workspace)' % fn, None)]
    out = []
    for cb, blk, t in callers:
        if len(t['a']) >= idx:
            out.extend(_r10_sources(F, cb, Q.DefUse(cb), t['a'][idx - 1], 40, hops - 1, seen))
    return out


@RS.rule('C06.R10', 'K-TAINT', 'reserved words are recognised on the literal units of the word: wherever yash-syntax looks a word up in the keyword '
         'table (the lexer classifying a token, the printer deciding "first word is a keyword"), the text is '
         'MaybeLiteral::to_string_if_literal of the whole Word - never its source text')
def r10(cx):
    F = cx.F
    # the unit-level literal really is a function of `units` alone
    wl = '<' + SYN + 'Word as ' + SYN + 'conversions::MaybeLiteral>::extend_literal'
    wh = F.hir_of(wl)
    fields = {x.get('name') for x in H.walk(wh['body']) if x.get('k') == 'field' and x.get('adt') == SYN + 'Word'}
    cx.require(fields == {'units'}, 'MaybeLiteral for Word reads %s, not only `units`' % sorted(fields))
    cx.fn(wl)
    sites = [(b, blk, t) for b, blk, t in F.callers_of(lambda names, t: _r10_is_lookup(t), crates=None)
             if b.fn.startswith('yash_syntax::') and not b.fn.startswith(KW.rsplit('::', 1)[0] + '::')]
    roles = {'lexer/parser': 0, 'printer': 0}
    for b, blk, t in sorted(sites, key=lambda x: (x[0].fn, x[1])):
        cx.fn(b.root)
        role = 'lexer/parser' if b.fn.startswith('yash_syntax::parser::') else 'printer'
        roles[role] += 1
        text = [a for a, ty in zip(t['a'], t.get('at') or []) if re.match(r'^&?(mut )?(str|alloc::string::String)$', ty)]
        cx.require(len(text) == 1, '%s: the keyword lookup at %s does not take one string' % (b.fn, b.loc(t)))
        leaves = _r10_sources(F, b, Q.DefUse(b), text[0])
        cx.site('%s (%s): text looked up in the keyword table comes from %s'
                % (b.root.split('::')[-1], role, '; '.join(sorted({lf[1] for lf in leaves})) or 'nothing traceable'))
        cx.require(leaves and not any(lf[0] == 'unknown' for lf in leaves),
                   '%s: the text looked up in the keyword table at %s is not traceable (%s)'
                   % (b.fn, b.loc(t), '; '.join(lf[1] for lf in leaves if lf[0] == 'unknown')))
        bad = sorted({lf[1] for lf in leaves if lf[0] == 'other'})
        if bad:
            cx.violation(b.root, 'keyword-lookup-not-on-literal-units',
                         '%s decides "is this word a reserved word" on %s instead of the literal its units spell '
                         '(Word::to_string_if_literal): the two differ for the same units - a line continuation inside or right after the '
                         'word (`i\\<newline>f`, `!\\<newline> true`) stays in the source text but not in the units - so the lexer and the '
                         'printer (first_word_is_keyword, Display) disagree: `!\\<newline> true` becomes the simple command `! true`, whose '
                         'printed text re-parses as a negated pipeline' % (b.root.split('::')[-1], ', '.join(bad)), loc=b.loc(t))
    cx.floor(roles['lexer/parser'], 1, 'keyword lookups in the lexer/parser')
    cx.floor(roles['printer'], 1, 'keyword lookups in the printer (first_word_is_keyword)')


# ---------------------------------------------------------------------------------------------------------------
# R11: the shape predicates of SimpleCommand, decided by evaluating their HIR on every shape
from rules.C01 import Interp as _HInterp, MutStruct as _HMutStruct, Undecidable as _HUndecidable, V as _HV, is_variant as _h_is_variant

_SC = 'yash_syntax::syntax::SimpleCommand'
_OPT_SOME, _OPT_NONE = 'core::option::Option::Some', 'core::option::Option::None'


class _ShapeInterp(_HInterp):
    """rules/C01.Interp plus what a predicate over the three vectors of a SimpleCommand may use: slice patterns, and the
    std accessors of Vec / slice / Rc whose meaning is fixed (as_slice, first, last, get, iter, deref, as_ref, ...)."""

    _IDENT = re.compile(r'(::as_slice|::as_ref|::deref|::borrow|::iter|::as_mut_slice|::as_mut|::deref_mut|::iter_mut|::clone)$')

    def __init__(self, F, fuel=4000):
        _HInterp.__init__(self, F, self._extern, fuel)

    def _extern(self, name, recv, args, node):
        name = str(name)
        vals = ([recv] if recv is not None else []) + list(args)
        if vals and isinstance(vals[0], list):
            v = vals[0]
            if self._IDENT.search(name) and len(vals) == 1:
                return v
            if re.search(r'::(first|split_first)$', name) and len(vals) == 1:
                if not v:
                    return _HV(_OPT_NONE)
                return _HV(_OPT_SOME, v[0] if name.endswith('::first') else ('T', (v[0], v[1:])))
            if re.search(r'::(last|split_last)$', name) and len(vals) == 1:
                if not v:
                    return _HV(_OPT_NONE)
                return _HV(_OPT_SOME, v[-1] if name.endswith('::last') else ('T', (v[-1], v[:-1])))
            if name.endswith('::get') and len(vals) == 2 and isinstance(vals[1], int):
                return _HV(_OPT_SOME, v[vals[1]]) if 0 <= vals[1] < len(v) else _HV(_OPT_NONE)
            if re.search(r'::(len|count)$', name) and len(vals) == 1:
                return len(v)
            if name.endswith('::is_empty') and len(vals) == 1:
                return len(v) == 0
        if len(vals) == 1 and isinstance(vals[0], _HMutStruct) and vals[0].path == _SC and name.startswith(_SC + '::') and name in self.F.hir:
            return _ShapeInterp(self.F, self.fuel).call_fn(name, [vals[0]])      # a sibling predicate
        raise _HUndecidable('call of %s' % name)

    def bind(self, p, v, env):
        if p.get('k') == 'pslice':
            if not isinstance(v, list):
                raise _HUndecidable('slice pattern against %r' % (v,))
            before, after, mid = p.get('before') or [], p.get('after') or [], p.get('mid')
            if len(v) < len(before) + len(after) or (mid is None and len(v) != len(before) + len(after)):
                return False
            if not all(self.bind(sp, sv, env) for sp, sv in zip(before, v)):
                return False
            if after and not all(self.bind(sp, sv, env) for sp, sv in zip(after, v[len(v) - len(after):])):
                return False
            return mid is None or self.bind(mid, v[len(before):len(v) - len(after)], env)
        return _HInterp.bind(self, p, v, env)


def _r11_shapes(F):
    adt = F.adts.get(_SC)
    fields = [f['name'] for f in adt['variants'][0]['fields']] if adt and adt.get('variants') else []
    out = []
    for na in (0, 1, 2):
        for nw in (0, 1, 2):
            for nr in (0, 1, 2):
                n = {'assigns': na, 'words': nw, 'redirs': nr}
                out.append((n, lambda n=n: _HMutStruct(_SC, {
                    'assigns': [('O', 'assign%d' % i) for i in range(n['assigns'])],
                    'words': [('T', (('O', 'word%d' % i), ('O', 'mode%d' % i))) for i in range(n['words'])],
                    'redirs': [('O', 'redir%d' % i) for i in range(n['redirs'])]})))
    return fields, out


@RS.rule('C06.R11', 'K-TABLE+K-GUARD', 'the shape predicates of SimpleCommand say what their names say on every shape: is_one_word() is true exactly '
         'for no assignment, ONE word, no redirection; is_empty() exactly for nothing at all - and the parser takes the single word out of a '
         'command as a function name only where is_one_word() answered true (what it then drops must be empty)')
def r11(cx):
    F = cx.F
    fields, shapes = _r11_shapes(F)
    cx.require(sorted(fields) == ['assigns', 'redirs', 'words'],
               'SimpleCommand no longer consists of exactly assigns / words / redirs (%s): the shape table of R11 must be redone' % fields)
    table = {
        _SC + '::is_one_word': (lambda n: n['assigns'] == 0 and n['words'] == 1 and n['redirs'] == 0, 'one-word',
                                'the parser then reads `name()` as a function definition, pops the word and DROPS the rest of the command '
                                '(`>x foo() { :; }` panics on debug_assert!(intro.is_empty()) in debug builds and silently loses `>x` in release '
                                'builds; `a=1 foo() {..}` / two words likewise)',
                                'a plain `foo() { :; }` is no longer recognised as a function definition'),
        _SC + '::is_empty': (lambda n: n['assigns'] == 0 and n['words'] == 0 and n['redirs'] == 0, 'empty',
                             'a command made only of what is ignored is treated as no command at all: the parser stops reading a list / '
                             'reports a missing command where one was entered',
                             'the empty command is taken for a command: `;` alone or a missing command is accepted'),
    }
    for fn, (want, key, when_true, when_false) in sorted(table.items()):
        cx.require(fn in F.hir, '%s not found' % fn)
        cx.fn(fn)
        bad = []
        for n, mk in shapes:
            try:
                got = _ShapeInterp(F).call_fn(fn, [mk()])
            except _HUndecidable as e:
                cx.require(False, '%s cannot be evaluated on the shape %s: %s' % (fn, n, e))
                return
            cx.require(isinstance(got, bool), '%s: result on %s is not a boolean (%r)' % (fn, n, got))
            cx.site('%s(assigns=%d, words=%d, redirs=%d) = %s' % (fn.split('::')[-1], n['assigns'], n['words'], n['redirs'], got))
            if got != want(n):
                bad.append((n, got))
        for which in (True, False):
            rows = [n for n, got in bad if got is which]
            if rows:
                n = rows[0]
                cx.violation(fn, '%s:wrongly-%s' % (key, str(which).lower()),
                             '%s() answers %s for a command with %d assignment(s), %d word(s), %d redirection(s)%s: %s'
                             % (fn.split('::')[-1], str(which).lower(), n['assigns'], n['words'], n['redirs'],
                                ' (and %d more shapes)' % (len(rows) - 1) if len(rows) > 1 else '', when_true if which else when_false),
                             loc='%s:%s' % (F.hir[fn].get('file'), F.hir[fn].get('line')))
    # the consumer: the one place that takes the word out and forgets the command
    pfn = "yash_syntax::parser::function::<impl yash_syntax::parser::core::Parser<'_, '_>>::short_function_definition"
    body = F.inlined(F.main_body(pfn))
    cx.fn(body.fn)
    du = Q.DefUse(body)
    pops = [(blk, t) for blk, t in Q.find_calls(body, [re.compile(r'^alloc::vec::Vec::<T, A>::(pop|remove|swap_remove|drain)$'),
                                                         re.compile(r'^core::mem::(take|replace)$')])
            if any(str(nm).split('.')[-1] == 'words' for nm in Q.arg_names(body, du, t)[:1])]
    cx.require(pops, 'short_function_definition no longer takes the function name out of intro.words: R11 must be re-anchored')
    for blk, t in pops:
        ok = any(Q.cond_is_call(org, [_SC + '::is_one_word']) and lab == ('bool', True)
                 for org, lab, edge in Q.implied_conditions(F, body, du, blk))
        cx.site('short_function_definition: the name is taken out of intro.words at %s under is_one_word() == true: %s' % (body.loc(t), ok))
        if not ok:
            cx.violation(body.root, 'name-taken-without-one-word-guard',
                         'short_function_definition takes the function name out of the introducing simple command on a path where '
                         'is_one_word() was not found true: for `a=1 foo()` / `foo bar()` / `>x foo()` the rest of the command is dropped '
                         '(or the unwrap / debug_assert panics) instead of the input being parsed as a simple command', loc=body.loc(t))


# ---------------------------------------------------------------------------------------------------------------
# R12: a Display wrapper around a syntax-tree node prints the WHOLE node
_R12_SYN = re.compile(r'^yash_syntax::syntax::[A-Za-z_][A-Za-z0-9_]*(<.*>)?$')
_R12_WRAP = re.compile(r'^(?:&(?:\'\w+ )?(?:mut )?|alloc::rc::Rc<|alloc::sync::Arc<|alloc::boxed::Box<|core::pin::Pin<)')


def _r12_core(ty):
    """The type behind references and owning pointers: `&&Rc<T>` -> `T`."""
    ty = str(ty or '').strip()
    while True:
        m = _R12_WRAP.match(ty)
        if not m:
            return ty
        ty = ty[m.end():]
        if not m.group(0).startswith('&'):
            ty = ty[:-1] if ty.endswith('>') else ty
            ty = ty.split(', alloc::alloc::Global')[0] if ty.endswith(', alloc::alloc::Global') else ty
        ty = ty.strip()


_R12_SINKS = [re.compile(r'^core::fmt::Display::fmt$'), re.compile(r'^alloc::string::ToString::to_string$'),
              re.compile(r'^core::fmt::rt::Argument::<.*>::new_display$'), re.compile(r'::AsDisplay(<.*>)?::as_display$')]


def _r12_formatted_types(F, fn):
    """Core types of everything the body of a Display::fmt hands to a formatting entry point (helpers of the module inlined)."""
    out = []
    for b0 in F.logical(F.bodies[fn].root) if fn in F.bodies else []:
        b = F.inlined(b0)
        for blk, t in b.calls():
            if Q.callee_is(t, _R12_SINKS) and t.get('at'):
                out.append((_r12_core(t['at'][0]), b, t))
    return out


@RS.rule('C06.R12', 'K-SIBLING', 'outside yash-syntax, a Display implementation that wraps a syntax-tree node shows the text of the WHOLE node: a '
         'newtype around a yash_syntax::syntax type (BodyImpl, through which `typeset -f` / the function set print a stored function body) '
         'hands the wrapped value itself to its Display - not a field of it - and no such implementation formats a part of a tree it holds '
         'in place of the tree')
def r12(cx):
    F = cx.F
    imps = F.impls if isinstance(F.impls, list) else list(F.impls.values())
    wrappers, holders = 0, 0
    for im in sorted(imps, key=lambda i: str(i.get('self'))):
        if im.get('trait_def') != 'core::fmt::Display':
            continue
        sa = im.get('self_adt')
        if not sa or sa.startswith('yash_syntax::') or sa not in F.adts:
            continue
        adt = F.adts[sa]
        fields = [(v['name'], f['name'], _r12_core(f['ty'])) for v in adt.get('variants') or [] for f in v['fields']]
        syn = [(vn, fname, ty) for vn, fname, ty in fields if _R12_SYN.match(ty) and ty in F.adts]
        if not syn:
            continue
        fmts = [it['def'] for it in im.get('items') or [] if it.get('name') == 'fmt']
        cx.require(len(fmts) == 1 and fmts[0] in F.bodies, 'Display for %s: fmt body not found' % sa)
        fn = fmts[0]
        cx.fn(fn)
        holders += 1
        formatted = _r12_formatted_types(F, fn)
        whole = {ty for ty, _, _ in formatted}
        held = {ty for _, _, ty in syn}
        newtype = adt.get('kind') == 'Struct' and len(fields) == 1
        short = sa.split('::')[-1]
        if newtype:
            wrappers += 1
            ty = syn[0][2]
            ok = ty in whole
            cx.site('%s is a newtype around %s; its Display formats the whole %s: %s' % (short, ty.split('::')[-1], ty.split('::')[-1], ok))
            if not ok:
                parts = sorted({t.split('::')[-1] for t in whole if _R12_SYN.match(t)})
                cx.violation(fn, 'wrapper-does-not-print-whole-node:%s' % ty.split('::')[-1],
                             'Display for %s never hands the wrapped %s to its Display%s: what is shown to the user is not the text of the '
                             'tree that is stored (for BodyImpl: `f() { echo x; } >&2` is listed by `typeset -f` as `f() { echo x; }` - the '
                             'redirections of the function body are lost, and re-reading the listing defines a different function)'
                             % (short, ty.split('::')[-1], (' (it formats only %s)' % ', '.join(parts)) if parts else ''),
                             loc='%s:%s' % (F.bodies[fn].file, F.bodies[fn].line))
        # every holder: a syntax-tree value that is formatted is one the type holds, not a piece taken out of it
        for ty, b, t in formatted:
            if _R12_SYN.match(ty) and ty in F.adts and ty not in held:
                # a piece of a held node: its type is (transitively, one level) a field type of a held node
                inside = [h for h in held if any(_r12_core(f['ty']) == ty for v in F.adts[h].get('variants') or [] for f in v['fields'])]
                if inside and not (newtype and syn[0][2] not in whole):      # the newtype case is reported above, once
                    cx.violation(fn, 'formats-part-of-held-node:%s' % ty.split('::')[-1],
                                 'Display for %s formats a %s taken out of the %s it holds instead of the %s itself: the text shown is '
                                 'that of a part of the tree' % (short, ty.split('::')[-1], inside[0].split('::')[-1], inside[0].split('::')[-1]),
                                 loc=b.loc(t))
        if not newtype:
            cx.site('%s holds %s; syntax-tree values it formats: %s' % (short, ', '.join(sorted(h.split('::')[-1] for h in held)),
                                                                      ', '.join(sorted({t.split('::')[-1] for t in whole if _R12_SYN.match(t)})) or 'none'))
    cx.require(any(str(im.get('self_adt')) == 'yash_semantics::command::function_definition::BodyImpl' and im.get('trait_def') == 'core::fmt::Display'
                   for im in imps) or wrappers >= 1, 'no Display newtype around a syntax-tree node found (BodyImpl gone?)')
    cx.floor(wrappers, 2, 'Display newtypes around a yash_syntax::syntax node outside yash-syntax (BodyImpl, UnsetVariable)')
    cx.floor(holders, 5, 'non-yash-syntax Display implementations whose self type holds a syntax-tree node')


RS.rules.sort(key=lambda r: r.id)


# --- explanation addendum (generated catalogue in DESIGN.md reads RS.explanation)
RS.explanation += ' Added later: the raw text of a command substitution is printed verbatim (R2b).'
RS.explanation += ' (R5) first_word_is_keyword is evaluated path by path under the hypothesis that the keyword-table lookup returned Ok(unknown keyword): every path must return the constant true, so no further condition narrows the set of reserved words that are printed redirections-first; (R3b) also accepts `false` where the lookup result is known to be Err.'
RS.explanation += ' (R6) after an unquoted backslash the escaped character is read with line continuation disabled, in every unit lexer.'
RS.explanation += ' (R7) every Parser-driving FromStr rejects trailing text.'
RS.explanation += ' (R3c) blanks that keep `a$ ()` and `( (` apart are printed.'
RS.explanation += ' (R9) the recognisers of the forms that begin with `$` are found from the code (what the routine that consumes the `$` tries next; what produces a DollarSingleQuote unit) and each read they make of the character after the `$` - followed through peek_char and the None/false outcomes of consume_char_if/skip_if, and into lexer helpers - is made on the lexer they were given, never on the PlainLexer of disable_line_continuation().'
RS.explanation += ' (R10) the text handed to every keyword-table lookup in yash-syntax (lexer token_id, printer first_word_is_keyword, helpers followed to their callers) is traced back to MaybeLiteral::to_string_if_literal / extend_literal of the whole Word; any other producer (source_string, a Location, the literal of one unit) is reported.'
RS.explanation += ' (R11) SimpleCommand::is_one_word / is_empty are evaluated (HIR interpreter) on all 27 shapes (0/1/2 assignments, words, redirections) and must be true exactly for (0,1,0) / (0,0,0); short_function_definition takes the name out of intro.words only under is_one_word() == true. (R12) every Display implementation outside yash-syntax whose self type holds a yash_syntax::syntax node is enumerated from the impl table: a newtype (BodyImpl: the printed body of a stored function) must hand the whole wrapped node to a formatting entry point (Display::fmt, Argument::new_display, to_string), and none may format a field of a held node in its place.'
