"""C03 - arithmetic expansion: exact 64-bit C arithmetic or an error, never wrong."""
import re
from engine import RuleSet
import mirq as Q
import hirq as H
import pp

RS = RuleSet(
    'C03',
    explanation=(
        'Typed operation scan and table comparison over yash-arith: no unchecked arithmetic on the i64 value '
        'domain anywhere in the evaluator (every Add/Sub/Mul/Div/Rem/Shl/Shr/Neg on i64 must be a checked_* call '
        'whose None reaches an Overflow error), the precedence table is order-isomorphic to the C/POSIX precedence '
        'classes, associativity and token->operator mapping are the C ones, the tokenizer table covers every '
        'operator exactly once and is longest-match safe under first-hit search, compound assignments share the '
        'arm of their base operator, the right operands of || && ?: are evaluated only on the proper edge, integer '
        'constants are parsed by one routine for expression text and variable values, and the set of panic-capable '
        'constructs in the crate is the reviewed one.'),
    not_decided='numerical exactness of individual results; totality of the parser over all texts (the panic-site '
                'inventory decides "no new way to panic", not panic-freedom); recursion depth',
    trusted=['C operator precedence classes transcribed in rules/C03.py'],
)

OP = 'yash_arith::token::Operator'
BOP = 'yash_arith::ast::BinaryOperator'
EVAL = 'yash_arith::eval::'

FORBIDDEN_BIN = {'Add', 'Sub', 'Mul', 'Div', 'Rem', 'Shl', 'Shr', 'AddUnchecked', 'SubUnchecked', 'MulUnchecked',
                 'ShlUnchecked', 'ShrUnchecked', 'AddWithOverflow', 'SubWithOverflow', 'MulWithOverflow'}
# one allow-listed site, with its reason
ALLOWED_I64_OPS = {
    ('yash_arith::eval::binary_result::{closure#0}', 'Shr'):
        'runs inside .filter() on the Some result of checked_shl(rhs): rhs < 64 is established, and the '
        'shift-back comparison is the overflow test itself',
}
FORBIDDEN_I64_CALLS = re.compile(r'^core::num::<impl i64>::(wrapping_|overflowing_|saturating_|unchecked_|pow$|abs$|'
                                 r'unsigned_abs$|rotate_|isqrt$|strict_)|'
                                 r'^core::num::<impl [iu](8|16|32|64|128|size)>::(wrapping_|overflowing_|saturating_|unchecked_)')
INT_TYPES = ('i8', 'u8', 'i16', 'u16', 'i32', 'u32', 'u64', 'i128', 'u128', 'usize', 'isize')
CHECKED = re.compile(r'^core::num::<impl i64>::checked_')


def _is_shl_filter_closure(F, body):
    """body is a closure passed to Option::filter whose receiver is the result of i64::checked_shl."""
    if '::{closure' not in body.fn:
        return False
    parent = F.bodies.get(body.fn.rsplit('::{closure', 1)[0])
    if parent is None:
        return False
    du = Q.DefUse(parent)
    for blk, t in Q.find_calls(parent, ['core::option::Option::<T>::filter']):
        src = Q.value_source(parent, du, t['a'][0])
        clo = du.origin(t['a'][1]) if len(t['a']) > 1 else {'k': '?'}
        if src is not None and Q.callee_is(src, ['core::num::<impl i64>::checked_shl']) and \
                clo['k'] == 'agg' and clo['rv'].get('def') == body.fn:
            return True
    return False


OPTION_ADAPTERS = [re.compile(r'^core::option::Option::<T>::(and_then|or_else|map|filter|then|then_some|and|or|xor|flatten)$'),
                   re.compile(r'^core::bool::<impl bool>::then$')]


def _closure_result_sunk(F, body, depth=3):
    """`body` is a closure whose returned Option is the result of a checked_* call; it is passed to an Option adapter
    (and_then, map, ..) in its parent, and the adapter's result reaches unwrap_or_overflow there (or is, in turn, returned
    by a helper / closure whose result is sunk)."""
    if '::{closure' not in body.fn or depth == 0:
        return False
    parent = F.bodies.get(body.fn.rsplit('::{closure', 1)[0])
    if parent is None:
        return False
    du = Q.DefUse(parent)
    for blk, t in parent.calls():
        if not Q.callee_is(t, OPTION_ADAPTERS):
            continue
        if not any(du.origin(a).get('k') == 'agg' and du.origin(a)['rv'].get('def') == body.fn for a in t['a']):
            continue
        taint = Q.forward_taint(parent, {t['dest']['l']}, through_calls=OPTION_ADAPTERS + Q.PROPAGATING_CALLS)
        if Q.calls_with_tainted_arg(parent, [EVAL + 'unwrap_or_overflow'], taint):
            return True
        if 0 in taint and (_callers_sink_result(F, parent.root) or _closure_result_sunk(F, parent, depth - 1)):
            return True
    # the closure is handed (as a closure or coerced to a fn pointer) to a helper of the crate, which calls it and gives the
    # Option it returns to unwrap_or_overflow: `step_variable(term, |v| v.checked_add(1), ..)`
    for blk, t in parent.calls():
        callee = pp.callee(t)
        if not callee.startswith('yash_arith::') or callee not in F.by_root:
            continue
        for i, a in enumerate(t['a']):
            o = du.origin(a)
            if o.get('k') == 'cast':
                o = o.get('from') or o
            if not (o.get('k') == 'agg' and o['rv'].get('def') == body.fn):
                continue
            helper = F.main_body(callee)
            hdu = Q.DefUse(helper)
            param = i + 1
            ok = False
            for hb, ht in helper.calls():
                ind = ht['f'].get('indirect')
                via_param = False
                if ind is not None:
                    ho = hdu.origin(ind)
                    via_param = (ho.get('k') == 'arg' and ho.get('l') == param) or \
                        (ho.get('k') == 'place' and ho['pl'].get('l') == param)
                elif Q.callee_is(ht, [re.compile(r'ops::function::Fn(Mut|Once)?(<.*>)?>?::call(_mut|_once)?$')]) and ht['a']:
                    ho = hdu.origin(ht['a'][0])
                    via_param = (ho.get('k') in ('arg',) and ho.get('l') == param) or \
                        (ho.get('k') in ('place', 'ref') and ho['pl'].get('l') == param)
                if not via_param:
                    continue
                taint = Q.forward_taint(helper, {ht['dest']['l']}, through_calls=OPTION_ADAPTERS + Q.PROPAGATING_CALLS)
                if Q.calls_with_tainted_arg(helper, [EVAL + 'unwrap_or_overflow'], taint):
                    ok = True
            if ok:
                return True
    return False


def _callers_sink_result(F, fn):
    """Every caller of helper `fn` (inside yash-arith) passes its result (through `?`) to unwrap_or_overflow."""
    callers = F.callers_of(lambda names, t: fn in names)
    if not callers:
        return False
    for b, blk, t in callers:
        taint = Q.forward_taint(b, {t['dest']['l']}, through_calls=Q.PROPAGATING_CALLS)
        if not Q.calls_with_tainted_arg(b, [EVAL + 'unwrap_or_overflow'], taint):
            return False
    return True


@RS.rule('C03.R1', 'K-EFFECT', 'no unchecked arithmetic on i64 values in yash-arith; every checked_* None becomes an Overflow error')
def r1(cx):
    F = cx.F
    n_ops = 0
    allowed_seen = []
    for body in F.bodies_in(['yash_arith::']):
        cx.fn(body.fn)
        for b, j, s in body.stmts():
            if s['k'] != 'assign':
                continue
            rv = s['rv']
            if rv['k'] == 'binop' and (rv['ta'] == 'i64' or rv['tb'] == 'i64'):
                n_ops += 1
                cx.site('%s: %s on i64 at %s' % (body.fn, rv['op'], body.loc(s)))
                if rv['op'] in FORBIDDEN_BIN:
                    if rv['op'] == 'Shr' and _is_shl_filter_closure(F, body):
                        # the one reviewed exception: the shift-back comparison inside `.filter(..)` on the Some result
                        # of checked_shl(rhs) (rhs < 64 is established there; the comparison IS the overflow test)
                        allowed_seen.append(body.fn)
                        continue
                    cx.violation(body.fn, 'i64:%s' % rv['op'], 'unchecked %s on i64 operands (wraps or panics instead '
                                 'of reporting an arithmetic error)' % rv['op'], loc=body.loc(s))
            if rv['k'] == 'unop' and rv['ta'] == 'i64' and rv['op'] == 'Neg':
                cx.site('%s: Neg on i64 at %s' % (body.fn, body.loc(s)))
                cx.violation(body.fn, 'i64:Neg', 'unchecked negation of an i64 value', loc=body.loc(s))
            if rv['k'] == 'cast' and rv['to'] == 'i64' and rv['from'] in ('u64', 'i128', 'u128', 'usize', 'isize'):
                cx.site('%s: cast %s -> i64 at %s' % (body.fn, rv['from'], body.loc(s)))
                cx.violation(body.fn, 'i64:cast-from:%s' % rv['from'], 'an `as i64` cast from %s wraps out-of-range values instead of '
                             'reporting them (e.g. a magnitude above 2^63 becomes a value of the wrong sign)' % rv['from'], loc=body.loc(s))
            if rv['k'] == 'cast' and rv['from'] == 'i64' and rv['to'] in ('i32', 'u32', 'i16', 'u16', 'i8', 'u8', 'usize', 'isize', 'u64'):
                cx.site('%s: cast i64 -> %s at %s' % (body.fn, rv['to'], body.loc(s)))
                cx.violation(body.fn, 'i64:cast:%s' % rv['to'], 'truncating/sign-changing cast of an i64 value', loc=body.loc(s))
        for b, t in body.calls():
            for n in Q.callee_names(t):
                if FORBIDDEN_I64_CALLS.search(n):
                    cx.site('%s: %s at %s' % (body.fn, n, body.loc(t)))
                    cx.violation(body.fn, 'call:%s' % n.split('::')[-1], 'non-checked i64 operation %s' % n, loc=body.loc(t))
    cx.floor(n_ops, 10, 'i64 binary operations inspected')
    cx.site('reviewed exception (Shr inside the filter closure of checked_shl): %s' % (allowed_seen or 'not present'))
    # every checked_* result reaches unwrap_or_overflow or a None => Overflow arm
    n_checked = 0
    for body in F.bodies_in(['yash_arith::eval::']):
        du = Q.DefUse(body)
        for b, t in body.calls():
            if not any(CHECKED.search(n) for n in Q.callee_names(t)):
                continue
            n_checked += 1
            cx.site('%s: %s at %s' % (body.fn, pp.callee(t), body.loc(t)))
            taint = Q.forward_taint(body, {t['dest']['l']}, through_calls=OPTION_ADAPTERS + Q.PROPAGATING_CALLS)
            sinks = Q.calls_with_tainted_arg(body, [EVAL + 'unwrap_or_overflow'], taint)
            if sinks:
                continue
            if 0 in taint and _callers_sink_result(F, body.root):
                continue          # a helper that hands the Option to its caller, which gives it to unwrap_or_overflow
            if 0 in taint and _closure_result_sunk(F, body):
                continue          # a closure given to Option::and_then / map / or_else whose result is sunk by the parent
            # match on the Option with a None arm constructing EvalError::Overflow
            ok = False
            for sb in body.live_blocks():
                ec = Q.edge_condition(F, body, du, sb)
                if ec and ec[0]['k'] == 'discr' and ec[0]['pl']['l'] in taint:
                    for tgt, labs in ec[1].items():
                        if ('variant', 'None') in labs:
                            reach = body.reachable(tgt)
                            if any(bb in reach for bb, j, s in Q.find_aggregates(body, 'yash_arith::eval::EvalError', 'Overflow')):
                                ok = True
            if not ok:
                cx.violation(body.fn, 'checked-result-dropped:%s' % pp.callee(t).split('::')[-1],
                             'the Option returned by %s does not reach unwrap_or_overflow nor a None => Overflow arm'
                             % pp.callee(t), loc=body.loc(t))
    cx.floor(n_checked, 12, 'checked_* call sites')


# C precedence classes, lowest to highest (binary operators of the token enum)
C_CLASSES = [
    ['Equal', 'BarEqual', 'CaretEqual', 'AndEqual', 'LessLessEqual', 'GreaterGreaterEqual', 'PlusEqual', 'MinusEqual',
     'AsteriskEqual', 'SlashEqual', 'PercentEqual'],
    ['Question'],
    ['BarBar'], ['AndAnd'], ['Bar'], ['Caret'], ['And'],
    ['EqualEqual', 'BangEqual'],
    ['Less', 'LessEqual', 'Greater', 'GreaterEqual'],
    ['LessLess', 'GreaterGreater'],
    ['Plus', 'Minus'],
    ['Asterisk', 'Slash', 'Percent'],
]
TERMINATORS = ['CloseParen', 'Colon']        # must rank below every binary operator
UNARY_ONLY = ['Tilde', 'Bang', 'PlusPlus', 'MinusMinus', 'OpenParen']


def _fn(F, suffix):
    fs = [k for k in F.hir if k.endswith(suffix)]
    if len(fs) != 1:
        from facts import AnchorMissing
        raise AnchorMissing('function %s: %d matches' % (suffix, len(fs)))
    return fs[0]


@RS.rule('C03.R2', 'K-TABLE', 'Operator::precedence is order-isomorphic to the C precedence classes')
def r2(cx):
    F = cx.F
    fn = _fn(F, '<impl yash_arith::token::Operator>::precedence')
    cx.fn(fn)
    table, m = H.fn_match_table(F, fn, OP)
    prec = {}
    for v, (i, body) in table.items():
        val = H.lit_value(body)
        cx.require(isinstance(val, int), 'precedence of %s is not an integer literal' % v)
        prec[v] = val
    cx.cellcount(len(prec))
    cx.sample({'precedence': prec})
    known = {x for c in C_CLASSES for x in c} | set(TERMINATORS) | set(UNARY_ONLY)
    for v in prec:
        if v not in known:
            cx.violation(fn, 'unclassified:%s' % v, 'operator %s has no C precedence class in the reference table' % v,
                         loc='%s:%d' % (F.hir[fn]['file'], F.hir[fn]['line']))
    loc = '%s:%d' % (F.hir[fn]['file'], F.hir[fn]['line'])
    for ci, cls in enumerate(C_CLASSES):
        vals = {prec[x] for x in cls if x in prec}
        if len(vals) != 1:
            cx.violation(fn, 'class-split:%s' % cls[0], 'operators %s must share one precedence, found %s' % (cls, sorted(vals)), loc=loc)
            continue
        if ci > 0:
            lo = {prec[x] for x in C_CLASSES[ci - 1] if x in prec}
            if lo and not max(lo) < min(vals):
                cx.violation(fn, 'order:%s<%s' % (C_CLASSES[ci - 1][0], cls[0]),
                             'C requires %s to bind looser than %s (found %s vs %s)' % (C_CLASSES[ci - 1], cls, sorted(lo), sorted(vals)),
                             loc=loc)
    lowest_binary = min(prec[x] for c in C_CLASSES for x in c if x in prec)
    for t in TERMINATORS:
        if t in prec and not prec[t] < lowest_binary:
            cx.violation(fn, 'terminator:%s' % t, '%s must rank below every binary operator so that it ends an operand' % t, loc=loc)
    # parse() starts at the lowest binary precedence, so terminators stop the loop and assignments are consumed
    ph = F.hir_of('yash_arith::ast::parse')
    starts = [c for c in H.calls(ph['body'], 'yash_arith::ast::parse_tree')]
    cx.require(len(starts) == 1, 'parse does not call parse_tree exactly once')
    start = H.lit_value(starts[0]['a'][1])
    cx.site('parse: parse_tree(tokens, %s, ..)' % start)
    if start != lowest_binary:
        cx.violation('yash_arith::ast::parse', 'start-precedence', 'parse must start at the lowest binary precedence %d, '
                     'found %s' % (lowest_binary, start), loc='%s:%s' % (ph['file'], starts[0]['line']))


BASE = {'Equal': 'Assign', 'BarEqual': 'BitwiseOrAssign', 'CaretEqual': 'BitwiseXorAssign', 'AndEqual': 'BitwiseAndAssign',
        'LessLessEqual': 'ShiftLeftAssign', 'GreaterGreaterEqual': 'ShiftRightAssign', 'PlusEqual': 'AddAssign',
        'MinusEqual': 'SubtractAssign', 'AsteriskEqual': 'MultiplyAssign', 'SlashEqual': 'DivideAssign',
        'PercentEqual': 'RemainderAssign', 'BarBar': 'LogicalOr', 'AndAnd': 'LogicalAnd', 'Bar': 'BitwiseOr',
        'Caret': 'BitwiseXor', 'And': 'BitwiseAnd', 'EqualEqual': 'EqualTo', 'BangEqual': 'NotEqualTo',
        'Less': 'LessThan', 'LessEqual': 'LessThanOrEqualTo', 'Greater': 'GreaterThan',
        'GreaterEqual': 'GreaterThanOrEqualTo', 'LessLess': 'ShiftLeft', 'GreaterGreater': 'ShiftRight',
        'Plus': 'Add', 'Minus': 'Subtract', 'Asterisk': 'Multiply', 'Slash': 'Divide', 'Percent': 'Remainder'}


@RS.rule('C03.R3', 'K-TABLE', 'token -> binary operator mapping and associativity are the C ones; parse_tree recurses accordingly')
def r3(cx):
    F = cx.F
    fn = _fn(F, '<impl yash_arith::token::Operator>::as_binary')
    cx.fn(fn)
    table, m = H.fn_match_table(F, fn, OP)
    loc = '%s:%d' % (F.hir[fn]['file'], F.hir[fn]['line'])
    for v, (i, body) in table.items():
        val = H.const_eval(body)
        cx.cellcount(1)
        if v in BASE:
            want_assoc = 'Right' if v.endswith('Equal') and v not in ('EqualEqual', 'BangEqual', 'LessEqual', 'GreaterEqual') else 'Left'
            ok = (isinstance(val, tuple) and val[0] == 'ctor' and H.short(val[1]) == 'Some')
            got = None
            if ok:
                inner = val[2][0]
                got = (H.short(inner[0][1]), H.short(inner[1][1])) if isinstance(inner, tuple) else None
            if got != (BASE[v], want_assoc):
                cx.violation(fn, 'cell:%s' % v, 'as_binary(%s) must be Some((%s, %s)), found %s' % (v, BASE[v], want_assoc, got), loc=loc)
        else:
            if not (val[0] == 'path' and H.short(val[1]) == 'None'):
                cx.violation(fn, 'cell:%s' % v, 'as_binary(%s) must be None, found %s' % (v, val), loc=loc)
    cx.sample({'as_binary': {v: str(H.const_eval(b))[:60] for v, (i, b) in list(table.items())[:4]}})
    # parse_tree: Left => precedence + 1, Right => precedence; `?:` else-branch at the operator's own precedence
    pt = F.hir_of('yash_arith::ast::parse_tree')
    cx.fn('yash_arith::ast::parse_tree')
    ms = [m for m in H.matches_in(pt['body']) if 'Associativity' in (m.get('sty') or '')]
    cx.require(len(ms) == 1, 'match on as_binary() result / associativity not found in parse_tree')
    direct = (ms[0].get('sty') or '').lstrip('&').strip().endswith('ast::Associativity')
    for assoc, want in (('Left', 'plus1'), ('Right', 'same')):
        av = ('variant', 'yash_arith::ast::Associativity::' + assoc, [])
        val = av if direct else ('variant', 'core::option::Option::Some', [('tuple', [('any',), av])])
        i, arm = H.first_matching_arm(ms[0], val)
        cx.require(i is not None, 'arm for %s not decidable: %s' % (assoc, arm))
        body = H.peel(arm['body'])
        if direct:
            rhs = body
        else:
            cx.require(body.get('k') == 'tup' and len(body['a']) == 2, 'unexpected arm body shape in parse_tree')
            rhs = H.peel(body['a'][1])
        cx.site('parse_tree: %s => rhs precedence %s' % (assoc, 'precedence + 1' if rhs.get('k') == 'binary' else rhs.get('name')))
        cx.cellcount(1)
        if want == 'plus1':
            ok = rhs.get('k') == 'binary' and rhs.get('op') == '+' and H.peel(rhs['a']).get('name') == 'precedence' and H.lit_value(rhs['b']) == 1
        else:
            ok = rhs.get('k') == 'local' and rhs.get('name') == 'precedence'
        if not ok:
            cx.violation('yash_arith::ast::parse_tree', 'rhs-precedence:%s' % assoc,
                         '%s-associative operators must parse their right operand at %s' % (assoc, 'precedence + 1' if want == 'plus1' else 'the same precedence'),
                         loc='%s:%s' % (pt['file'], arm['line']))
    rec = [c for c in H.calls(pt['body'], 'yash_arith::ast::parse_tree')]
    cx.require(len(rec) == 2, 'expected two recursive parse_tree calls (then / else branch)')
    a_then, a_else = H.peel(rec[0]['a'][1]), H.peel(rec[1]['a'][1])
    cx.site('parse_tree: then-branch at %s, else-branch at %s' % (H.lit_value(a_then), a_else.get('name')))
    ptab, _m = H.fn_match_table(F, _fn(F, '<impl yash_arith::token::Operator>::precedence'), OP)
    lowest = min(H.lit_value(ptab[x][1]) for c in C_CLASSES for x in c if x in ptab)
    if H.lit_value(a_then) != lowest:
        cx.violation('yash_arith::ast::parse_tree', 'then-precedence', 'the middle operand of ?: is a full expression (lowest precedence)',
                     loc='%s:%s' % (pt['file'], rec[0]['line']))
    if a_else.get('name') != 'precedence':
        cx.violation('yash_arith::ast::parse_tree', 'else-precedence', '?: is right-associative: the else operand must be parsed at the '
                     "operator's own precedence", loc='%s:%s' % (pt['file'], rec[1]['line']))


LEXEMES = {'Question': '?', 'Colon': ':', 'BarEqual': '|=', 'BarBar': '||', 'Bar': '|', 'CaretEqual': '^=', 'Caret': '^',
           'AndEqual': '&=', 'AndAnd': '&&', 'And': '&', 'EqualEqual': '==', 'Equal': '=', 'BangEqual': '!=',
           'LessEqual': '<=', 'LessLessEqual': '<<=', 'LessLess': '<<', 'Less': '<', 'GreaterEqual': '>=',
           'GreaterGreaterEqual': '>>=', 'GreaterGreater': '>>', 'Greater': '>', 'PlusEqual': '+=', 'PlusPlus': '++',
           'Plus': '+', 'MinusEqual': '-=', 'MinusMinus': '--', 'Minus': '-', 'AsteriskEqual': '*=', 'Asterisk': '*',
           'SlashEqual': '/=', 'Slash': '/', 'PercentEqual': '%=', 'Percent': '%', 'Tilde': '~', 'Bang': '!',
           'OpenParen': '(', 'CloseParen': ')'}


@RS.rule('C03.R4', 'K-CONST', 'OPERATORS covers every operator once, spells it as in C, and no entry is shadowed by an earlier prefix')
def r4(cx):
    F = cx.F
    h = F.hir_of('yash_arith::token::OPERATORS')
    cx.fn('yash_arith::token::OPERATORS')
    tbl = H.const_eval(h['body'])
    cx.require(isinstance(tbl, list) and len(tbl) >= 30, 'OPERATORS is not an array literal')
    loc = '%s:%d' % (h['file'], h['line'])
    seen = {}
    entries = []
    for lex, op in tbl:
        name = H.short(op[1])
        entries.append((lex, name))
        cx.cellcount(1)
        if name in seen:
            cx.violation('yash_arith::token::OPERATORS', 'duplicate:%s' % name, 'operator %s listed twice' % name, loc=loc)
        seen[name] = lex
        if LEXEMES.get(name) != lex:
            cx.violation('yash_arith::token::OPERATORS', 'lexeme:%s' % name, 'operator %s is spelled %r, C spells it %r' % (name, lex, LEXEMES.get(name)), loc=loc)
    for v in H.enum_variants(F, OP):
        if H.short(v) not in seen:
            cx.violation('yash_arith::token::OPERATORS', 'missing:%s' % H.short(v), 'operator %s has no lexeme in the tokenizer table' % H.short(v), loc=loc)
    for i, (li, ni) in enumerate(entries):
        for j in range(i + 1, len(entries)):
            lj, nj = entries[j]
            if lj.startswith(li) and lj != li:
                cx.violation('yash_arith::token::OPERATORS', 'shadowed:%s' % nj, '%r (%s) can never match: the shorter %r (%s) appears earlier and '
                             'the tokenizer takes the first hit' % (lj, nj, li, ni), loc=loc)
    cx.sample({'entries': entries[:6]})
    # the tokenizer really is first-hit over this table
    nt = [k for k in F.bodies if k.startswith('yash_arith::token::Tokens::<\'a>::next_token') or k.startswith("yash_arith::token::Tokens::<'_>::next_token")]
    cx.require(nt, 'Tokens::next_token not found')
    uses = 0
    for k in nt:
        b = F.bodies[k]
        for i, j, s in b.stmts():
            if s['k'] == 'assign':
                for o in Q.rvalue_operands(s['rv']):
                    if o.get('cdef') == 'yash_arith::token::OPERATORS':
                        uses += 1
        for i, t in b.calls():
            for o in t['a']:
                if o.get('cdef') == 'yash_arith::token::OPERATORS':
                    uses += 1
        if Q.find_calls(b, [re.compile(r'Iterator.*::find$'), '*::Iterator::find']):
            cx.site('%s: first-hit search (Iterator::find)' % k)
        if Q.find_calls(b, [re.compile(r'Iterator.*::(rfind|max_by_key|max_by|min_by_key|last|rev)$')]):
            cx.violation(k, 'not-first-hit', 'the tokenizer no longer takes the FIRST entry of OPERATORS that matches (the table is ordered '
                         'for first-hit search)', loc=b.loc(b.d))
    cx.require(uses >= 1, 'next_token does not read OPERATORS')


@RS.rule('C03.R5', 'K-TABLE+K-SIBLING', 'compound assignments share the arm of their base operator; apply_binary partitions the operators')
def r5(cx):
    F = cx.F
    fn = EVAL + 'binary_result'
    cx.fn(fn)
    table, m = H.fn_match_table(F, fn, BOP)
    loc = '%s:%d' % (F.hir[fn]['file'], F.hir[fn]['line'])
    for v, (i, body) in table.items():
        cx.cellcount(1)
        if v.endswith('Assign') and v != 'Assign':
            base = v[:-len('Assign')]
            if table[base][0] != i:
                cx.violation(fn, 'arm:%s' % v, '%s must compute the same result as %s (they are different arms)' % (v, base), loc=loc)
    # method used per arm
    want = {'Add': 'checked_add', 'Subtract': 'checked_sub', 'Multiply': 'checked_mul', 'Divide': 'checked_div',
            'Remainder': 'checked_rem', 'ShiftLeft': 'checked_shl', 'ShiftRight': 'checked_shr'}
    def arm_callees(node):
        """Short names of the callees in an arm, following yash_arith helpers one level (extracting an arm into a helper
        function is a behaviour-preserving refactoring)."""
        out = []
        for c in H.calls(node):
            d = c.get('def') or c.get('decl') or ''
            out.append(H.short(d))
            if d.startswith('yash_arith::') and d in F.hir and d not in (EVAL + 'unwrap_or_overflow',):
                out.extend(H.short(c2.get('def') or c2.get('decl') or '') for c2 in H.calls(F.hir[d]['body']))
        return out
    for v, meth in want.items():
        i, body = table[v]
        names = arm_callees(body)
        cx.site('binary_result: %s -> %s' % (v, [n for n in names if n.startswith('checked_')]))
        if meth not in names:
            cx.violation(fn, 'method:%s' % v, '%s must be computed with i64::%s' % (v, meth), loc=loc)
    for v in ('Divide', 'Remainder'):
        i, body = table[v]
        names = arm_callees(body)
        if 'require_non_zero' not in names:
            cx.violation(fn, 'no-zero-check:%s' % v, '%s does not test the divisor for zero' % v, loc=loc)
    for v in ('ShiftLeft', 'ShiftRight'):
        i, body = table[v]
        names = arm_callees(body)
        if 'require_non_negative' not in names:
            cx.violation(fn, 'no-count-check:%s' % v, '%s does not reject negative or oversize shift counts' % v, loc=loc)
    # bit operators / comparisons: the HIR operator of each arm
    ops = {'BitwiseOr': '|', 'BitwiseXor': '^', 'BitwiseAnd': '&', 'EqualTo': '==', 'NotEqualTo': '!=', 'LessThan': '<',
           'GreaterThan': '>', 'LessThanOrEqualTo': '<=', 'GreaterThanOrEqualTo': '>='}
    for v, op in ops.items():
        i, body = table[v]
        bins = [x for x in H.walk(body) if x.get('k') == 'binary']
        cx.cellcount(1)
        if not (len(bins) == 1 and bins[0]['op'] == op and H.peel(bins[0]['a']).get('name') == 'lhs' and H.peel(bins[0]['b']).get('name') == 'rhs'):
            cx.violation(fn, 'operator:%s' % v, '%s must be lhs %s rhs' % (v, op), loc=loc)
    # apply_binary partition: decided per operator on the (inlined) MIR, so that the shape of the dispatch is free
    # (one match, matches! + if, an extracted helper): which of assign / binary_result / expand_variable can be reached when
    # every test of `operator` takes the edge of that operator
    fn2 = EVAL + 'apply_binary'
    cx.fn(fn2)
    from facts import same_module_private
    _acc = same_module_private(F, fn2)
    keep = {EVAL + n for n in ('assign', 'binary_result', 'expand_variable', 'require_variable', 'into_value', 'unwrap_or_overflow')}
    body2 = F.inlined(fn2, accept=lambda c: c not in keep and _acc(c))
    du2 = Q.DefUse(body2)
    loc2 = '%s:%d' % (F.hir[fn2]['file'], F.hir[fn2]['line'])
    variants = [v.split('::')[-1] for v in H.enum_variants(F, BOP)]
    op_switches = {}
    for u in sorted(body2.live_blocks()):
        ec = Q.edge_condition(F, body2, du2, u)
        if ec and ec[0]['k'] == 'discr' and 'BinaryOperator' in (ec[0].get('ty') or ''):
            op_switches[u] = ec[1]
    cx.require(op_switches, 'apply_binary no longer dispatches on the BinaryOperator')
    # `operator == Assign` / `operator != Assign` (possibly materialised: `let is_compound = operator != Assign; if is_compound`)
    # is a test of the operator too: for a given operator its truth is known, so only the matching edge is followed
    op_tests = {}
    for u in sorted(body2.live_blocks()):
        ec = Q.edge_condition(F, body2, du2, u)
        if not ec or u in op_switches:
            continue
        org, flip = ec[0], False
        for _ in range(3):
            if org.get('k') == 'unop' and org['rv'].get('op') == 'Not':
                org, flip = du2.origin(org['rv']['o']), not flip
        if org.get('k') != 'call' or not Q.callee_is(org['t'], [re.compile(r'PartialEq.*::(eq|ne)$')]) or len(org['t']['a']) != 2 or \
                not all(x.lstrip('&').strip().endswith('ast::BinaryOperator') for x in org['t'].get('at', ['?'])):
            continue
        consts = []
        for a in org['t']['a']:
            o = du2.origin(a)
            if o.get('k') == 'ref':
                o = du2.origin_place(o['pl'])
            if o.get('k') == 'agg' and o['rv'].get('ak') == 'adt' and (o['rv'].get('adt') or '').endswith('ast::BinaryOperator'):
                consts.append(o['rv']['variant'])
            elif o.get('k') == 'const' and re.search(r'BinaryOperator::(\w+)', str(o['o'].get('c') or '')):
                consts.append(re.search(r'BinaryOperator::(\w+)', str(o['o'].get('c'))).group(1))
            else:
                consts.append(None)
        if sum(1 for c in consts if c is not None) != 1:
            continue
        is_eq = Q.callee_is(org['t'], [re.compile(r'PartialEq.*::eq$')])
        op_tests[u] = ([c for c in consts if c is not None][0], is_eq != flip, ec[1])
        cx.site('apply_binary: test operator %s %s at %s' % ('==' if is_eq != flip else '!=', op_tests[u][0], body2.loc(body2.term(u))))

    def blocks_calling(name):
        out = {blk for blk, t in body2.calls() if pp.callee(t) == EVAL + name}
        # a closure created here (e.g. the argument of Result::and_then) that makes the call counts for the block creating it
        for blk, j, st in body2.stmts():
            if st['k'] == 'assign' and st['rv']['k'] == 'agg' and st['rv'].get('ak') == 'closure':
                cb = F.bodies.get(st['rv'].get('def') or '')
                if cb is not None and any(pp.callee(t) == EVAL + name for _, t in cb.calls()):
                    out.add(blk)
        return out
    targets = {'assign': blocks_calling('assign'), 'binary_result': blocks_calling('binary_result'), 'expand_variable': blocks_calling('expand_variable')}
    cx.require(targets['assign'] and targets['binary_result'], 'apply_binary no longer calls assign / binary_result (after inlining its helpers)')
    for v in variants:
        removed = set()
        for u, labels in op_switches.items():
            for tgt, labs in labels.items():
                if ('variant', v) not in labs:
                    removed.add((u, tgt))
        for u, (cst, is_eq, labels) in op_tests.items():
            for tgt, labs in labels.items():
                if ('bool', (v == cst) == is_eq) not in labs:
                    removed.add((u, tgt))
        got = tuple(bool(tg) and Q.shortest_path_flags(F, body2, du2, 0, tg, removed_edges=removed) is not None
                    for tg in (targets['assign'], targets['binary_result'], targets['expand_variable']))
        cx.cellcount(1)
        if v == 'Assign':
            want = (True, False, False)
        elif v.endswith('Assign'):
            want = (True, True, True)
        else:
            want = (False, True, False)
        if got != want:
            assigns, computes, reads = got
            cx.violation(fn2, 'class:%s' % v, '%s is handled by an arm that %s assign / %s compute / %s re-read the variable'
                         % (v, 'does' if assigns else 'does not', 'does' if computes else 'does not', 'does' if reads else 'does not'), loc=loc2)


@RS.rule('C03.R6', 'K-GUARD', 'short circuit: the right operand of || and &&, and the unselected branch of ?:, are not evaluated')
def r6(cx):
    F = cx.F
    # private helpers of the module are analysed in place (`eval_short_circuit(children, rhs_len, operator, ..)` holding the
    # || and && arms is the same evaluator); eval itself is recursive and public, so its recursive calls stay calls
    from facts import same_module_private
    _acc = same_module_private(F, EVAL + 'eval')
    body = F.inlined(F.body(EVAL + 'eval'), accept=lambda c: _acc(c) and c in F.bodies and bool(Q.find_calls(F.bodies[c], [EVAL + 'eval'])))
    cx.fn(body.fn)
    for h in getattr(body, 'inlined_from', None) or []:
        cx.fn(h)
    du = Q.DefUse(body)
    rec = [(b, t) for b, t in Q.find_calls(body, [EVAL + 'eval'])]
    by_arg = {}
    for b, t in rec:
        nm = Q.operand_name(body, du, t['a'][0])
        by_arg.setdefault(nm, []).append((b, t))
        cx.site('eval: recursive eval(%s) at %s' % (nm, body.loc(t)))
    cx.require('rhs_ast' in by_arg and 'lhs_ast' in by_arg and 'result_ast' in by_arg, 'recursive calls of eval not recognised: %s' % list(by_arg))
    ne = [re.compile(r'PartialEq.*::ne$')]
    eq = [re.compile(r'PartialEq.*::eq$')]

    # The clause is decided per operator, on the CFG restricted to the edges that operator takes at every test of a
    # BinaryOperator (match arm patterns of eval, `match operator {..}` / `operator == ..` inside a helper): the shape of the
    # dispatch (one arm per operator, a merged arm with a materialised `decided` flag, an extracted helper) is free.
    op_switches, op_tests = _operator_tests(F, body, du)
    cx.require(op_switches, 'eval no longer dispatches on the BinaryOperator')

    def is_op_test(t):
        return len(t['a']) == 2 and all(x.lstrip('&').strip().endswith('ast::BinaryOperator') for x in t.get('at', ['?']))

    def op_truth(org, op, live, depth=6):
        """Truth, for the operator `op`, of a bool that is a test of the operator against a constant variant
        (`*operator == BinaryOperator::LogicalOr`, possibly negated / copied through bool locals: `let is_or = ..`);
        None if the value is not such a test."""
        flip = False
        while depth > 0:
            depth -= 1
            if org.get('k') == 'unop' and org['rv'].get('op') == 'Not':
                org, flip = du.origin(org['rv']['o']), not flip
                continue
            if org.get('k') == 'call':
                t = org['t']
                if not Q.callee_is(t, ne + eq) or not is_op_test(t):
                    return None
                consts = [c for c in (_binop_const_variant(du, a) for a in t['a']) if c is not None]
                if len(consts) != 1:
                    return None
                return (((op == consts[0]) == bool(Q.callee_is(t, eq))) != flip)
            if org.get('k') == 'place' and not org['pl'].get('p') and body.locals[org['pl']['l']]['ty'] == 'bool':
                defs = [d for d in du.defs.get(org['pl']['l'], []) if d[0] in live]
                if len(defs) != 1:
                    return None
                blk, idx, node = defs[0]
                if idx == 't':
                    org = {'k': 'call', 't': node, 'b': blk}
                elif node['k'] == 'assign' and node['rv']['k'] == 'use' and ('cp' in node['rv']['o'] or 'mv' in node['rv']['o']):
                    org = du.origin(node['rv']['o'])
                elif node['k'] == 'assign' and node['rv']['k'] == 'unop' and node['rv'].get('op') == 'Not':
                    org, flip = du.origin(node['rv']['o']), not flip
                else:
                    return None
                continue
            return None
        return None

    switches = {}
    for u in sorted(body.live_blocks()):
        ec = Q.edge_condition(F, body, du, u)
        if ec is not None:
            switches[u] = ec

    def lhs_is_zero_on(org, lab, live, op, depth=6):
        """Truth of `lhs == 0` implied by a test (origin, label) of lhs against Value::Integer(0), possibly negated and/or
        materialised in bool locals (`let t = lhs != 0; let decided = match operator { Or => t, _ => !t }; if !decided`):
        a bool local is followed through its only definition that is live for the operator under analysis. None if the
        test is not such a test."""
        while depth > 0:
            depth -= 1
            org, lab = Q.peel_not(du, org, lab)
            if not lab or lab[0] != 'bool':
                return None
            if org['k'] == 'call':
                if not Q.callee_is(org['t'], ne + eq) or is_op_test(org['t']):
                    return None
                return (not lab[1]) if Q.callee_is(org['t'], ne) else lab[1]
            if org['k'] == 'binop' and org['rv'].get('op') in ('Ne', 'Eq', 'BitXor'):
                # `lhs_is_true != is_or` / `lhs_is_zero == is_or`: a comparison of two bools of which one is a test of the
                # operator; for the operator under analysis that side is a known constant, and the comparison is a test of the
                # other side
                sides = [du.origin(org['rv']['a']), du.origin(org['rv']['b'])]
                known = [op_truth(x, op, live) for x in sides]
                if sum(1 for k in known if k is not None) != 1:
                    return None
                kt = known[0] if known[0] is not None else known[1]
                other = sides[1] if known[0] is not None else sides[0]
                same = lab[1] if org['rv']['op'] == 'Eq' else (not lab[1])
                org, lab = other, ('bool', kt if same else (not kt))
                continue
            if org['k'] != 'place' or org['pl'].get('p') or body.locals[org['pl']['l']]['ty'] != 'bool':
                return None
            defs = [d for d in du.defs.get(org['pl']['l'], []) if d[0] in live]
            if len(defs) != 1:
                return None
            blk, idx, node = defs[0]
            if idx == 't':
                org = {'k': 'call', 't': node, 'b': blk}
            elif node['k'] == 'assign' and node['rv']['k'] == 'use':
                o = node['rv']['o']
                if 'cp' not in o and 'mv' not in o:
                    return None
                org = du.origin(o)
            elif node['k'] == 'assign' and node['rv']['k'] == 'unop' and node['rv'].get('op') == 'Not':
                org, lab = du.origin(node['rv']['o']), ('bool', not lab[1])
            else:
                return None
        return None

    guarded = {}
    for op in ('LogicalOr', 'LogicalAnd'):
        removed = _edges_not_taken_by(op, op_switches, op_tests)
        live = body.reachable(0, removed_edges=removed)
        verdicts = []
        for b, t in by_arg['rhs_ast']:
            if b not in live:
                continue
            zs = []
            for u, (org, labels) in sorted(switches.items()):
                if u not in live:
                    continue
                for tgt, labs in labels.items():
                    if (u, tgt) in removed or b in body.reachable(0, removed_edges=removed | {(u, tgt)}):
                        continue
                    for lab in labs:
                        z = lhs_is_zero_on(org, lab, live, op)
                        if z is not None:
                            zs.append(z)
            cx.site('eval: eval(rhs_ast) at %s is reached for %s with lhs %s' % (body.loc(t), op, {True: '== 0', False: '!= 0'}.get(zs[-1]) if zs else 'untested'))
            verdicts.append(zs[-1] if zs and len(set(zs)) == 1 else (None if not zs else 'both'))
        if verdicts:
            guarded[op] = verdicts
    for op, want_zero, sym in (('LogicalOr', True, '||'), ('LogicalAnd', False, '&&')):
        if op not in guarded:
            cx.violation(body.fn, 'short-circuit-missing:%s' % op, 'no dedicated evaluation of the right operand of %s was found' % sym, loc=body.loc(body.d))
        elif any(v is None for v in guarded[op]):
            cx.violation(body.fn, 'short-circuit-missing:%s' % op, 'the right operand of %s is evaluated without a test of the left value' % sym,
                         loc=body.loc(body.d))
        elif any(v != want_zero for v in guarded[op]):
            cx.violation(body.fn, 'short-circuit-polarity:%s' % op, 'the right operand of %s is evaluated on the edge where the result is already '
                         'decided (lhs %s 0)' % (sym, '!=' if want_zero else '=='), loc=body.loc(body.d))
    # the early returns construct the constants 1 (for ||) and 0 (for &&)
    # ?: evaluates exactly one branch: a single eval(result_ast) whose argument is selected by a switch
    if len(by_arg['result_ast']) != 1 or 'then_ast' in by_arg or 'else_ast' in by_arg:
        cx.violation(body.fn, 'conditional-both', '?: must evaluate exactly one of its branches', loc=body.loc(body.d))
    # result_ast is assigned then_ast on the (condition != 0) edge and else_ast on the other
    assigns = [(b, j, s) for b, j, s in body.stmts() if s['k'] == 'assign' and body.locals[s['lhs']['l']].get('name') == 'result_ast'
               and not s['lhs'].get('p')]
    got = {}
    for b, j, s in assigns:
        rv = s['rv']
        src = Q.operand_name(body, du, rv['o']) if rv['k'] == 'use' else (
            Q.operand_name(body, du, {'cp': rv['pl']}) if rv['k'] == 'ref' else None)
        conds = Q.dominating_conditions(F, body, du, b)
        tests = [(org, lab) for org, lab, e in conds if org['k'] == 'call' and Q.callee_is(org['t'], ne + eq)]
        if tests:
            org, lab = tests[-1]
            truth = lab[1] if Q.callee_is(org['t'], ne) else (not lab[1])
            got[src] = truth
        cx.site('eval: result_ast = %s at %s' % (src, body.loc(s)))
    if got != {'then_ast': True, 'else_ast': False}:
        cx.violation(body.fn, 'conditional-selection', '?: must select then_ast iff the condition is non-zero (found %s)' % got,
                     loc=body.loc(body.d))


PARSERS = [re.compile(r'^core::num::<impl [iu](64|128)>::from_str_radix$'), re.compile(r'^<[iu](64|128) as core::str::traits::FromStr>::from_str$'),
           re.compile(r'^core::num::<impl [iu](64|128)>::from_ascii')]
THE_PARSER = 'yash_arith::token::parse_integer_constant'


@RS.rule('C03.R7', 'K-CALLERS', 'integer constants are parsed by one routine for expression text and for variable values')
def r7(cx):
    F = cx.F
    users = {}
    for body in F.bodies_in(['yash_arith::']):
        for b, t in body.calls():
            hit = any(p.search(n) for n in Q.callee_names(t) for p in PARSERS)
            if not hit and Q.callee_is(t, ['core::str::<impl str>::parse']) and re.search(r'\b[iu](64|128)\b', t['f'].get('ga') or ''):
                hit = True
            if hit:
                users.setdefault(body.root, []).append((body, t))
                cx.site('%s: %s [%s] at %s' % (body.root, pp.callee(t), t['f'].get('ga'), body.loc(t)))
    cx.require(users, 'no text -> i64 conversion found in yash-arith')
    radix_aware = {r for r, lst in users.items() if any(Q.callee_is(t, [PARSERS[0]]) for _, t in lst)}
    cx.require(radix_aware, 'no radix-aware integer parser found')
    for r, lst in users.items():
        if r not in radix_aware:
            b, t = lst[0]
            cx.violation(r, 'decimal-only-parser', 'text is converted to an integer here without the radix-aware constant parser '
                         '(%s): a variable holding 010 or 0x10 denotes a different value than the same constant '
                         'written in the expression' % sorted(radix_aware), loc=b.loc(t))
    for r in sorted(radix_aware):
        if r != THE_PARSER:
            b, t = users[r][0]
            cx.violation(r, 'second-parser', 'a radix-aware conversion outside %s: constants and variable values must share '
                         'one parser' % THE_PARSER, loc=b.loc(t))
    # both consumers use it
    for consumer in ("yash_arith::token::Tokens::<'a>::next_token", 'yash_arith::eval::expand_variable'):
        bodies = F.logical(consumer)
        direct = [(b, t) for b in bodies for blk, t in Q.find_calls(b, [THE_PARSER])]
        # one level of helper (parse_variable_value) is followed
        via = []
        if not direct:
            for b in bodies:
                for blk, t in b.calls():
                    for n in Q.callee_names(t):
                        if n.startswith('yash_arith::') and n in F.bodies and Q.find_calls(F.bodies[n], [THE_PARSER]):
                            via.append((b, t))
        cx.site('%s reaches %s: %s' % (consumer, THE_PARSER, 'directly' if direct else ('via helper' if via else 'NO')))
        if not direct and not via:
            cx.violation(consumer, 'does-not-use-the-parser', '%s does not obtain integers from %s' % (consumer, THE_PARSER),
                         loc=bodies[0].loc(bodies[0].d))
    # radix selection inside the parser: 0x/0X -> 16, leading 0 -> 8, else 10
    pb = F.body(THE_PARSER)
    cx.fn(THE_PARSER)
    h = F.hir_of(THE_PARSER)
    lits = sorted({x.get('v') for x in H.walk(h['body']) if x.get('k') == 'lit' and x.get('t') in ('str', 'char', 'int')}, key=str)
    cx.site('%s literals: %s' % (THE_PARSER, lits))
    for need in ('0X', '0x', '0', 16, 8, 10):
        if need not in lits:
            cx.violation(THE_PARSER, 'radix-literal:%s' % need, 'the constant parser no longer mentions %r (hexadecimal 0x/0X, octal 0, decimal)' % (need,),
                         loc='%s:%d' % (h['file'], h['line']))


# reviewed panic-capable constructs: (function, kind) -> (max count, reason)
PANIC_OK = {
    ('yash_arith::ast::parse_binary_rhs', 'assert:Overflow(Sub)'): (1, 'result.len() - old_len: the vector only grows between the two reads'),
    ('yash_arith::ast::parse_postfix', 'call:Result::unwrap'): (1, 'tokens.next().unwrap() directly follows peek() matching Ok(..)'),
    ('yash_arith::ast::parse_tree', 'assert:Overflow(Add)'): (1, 'precedence + 1 on u8: precedence <= 13 by the table checked in R2'),
    ('yash_arith::ast::parse_tree', 'assert:Overflow(Sub)'): (2, 'differences of vector lengths read in increasing order'),
    ('yash_arith::ast::parse_tree', 'call:Result::unwrap'): (1, 'tokens.next().unwrap() directly follows peek() matching Ok(..)'),
    ('yash_arith::eval::binary_result::{closure#0}', 'assert:Overflow(Shr)'): (1, 'rhs < 64 because checked_shl(rhs) returned Some (see R1 allow-list)'),
    ('yash_arith::eval::eval', 'call:Option::expect'): (1, 'documented precondition: ast non-empty; parse() never returns an empty vector'),
    ('yash_arith::eval::eval', 'index:split_at'): (5, 'operand lengths recorded by the parser are lengths of sub-vectors it pushed'),
    ("yash_arith::token::Tokens::<'a>::next_token", 'assert:Overflow(Add)'): (3, 'byte offsets within the source string'),
    ("yash_arith::token::Tokens::<'a>::next_token", 'assert:Overflow(Sub)'): (2, 'lengths of a string and of its own suffix'),
    ("yash_arith::token::Tokens::<'a>::next_token", 'index:index'): (2, 'self.index and token_len are sums of char lengths from the same string (char boundaries)'),
}


def _is_split_offset(body, t):
    """The checked subtraction asserted by `t` is `<slice>.len() - n` and its difference is the `mid` argument of a split_at
    call (and nothing else but that flows from it)."""
    pl = Q.operand_place(t['cond'])
    if pl is None:
        return False
    du = Q.DefUse(body)
    d = du.single_def(pl['l'])
    if d is None or d[1] == 't' or d[2]['k'] != 'assign' or d[2]['rv']['k'] != 'binop' or d[2]['rv'].get('op') != 'SubWithOverflow':
        return False
    ops = Q.rvalue_operands(d[2]['rv'])
    src = du.origin(ops[0]) if ops else {'k': '?'}
    if src.get('k') != 'call' or not Q.callee_is(src['t'], ['core::slice::<impl [T]>::len']):
        return False
    taint = Q.forward_taint(body, {pl['l']}, through_calls=[])
    users = [(b, c) for b, c in body.calls() if any((Q.operand_place(a) or {}).get('l') in taint for a in c['a'])]
    return bool(users) and all(pp.callee(c).endswith('::split_at') and len(c['a']) == 2 and
                               (Q.operand_place(c['a'][1]) or {}).get('l') in taint and
                               (Q.operand_place(c['a'][0]) or {}).get('l') not in taint for b, c in users)


def _review_owner(F, fn, depth=2):
    """The reviewed function a panic site in `fn` belongs to: `fn` itself, or - for a non-public function of the same module
    whose every caller lies in ONE other function - that caller (followed `depth` levels): a block of a reviewed function
    extracted into a private helper keeps the review of the function, and its sites count against the reviewed number."""
    root = F.bodies[fn].root if fn in F.bodies else fn
    reviewed = {k[0].split('::{closure')[0] for k in PANIC_OK}
    while depth > 0 and root not in reviewed:
        depth -= 1
        sig = F.fns.get(root)
        if sig is None or sig.get('vis') == 'pub':
            break
        callers = {b.root for b, blk, t in F.callers_of(lambda names, t: root in names) if b.root != root}
        if len(callers) != 1:
            break
        caller = next(iter(callers))
        if caller.rsplit('::', 1)[0] != root.rsplit('::', 1)[0]:
            break
        root = caller
    return root if root in reviewed else None


def _panic_sites(F):
    out = {}
    for body in F.bodies_in(['yash_arith::']):
        for b in sorted(body.live_blocks()):
            t = body.term(b)
            kind = None
            if t['k'] == 'assert':
                kind = 'assert:' + t['msg']
                if t['msg'] == 'Overflow(Sub)' and _is_split_offset(body, t):
                    # `xs.split_at(xs.len() - n)`: the subtraction underflows exactly when n > xs.len(), which is the
                    # claim reviewed for the split_at site it feeds (counted below). With `n: &usize` the same
                    # subtraction is a call of <usize as Sub<&usize>>::sub and never was a separate site.
                    continue
            elif t['k'] == 'call':
                for n in Q.callee_names(t):
                    m = re.search(r'(Option|Result)::<.*?>::(unwrap|expect|unwrap_err|expect_err)$', n)
                    if m:
                        kind = 'call:%s::%s' % (m.group(1), m.group(2))
                    elif re.search(r'^core::panicking::|^std::rt::(begin_panic|panic_fmt)|panic_fmt$|^core::str::slice_error_fail', n):
                        kind = 'panic:' + n.split('::')[-1]
                    elif re.search(r'ops::Index.*::index(_mut)?$', n) or n.endswith('::split_at') or n.endswith('::split_last'):
                        if n.endswith('::split_last'):
                            continue
                        kind = 'index:' + n.split('::')[-1]
            if kind:
                out.setdefault((body.fn, kind), []).append(body.loc(t))
    return out


@RS.rule('C03.R8', 'K-EFFECT', 'panic-capable constructs in yash-arith are exactly the reviewed inventory')
def r8(cx):
    F = cx.F
    sites = _panic_sites(F)
    for (fn, kind), locs in sorted(sites.items()):
        cx.site('%s: %s x%d' % (fn, kind, len(locs)))
        cx.fn(fn)
        ok = PANIC_OK.get((fn, kind))
        if ok is None:
            # a construct moved verbatim into a helper nested in the reviewed function keeps its review
            for (rfn, rkind), val in PANIC_OK.items():
                base = rfn.split('::{closure')[0]
                if rkind == kind and fn.startswith(base + '::'):
                    ok = val
        if ok is None:
            # ... and so does one moved into a private helper of the module that only the reviewed function calls; the sites
            # of the helper and of the function together must not exceed the reviewed number
            owner = _review_owner(F, fn)
            if owner is not None and owner != fn and (owner, kind) in PANIC_OK:
                ok = PANIC_OK[(owner, kind)]
                locs = sorted(set(locs + sites.get((owner, kind), []) +
                                  [l for (f2, k2), ls in sites.items() if k2 == kind and f2 not in (fn, owner) and (f2, kind) not in PANIC_OK
                                   and _review_owner(F, f2) == owner for l in ls]))
                cx.site('%s: %s counted with the reviewed sites of %s (private helper called from there only): %d in total'
                        % (fn, kind, owner, len(locs)))
        if ok is None:
            cx.violation(fn, 'panic-site:%s' % kind, 'unreviewed panic-capable construct %s (%d site(s))' % (kind, len(locs)), loc=locs[0])
        elif len(locs) > ok[0]:
            cx.violation(fn, 'panic-site-count:%s' % kind, '%d sites of %s, %d reviewed (%s)' % (len(locs), kind, ok[0], ok[1]), loc=locs[-1])
    cx.floor(len(sites), 5, 'panic-capable constructs')


MULTI_STRIP = re.compile(r'^core::str::<impl str>::(trim|trim_start|trim_end|trim_matches|trim_start_matches|trim_end_matches|'
                         r'trim_left|trim_right|trim_left_matches|trim_right_matches|replace|replacen|split_whitespace|'
                         r'trim_ascii|trim_ascii_start|trim_ascii_end)$')
VALUE_PATH = ['yash_arith::eval::expand_variable', 'yash_arith::eval::parse_variable_value', THE_PARSER]


@RS.rule('C03.R7b', 'K-CALLERS', 'a variable value is read as ONE optionally signed constant: nothing is trimmed or stripped repeatedly')
def r7b(cx):
    F = cx.F
    for root in VALUE_PATH:
        if root not in F.bodies:
            continue
        for body in F.logical(root):
            cx.fn(body.fn)
            n = 0
            for b, t in body.calls():
                names = Q.callee_names(t)
                if any(x.startswith('core::str::<impl str>::') for x in names):
                    n += 1
                    cx.site('%s: %s at %s' % (body.fn, pp.callee(t), body.loc(t)))
                if any(MULTI_STRIP.search(x) for x in names):
                    cx.violation(body.root, 'multi-strip:%s' % pp.callee(t).split('::')[-1],
                                 '%s removes an unbounded run of characters while converting a variable value: strings that are '
                                 'not integer constants (stacked signs such as --5, surrounding blanks) are then accepted and '
                                 '$((x)) no longer agrees with $(($x))' % pp.callee(t), loc=body.loc(t))
    cx.require(cx.sites, 'no string operation found on the variable-value path')


CHAR_ITER = re.compile(r'core::str::iter::(Chars|CharIndices)')
BYTE_SINKS = [re.compile(r'^core::str::traits::<impl core::ops::index::Index<I> for str>::index$'),
              re.compile(r'^core::str::<impl str>::(split_at|split_at_checked|get|get_unchecked|is_char_boundary|split_at_mut)$'),
              re.compile(r'^core::str::traits::<impl core::slice::index::SliceIndex<str> for .*>::(index|get)$')]


@RS.rule('C03.R9', 'K-TAINT', 'no character count is used as a byte offset into the expression text')
def r9(cx):
    F = cx.F
    n_counts = 0
    for body in F.bodies_in(['yash_arith::']):
        seeds = set()
        for b, t in body.calls():
            if Q.callee_is(t, ['core::iter::traits::iterator::Iterator::count', re.compile(r'Iterator>::count$')]) or \
                    Q.callee_is(t, ['core::str::iter::Chars::<\'a>::count', re.compile(r'::count$')]):
                selfty = (t['f'].get('self') or '') + ' ' + ' '.join(t.get('at', []))
                if CHAR_ITER.search(selfty):
                    seeds.add(t['dest']['l'])
                    n_counts += 1
                    cx.site('%s: character count at %s' % (body.fn, body.loc(t)))
        # byte-offset sinks are inspected in every body (also when there is no seed) so that the rule is not vacuous
        sinks = [(b, t) for b, t in body.calls() if any(p.search(n) for n in Q.callee_names(t) for p in BYTE_SINKS)]
        for b, t in sinks:
            cx.site('%s: byte-offset use %s at %s' % (body.fn, pp.callee(t), body.loc(t)))
        if not seeds:
            continue
        cx.fn(body.fn)
        tainted = Q.forward_taint(body, seeds, through_calls=[re.compile(r'core::ops::arith::(Add|Sub)'), re.compile(r'::min$|::max$')])
        for b, t in sinks:
            for a in t['a']:
                l = Q.operand_local(a)
                if l is not None and l in tainted:
                    cx.violation(body.fn, 'char-count-as-byte-offset:%s' % pp.callee(t).split('::')[-1],
                                 'a count of characters reaches a byte offset of the source text: any multi-byte character '
                                 '(é, ß, 日 - all accepted in identifiers) makes the slice land inside a UTF-8 sequence and panic, '
                                 'or splits a name in two', loc=body.loc(t))
        # ranges used as token locations
        for b, j, s in body.stmts():
            if s['k'] == 'assign' and s['rv']['k'] == 'agg' and 'Range' in (s['rv'].get('adt') or ''):
                for o in s['rv']['ops']:
                    l = Q.operand_local(o)
                    if l is not None and l in tainted:
                        cx.violation(body.fn, 'char-count-in-location', 'a count of characters is used in a byte range of the source text',
                                     loc=body.loc(s))


ARITH_EXPAND = 'yash_semantics::expansion::initial::arith::expand'
VAR_EXPAND = ['yash_env::variable::main::Variable::expand', 'yash_env::variable::quirk::expand']


@RS.rule('C03.R10', 'K-SIBLING', '$((x)) reads a variable through the same quirk-aware accessor as $x (Variable::expand), not the raw stored value')
def r10(cx):
    F = cx.F
    # reference sibling: parameter expansion
    ref = [b for k, b in F.bodies.items() if 'expansion::initial::param::resolve' in k and Q.find_calls(b, VAR_EXPAND)]
    cx.require(ref, 'parameter expansion no longer reads variables through Variable::expand (reference sibling moved?)')
    body = F.main_body(ARITH_EXPAND)
    cx.fn(body.fn)
    ev = Q.find_calls(body, ['yash_arith::eval_with_config', 'yash_arith::eval'])
    if not ev:
        # the evaluation was extracted into a helper of the same source file (R13 decides that expand passes through it)
        ev = [(blk, t) for r, lst in sorted(_Glue(F).direct.items()) if F.body(r).file == body.file for b, blk, t in lst]
    cx.require(len(ev) == 1, 'the call of yash_arith::eval(_with_config) was not found in arith::expand')
    envty = ev[0][1]['f'].get('rga') or ev[0][1]['f'].get('ga') or ''
    envty = envty.split(',')[0].strip() if '<' not in envty else envty
    roots = [k for k in F.by_root if k.endswith(' as yash_arith::env::Env>::get_variable') and k.startswith('<' + envty.split('<')[0])]
    cx.require(len(roots) == 1, 'get_variable of the arithmetic environment %s not found' % envty)
    # follow delegation to other Env impls of the same module
    seen, todo, aware, raw = set(), [roots[0]], False, []
    while todo:
        r = todo.pop()
        if r in seen:
            continue
        seen.add(r)
        for b in F.logical(r):
            cx.fn(b.fn)
            if Q.find_calls(b, VAR_EXPAND):
                aware = True
            raw += [(b, t) for _, t in Q.find_calls(b, ['yash_env::variable::VariableSet::get_scalar'])]
            for _, t in b.calls():
                n = pp.callee(t)
                if n.endswith(' as yash_arith::env::Env>::get_variable') and n.startswith('<yash_semantics::') and n in F.by_root:
                    todo.append(n)
                elif n in F.by_root and (F.fns.get(n) or {}).get('file') == b.file and ((F.fns.get(n) or {}).get('vis') or 'pub') != 'pub':
                    todo.append(n)          # a non-public helper of the adapter's source file (`fn computed(&self, name)`)
    cx.site('%s evaluates with %s; get_variable (%d impl(s) followed) uses Variable::expand: %s, raw get_scalar reads: %d; $x uses '
            'Variable::expand in %s' % (body.fn, envty, len(seen), aware, len(raw), ref[0].fn))
    if not aware:
        b0 = F.logical(roots[0])[0]
        cx.violation(roots[0], 'raw-variable-read', 'arithmetic expansion reads the stored value of a variable (VariableSet::get_scalar, which '
                     'applies no quirk) while $x goes through Variable::expand: for a variable whose value is computed on expansion '
                     '($LINENO) `$((LINENO))` is 0 and `$(($LINENO))` is the line number - they must agree', loc=b0.loc(raw[0][1]) if raw else b0.loc(b0.d))



@RS.rule('C03.R1b', 'K-PASS', 'left shift: i64::checked_shl only checks the shift count, so its result passes the overflow filter '
         '(sign and shifted-back comparison) before it is used')
def r1b(cx):
    F = cx.F
    n = 0
    for body in F.bodies_in(['yash_arith::eval::']):
        du = Q.DefUse(body)
        for b, t in Q.find_calls(body, ['core::num::<impl i64>::checked_shl']):
            n += 1
            cx.fn(body.fn)
            users = [(ub, ut) for ub, ut in body.calls() if ut is not t and any(
                Q.value_source(body, du, a) is t for a in ut['a'] if 'cp' in a or 'mv' in a)]
            filt = [(ub, ut) for ub, ut in users if Q.callee_is(ut, ['core::option::Option::<T>::filter'])]
            cx.site('%s: checked_shl at %s -> %s' % (body.fn, body.loc(t), [pp.callee(ut).split('::')[-1] for _, ut in users] or 'no adapter'))
            ok = bool(filt) and len(filt) == len(users)
            shr = False
            for ub, ut in filt:
                clo = du.origin(ut['a'][1])
                cb = F.bodies.get(clo['rv'].get('def')) if clo['k'] == 'agg' else None
                if cb is not None:
                    kinds = {s2['rv']['op'] for _, _, s2 in cb.stmts() if s2['k'] == 'assign' and s2['rv']['k'] == 'binop'}
                    # the filter compares the shifted-back result with the operand and tests the sign
                    if 'Shr' in kinds and ('Eq' in kinds or 'Ne' in kinds) and (kinds & {'Ge', 'Lt', 'Gt', 'Le'}):
                        shr = True
            if not (ok and shr):
                cx.violation(body.fn, 'shl-unfiltered', 'the result of i64::checked_shl is used without the overflow filter (result >= 0 and '
                             'result >> n == operand): checked_shl only rejects counts >= 64, so bits shifted into or beyond the sign bit '
                             '(`1<<63`, `3<<62`) yield a wrapped value instead of an overflow error', loc=body.loc(t))
    cx.require(n >= 1, 'no i64::checked_shl in yash_arith::eval (left shift implemented differently: review)')


# --- explanation addendum (generated catalogue in DESIGN.md reads RS.explanation)
RS.explanation += ' Added later: the result of checked_shl passes the sign/shift-back filter (R1b); no `as i64` cast from a wider or unsigned type and no wrapping/overflowing operation on any integer type in yash-arith (R1); arithmetic reads variables through the quirk-aware accessor used by $x (R10).'


@RS.rule('C03.R11', 'K-TABLE', 'only a variable term is assignable: every operator node of the evaluator (prefix, postfix, binary, ?:) yields a '
         'value, never the unevaluated variable of one of its operands')
def r11(cx):
    F = cx.F
    fn = EVAL + 'eval'
    h = F.hir_of(fn)
    cx.fn(fn)
    ms = [m for m in H.matches_in(h['body']) if 'ast::Ast' in (m.get('sty') or '')]
    cx.require(len(ms) >= 1, 'the match over Ast nodes in eval::eval was not found')
    m = ms[0]
    n = 0
    for arm in m['arms']:
        vs = H.pat_variants(arm['pat']) or []
        names = sorted({v.split('::')[-1] for v in vs})
        if not names or names == ['Term']:
            continue
        n += 1
        body = arm['body']
        # the value of the arm: tail expression of the block
        tail = H.peel(body)
        while tail.get('k') == 'block' and tail.get('e') is not None:
            tail = H.peel(tail['e'])
        passthrough = tail.get('k') == 'call' and (tail.get('def') or '') == fn
        wraps = any(re.search(r'Term(::<[^>]*>)?::Value\b', str(x.get('def') or '') + ' ' + str(x.get('ga') or '')) for x in H.walk(tail))
        cx.site('eval: %s => %s' % ('/'.join(names), 'the operand\'s own term (assignable)' if passthrough else ('Term::Value' if wraps else 'other')))
        cx.cellcount(1)
        if passthrough or not wraps:
            cx.violation(fn, 'operator-yields-lvalue:%s' % '/'.join(names), 'the %s node returns the term of the selected operand unevaluated, so an '
                         'assignment operator applied to it assigns the variable: `a=1 b=2; echo $((1 ? a : b = 9))` (in C: `(1 ? a : b) = 9`, '
                         'not an lvalue) sets a=9 and prints 9 instead of reporting "assignment to a non-variable"' % '/'.join(names),
                         loc='%s:%s' % (h['file'], tail.get('line') or h['line']))
    cx.floor(n, 4, 'operator arms of eval::eval')


# ---------------------------------------------------------------------------------------
# added after seed wave 3 (C03-s6: "nothing to write back" shortcut in compound assignment)
@RS.rule('C03.R12', 'K-PASS', 'every assignment operator assigns: once an operator has demanded a variable operand (=, op=, ++, --), every '
         'path that ends without an error writes the variable (x+=0 on an unset x defines it; y|=0 on y=010 normalises it; a read-only '
         'variable is refused) - no "value unchanged" shortcut')
def r12(cx):
    F = cx.F
    RV = EVAL + 'require_variable'
    ASSIGN = EVAL + 'assign'
    n = 0
    from facts import same_module_private
    for body0 in list(F.bodies.values()):
        if not body0.fn.startswith(EVAL) or '::tests' in body0.fn:
            continue
        if not Q.find_calls(body0, [RV]):
            continue
        # an extracted helper that does the assignment (apply_compound_assignment) is analysed in place
        _acc = same_module_private(F, body0.root)
        body = F.inlined(body0, accept=lambda c, _a=_acc: c not in (RV, ASSIGN) and _a(c))
        reqs = Q.find_calls(body, [RV])
        if not reqs:
            continue
        cx.fn(body.fn)
        writes = {blk for blk, t in Q.find_calls(body, [ASSIGN])}
        errs = {blk for blk, t in body.calls() if Q.callee_is(t, [re.compile(r'FromResidual<.*>>::from_residual$')])}
        errs |= {blk for blk, j, st in body.stmts() if st['k'] == 'assign' and st['rv']['k'] == 'agg'
                 and str(st['rv'].get('adt', '')).endswith('result::Result') and st['rv'].get('variant') in (1, 'Err')}
        for blk, t in reqs:
            n += 1
            p = body.shortest_path(blk, set(body.return_blocks()), removed=writes | errs)
            cx.site('%s: require_variable at %s: every error-free path assigns: %s' % (body.fn.split('::')[-1], body.loc(t), p is None))
            if p is not None:
                cx.violation(body.fn, 'assignment-operator-may-not-assign', 'an operator that demands a variable operand can finish without an '
                             'error and without assigning it: `unset x; echo $((x+=0)) ${x-unset}` must define x, `y=010; : $((y|=0))` must '
                             'store 8, and `readonly z=5; $((z*=1))` must fail - a shortcut that skips the write when the value looks '
                             'unchanged breaks all three', loc=body.loc(t), path=Q.render_path(body, p))
    cx.floor(n, 3, 'operators that demand a variable operand (=, op=, prefix and postfix ++/--)')


RS.explanation += ' Every operator that demands a variable operand assigns it on every error-free path (R12).'


# ---------------------------------------------------------------------------------------
# added after seed wave 4 (C03-s8: "plain decimal" fast path in front of the evaluator)
EVALS = ['yash_arith::eval_with_config', 'yash_arith::eval']
NUM_FROM_TEXT = [re.compile(r'^core::num::<impl ([iu](8|16|32|64|128|size))>::(from_str_radix|from_ascii\w*)$'),
                 re.compile(r'^<([iuf](8|16|32|64|128|size)) as core::str::traits::FromStr>::from_str$'),
                 re.compile(r'^core::num::dec2flt::<impl core::str::traits::FromStr for f(32|64)>::from_str$')]
NUM_TY = re.compile(r'^(?:core::num::nonzero::NonZero<)?[iuf](8|16|32|64|128|size)>?$')


def _first_generic_arg(ty):
    """`core::result::Result<A, B>` -> `A` (top-level comma split)."""
    if '<' not in ty:
        return None
    inner = ty[ty.index('<') + 1:]
    depth, out = 0, ''
    for ch in inner:
        if ch in '<([':
            depth += 1
        elif ch in '>)]':
            if depth == 0:
                break
            depth -= 1
        elif ch == ',' and depth == 0:
            break
        out += ch
    return out.strip() or None


def _error_blocks(body):
    """Blocks on which the function is about to return an error: the `?` residual conversion and explicit `Err(..)`."""
    errs = {blk for blk, t in body.calls() if Q.callee_is(t, Q.FROM_RESIDUAL)}
    errs |= {blk for blk, j, st in body.stmts() if st['k'] == 'assign' and st['rv']['k'] == 'agg'
             and str(st['rv'].get('adt', '')).endswith('result::Result') and st['rv'].get('variant') in (1, 'Err')}
    return errs


class _Glue:
    """The functions outside yash-arith that hand an expression to the evaluator ("feeders"), and which functions of their
    source files deliver an evaluator result on every error-free path ("all-pass")."""

    def __init__(self, F):
        self.F = F
        self.direct = {}          # root -> [(body, block, term)] calls of eval / eval_with_config outside yash-arith
        for b, blk, t in F.callers_of(lambda names, t: any(n in EVALS for n in names)):
            if b.crate == 'yash_arith':
                continue
            self.direct.setdefault(b.root, []).append((b, blk, t))
        self.files = {F.body(r).file for r in self.direct}
        if ARITH_EXPAND in F.bodies:
            self.files.add(F.body(ARITH_EXPAND).file)
        self.candidates = {r for r, bs in F.by_root.items() if bs[0].crate != 'yash_arith' and bs[0].file in self.files}
        self.memo = {}

    def closure_evaluates(self, fn, depth=3):
        cb = self.F.bodies.get(fn or '')
        if cb is None or depth == 0:
            return False
        if Q.find_calls(cb, EVALS):
            return True
        return any(st['k'] == 'assign' and st['rv']['k'] == 'agg' and st['rv'].get('ak') == 'closure'
                   and self.closure_evaluates(st['rv'].get('def'), depth - 1) for _, _, st in cb.stmts())

    def through(self, body):
        """Blocks of `body` at which an evaluation is (started to be) performed: a call of the evaluator, a call of an
        all-pass function of the glue files, the creation of a closure that calls the evaluator."""
        out = {}
        for blk, t in body.calls():
            if Q.callee_is(t, EVALS):
                out[blk] = t
                continue
            d = t['f'].get('def')
            # a function that calls the evaluator itself is judged (and reported) on its own; any other function of the glue
            # files counts when each of its error-free paths evaluates
            if d and d != body.root and (d in self.direct or (d in self.candidates and self.witness(d) is None)):
                out[blk] = t
        for blk, j, st in body.stmts():
            if st['k'] == 'assign' and st['rv']['k'] == 'agg' and st['rv'].get('ak') == 'closure' and \
                    self.closure_evaluates(st['rv'].get('def')):
                out.setdefault(blk, None)
        return out

    def witness(self, root):
        """None when every path of `root` that returns without an error passes an evaluation; else a witness path."""
        if root in self.memo:
            return self.memo[root]
        self.memo[root] = [0]                 # recursion: a cycle does not evaluate by itself
        body = self.F.main_body(root)
        thr = set(self.through(body))
        if 0 in thr:
            p = None
        else:
            p = body.shortest_path(0, set(body.return_blocks()), removed=thr | _error_blocks(body))
        self.memo[root] = p
        return p


@RS.rule('C03.R13', 'K-PASS', 'the value of $((...)) is the evaluator\'s: every error-free path of arith::expand (and of any other caller of '
         'yash_arith) passes yash_arith::eval, the returned phrase derives from its result, and no Value is made from anything else '
         '(no fast path for a plain number, an empty text, a single name)')
def r13(cx):
    F = cx.F
    sig = F.fns.get(EVALS[0]) or F.fns.get(EVALS[1])
    cx.require(sig is not None, 'yash_arith::eval_with_config / eval not found')
    out_ty = sig['output']
    cx.require('result::Result<' in out_ty, 'the evaluator no longer returns a Result: %s' % out_ty)
    value_ty = _first_generic_arg(out_ty)
    cx.require(value_ty and value_ty in F.adts, 'value type of the evaluator not found (%s)' % value_ty)
    value_re = re.compile(r'(?<![\w:])' + re.escape(value_ty) + r'(?![\w:])')
    G = _Glue(F)
    cx.require(G.direct, 'no caller of yash_arith::eval(_with_config) outside yash-arith')
    main = F.main_body(ARITH_EXPAND)

    # (a) every error-free path evaluates
    for root in sorted(set(G.direct) | {ARITH_EXPAND}):
        body = F.main_body(root)
        cx.fn(body.fn)
        thr = G.through(body)
        p = G.witness(root)
        cx.site('%s: evaluation sites %s; every error-free path passes one: %s'
                % (root, sorted({body.loc(t) if t else 'closure' for t in thr.values()}) or 'NONE', p is None))
        if p is not None:
            cx.violation(root, 'result-without-evaluator', 'a path returns a result without an error and without calling yash_arith::eval: '
                         'whatever text takes that path is not read by the evaluator\'s tokenizer and constant parser (a "plain decimal" '
                         'shortcut using str::parse reads `-010` / `+017` as decimal where $((x)) with x=-010 gives -8; a shortcut for an '
                         'empty text or a single name skips unset-variable and syntax errors)', loc=body.loc(body.term(p[-2] if len(p) > 1 else p[-1])),
                         path=Q.render_path(body, p))

    # (b) what arith::expand returns without an error is data-dependent on an evaluation result
    thr = G.through(main)
    seeds = {t['dest']['l'] for t in thr.values() if t is not None}
    taint = Q.forward_taint(main, seeds) if seeds else set()
    errs = _error_blocks(main)
    n_ret = 0
    for blk in Q.return_writers(main):
        if blk in errs:
            continue
        n_ret += 1
        ok = False
        for st in main.blocks[blk]['s']:
            if st['k'] == 'assign' and st['lhs']['l'] == 0 and any(p['l'] in taint for p in Q.rvalue_places(st['rv'])):
                ok = True
        t = main.term(blk)
        if t['k'] == 'call' and t['dest']['l'] == 0 and any(Q.operand_local(a) in taint for a in t['a']):
            ok = True
        cx.site('%s: success result written at %s derives from the evaluation: %s' % (ARITH_EXPAND, main.loc(t), ok))
        if not ok:
            cx.violation(ARITH_EXPAND, 'result-not-derived-from-evaluation', 'the phrase returned on success is not computed from the value '
                         'returned by yash_arith::eval: the expansion prints something else than the C value of the expression',
                         loc=main.loc(t))
    if not n_ret:
        cx.violation(ARITH_EXPAND, 'result-not-derived-from-evaluation', 'arith::expand has no success result', loc=main.loc(main.d))

    # (c) in the glue files, a value of the evaluator's Value type only ever comes from an evaluation (or from the function's inputs)
    n_defs = 0
    for root in sorted(G.candidates):
        ok_callees = None
        for body in F.logical(root):
            typed = {l for l, d in enumerate(body.locals) if value_re.search(d.get('ty') or '')}
            if not typed:
                continue
            if ok_callees is None:
                ok_callees = True
            cx.fn(body.fn)
            # inputs of the function that already hold a Value (a parameter, a captured variable read out of the closure /
            # coroutine state) are as good as an evaluation result; other inputs (the expression text!) are not
            args = set(range(1, body.argc + 1))
            seeds = {l for l in args if l in typed}
            seeds |= {st['lhs']['l'] for _, _, st in body.stmts() if st['k'] == 'assign' and st['lhs']['l'] in typed
                      and st['rv']['k'] in ('use', 'ref') and any(p['l'] in args for p in Q.rvalue_places(st['rv']))}
            thr = G.through(body)
            seeds |= {t['dest']['l'] for t in thr.values() if t is not None}
            taint = Q.forward_taint(body, seeds)
            bad = []
            for blk, j, st in body.stmts():
                if st['k'] == 'assign' and st['lhs']['l'] in typed and not st['lhs'].get('p'):
                    if st['rv']['k'] == 'agg' and st['rv'].get('ak') in ('closure', 'coroutine'):
                        continue          # `async fn` wrapper / a closure returning a Value: its body is examined as a body
                    n_defs += 1
                    if not any(p['l'] in taint for p in Q.rvalue_places(st['rv'])):
                        bad.append(st)
            for blk, t in body.calls():
                if t['dest']['l'] in typed and not t['dest'].get('p'):
                    n_defs += 1
                    if blk not in thr and not any(Q.operand_local(a) in taint for a in t['a']):
                        bad.append(t)
            cx.site('%s: %d local(s) of a type holding %s; definitions not coming from an evaluation: %d'
                    % (body.fn, len(typed), value_ty, len(bad)))
            if bad:
                cx.violation(body.root, 'value-made-outside-evaluator', 'a %s is made here from something that is not the result of '
                             'yash_arith::eval: this code computes (part of) the value of an arithmetic expansion itself, with its own reading of '
                             'numerals and none of the evaluator\'s overflow and syntax checks' % value_ty, loc=body.loc(bad[0]))
    cx.floor(n_defs, 2, 'definitions of locals holding the evaluator\'s value type in the glue code')


@RS.rule('C03.R14', 'K-CALLERS', 'the caller side of yash-arith (source files of the callers of yash_arith::eval: expansion::initial::arith) '
         'converts no text to a number itself: every numeral is read by the evaluator\'s one constant parser (R7)')
def r14(cx):
    F = cx.F
    G = _Glue(F)
    cx.require(G.direct, 'no caller of yash_arith::eval(_with_config) outside yash-arith')
    cx.require(THE_PARSER in F.bodies, 'the constant parser %s was not found' % THE_PARSER)
    n = 0
    for root in sorted(G.candidates):
        for body in F.logical(root):
            n += 1
            strcalls = hits = 0
            for blk, t in body.calls():
                names = Q.callee_names(t)
                if any(x.startswith('core::str::') or x.startswith('alloc::str') for x in names):
                    strcalls += 1
                hit = any(p.search(x) for x in names for p in NUM_FROM_TEXT)
                if not hit and Q.callee_is(t, ['core::str::<impl str>::parse']) and \
                        NUM_TY.search((t['f'].get('rga') or t['f'].get('ga') or '').strip()):
                    hit = True
                if not hit and Q.callee_is(t, ['*::FromStr::from_str', re.compile(r'FromStr>::from_str$')]) and \
                        NUM_TY.search((t['f'].get('self') or '').strip()):
                    hit = True
                if hit:
                    hits += 1
                    cx.violation(body.root, 'text-to-number-outside-the-evaluator:%s' % pp.callee(t).split('::')[-1],
                                 'text is converted to a number here (%s [%s]), outside %s: str::parse / from_str accept a sign and '
                                 'know no radix prefix, so a numeral taken this way (-010, +017, 0x10) denotes another value than the '
                                 'same numeral read by the evaluator, and $(($x)) stops agreeing with $((x))'
                                 % (pp.callee(t), t['f'].get('ga'), THE_PARSER), loc=body.loc(t))
            cx.fn(body.fn)
            cx.site('%s: %d call(s) scanned, %d string operation(s), text-to-number conversions: %d'
                    % (body.fn, sum(1 for _ in body.calls()), strcalls, hits))
    cx.floor(n, 5, 'bodies of the arithmetic-expansion glue scanned')


RS.explanation += (' The value of an arithmetic expansion is the evaluator\'s: every error-free path of arith::expand (and of any other caller) '
                   'passes yash_arith::eval, the returned phrase derives from its result, no Value is manufactured in the glue (R13), and the '
                   'glue converts no text to a number itself (R14).')


# ---------------------------------------------------------------------------------------
# added after the audit C03h4 (docs/src/arithmetic.md listed `|` above `^`; the code follows C)
@RS.rule('C03.R16', 'K-TABLE', 'the manual documents the precedence the evaluator implements: the numbered operator list of docs/src/arithmetic.md, read '
         'as a table lexeme -> level, is order-isomorphic to Operator::precedence on the binary operators (two operators share a level in '
         'the manual iff they share a precedence in the code; a lower-numbered level binds tighter)')
def r16(cx):
    import os
    F = cx.F
    fn = _fn(F, '<impl yash_arith::token::Operator>::precedence')
    table, m = H.fn_match_table(F, fn, OP)
    prec = {v: H.lit_value(body) for v, (i, body) in table.items()}
    cx.require(all(isinstance(x, int) for x in prec.values()), 'precedence values are not integer literals')
    path = os.path.join(getattr(F, 'repo', '/repo'), 'docs', 'src', 'arithmetic.md')
    cx.require(os.path.exists(path), 'docs/src/arithmetic.md not found')
    level, doc = None, {}
    binary_level = {}
    for line in open(path, encoding='utf-8'):
        mm = re.match(r'^(\d+)\.\s+(\w+)', line)
        if mm:
            level, kind = int(mm.group(1)), mm.group(2)
            binary_level[level] = kind in ('Binary', 'Ternary')
            continue
        mm = re.match(r'^\s+-\s+`([^`]+)`(?:\s+`([^`]+)`)?\s+–', line)
        if mm and level is not None and binary_level.get(level):
            doc[mm.group(1)] = level
    by_lexeme = {lex: name for name, lex in LEXEMES.items()}
    rows = [(lex, lvl, by_lexeme.get(lex)) for lex, lvl in sorted(doc.items(), key=lambda kv: kv[1])]
    cx.require(len(rows) >= 25, 'fewer than 25 binary operators found in the numbered list of arithmetic.md (format changed?)')
    known = [(lex, lvl, name) for lex, lvl, name in rows if name in prec]
    cx.site('arithmetic.md: %d binary/ternary operators on %d levels; %d matched to Operator variants' % (len(rows), len({l for _, l, _ in rows}), len(known)))
    cx.cellcount(len(known))
    cx.sample({'doc_levels': {lex: lvl for lex, lvl, _ in rows}})
    for lex, lvl, name in rows:
        if name is None or name not in prec:
            cx.violation(fn, 'documented-operator-unknown:%s' % lex, 'the manual lists the operator %r, which the tokenizer table does not know' % lex,
                         loc='docs/src/arithmetic.md')
    for i, (la, lva, na) in enumerate(known):
        for lb, lvb, nb in known[i + 1:]:
            doc_cmp = (lva > lvb) - (lva < lvb)            # lower level number = binds tighter
            code_cmp = (prec[nb] > prec[na]) - (prec[nb] < prec[na])   # higher precedence value = binds tighter
            if doc_cmp != code_cmp:
                cx.violation(fn, 'manual-disagrees:%s:%s' % (la, lb), 'the manual puts %r on level %d and %r on level %d, the evaluator gives them '
                             'precedence %d and %d: a reader of the manual predicts another value for an expression mixing the two '
                             '(`$((1 | 1 ^ 1))`)' % (la, lva, lb, lvb, prec[na], prec[nb]), loc='docs/src/arithmetic.md')


RS.explanation += ' The numbered operator list of the manual is order-isomorphic to Operator::precedence (R16).'


# ---------------------------------------------------------------------------------------
# added after the audit C03h4 (`x=1; $((x + (x=5)))` was 10: the bare variable on the left was read after the right operand's side effects)
ASSIGNING = {'Assign', 'BitwiseOrAssign', 'BitwiseXorAssign', 'BitwiseAndAssign', 'ShiftLeftAssign', 'ShiftRightAssign',
             'AddAssign', 'SubtractAssign', 'MultiplyAssign', 'DivideAssign', 'RemainderAssign'}
BINOP = 'yash_arith::ast::BinaryOperator'


@RS.rule('C03.R15', 'K-ORDER', 'the left operand of a binary operator is read before the right operand is evaluated (as for ||, && and ?:): for every '
         'operator that does not assign to its left operand, no path of eval leads from the evaluation of the left operand to the '
         'evaluation of the right operand without converting the left result to a value - `x + (x=5)` and `+x + (x=5)` agree')
def r15(cx):
    F = cx.F
    # apply_binary is the sink whose operands are examined: it stays a call however small it gets
    from facts import same_module_private
    _acc = same_module_private(F, 'yash_arith::eval::eval')
    body = F.inlined(F.main_body('yash_arith::eval::eval'), accept=lambda c: c != 'yash_arith::eval::apply_binary' and _acc(c))
    cx.fn(body.fn)
    du = Q.DefUse(body)
    variants = [v['name'] for v in F.adts[BINOP]['variants']]
    cx.require(ASSIGNING <= set(variants), 'BinaryOperator lost an assignment variant (update ASSIGNING)')
    sink = Q.find_calls(body, ['yash_arith::eval::apply_binary'])
    cx.require(sink, 'eval no longer calls apply_binary')
    evals = Q.find_calls(body, ['yash_arith::eval::eval'])
    conv = [(b, t) for b, t in body.calls() if Q.callee_is(t, ['yash_arith::eval::into_value', 'yash_arith::eval::expand_variable'])]
    n = 0
    for sb, st in sink:
        if len(st['a']) < 2:
            continue
        # the two recursive evaluations whose results are the operands of this apply_binary
        def producer(op):
            src = Q.value_source(body, du, op)
            hops = 0
            while src is not None and not Q.callee_is(src, ['yash_arith::eval::eval']) and hops < 4:
                if Q.callee_is(src, ['yash_arith::eval::into_value', 'yash_arith::eval::expand_variable']) or src.get('a'):
                    nxt = [Q.value_source(body, du, a) for a in src['a'][:1]]
                    src = nxt[0] if nxt else None
                else:
                    src = None
                hops += 1
            return src
        l_eval, r_eval = producer(st['a'][0]), producer(st['a'][1])
        if l_eval is None or r_eval is None or l_eval is r_eval:
            # the operand may be an aggregate Term::Value{..} built from into_value(lhs): look at what feeds it
            tl = None
            for eb, et in evals:
                tl = Q.forward_taint(body, {et['dest']['l']}, through_calls=Q.PROPAGATING_CALLS + Q.TRY_BRANCH + [re.compile(r'eval::(into_value|expand_variable)$')])
                if (Q.operand_place(st['a'][0]) or {}).get('l') in tl and l_eval is None:
                    l_eval = et
                elif (Q.operand_place(st['a'][1]) or {}).get('l') in tl and (r_eval is None or r_eval is l_eval) and et is not l_eval:
                    r_eval = et
        cx.require(l_eval is not None and r_eval is not None and l_eval is not r_eval,
                   'the two operand evaluations feeding apply_binary were not identified (shape not understood)')
        lb = [b for b, t in evals if t is l_eval][0]
        rb = [b for b, t in evals if t is r_eval][0]
        l_taint = Q.forward_taint(body, {l_eval['dest']['l']}, through_calls=Q.PROPAGATING_CALLS + Q.TRY_BRANCH)
        convs = {b for b, t in conv if any((Q.operand_place(a) or {}).get('l') in l_taint for a in t['a'])}
        # switch edges on the operator, per variant
        op_edges = []      # (u, v, set of variant labels)
        for u in body.live_blocks():
            ec = Q.edge_condition(F, body, du, u)
            if ec and ec[0]['k'] == 'discr' and (ec[0].get('ty') or '').endswith('ast::BinaryOperator'):
                for tgt, labs in ec[1].items():
                    op_edges.append((u, tgt, {l[1] for l in labs if l[0] == 'variant'}))
        bad = []
        for v in variants:
            if v in ASSIGNING:
                continue
            removed_edges = {(u, tgt) for u, tgt, labs in op_edges if labs and v not in labs}
            start = l_eval.get('to')
            p = body.shortest_path(start, {rb}, removed=convs, removed_edges=removed_edges) if start is not None else None
            if p is not None:
                bad.append(v)
        n += 1
        cx.site('eval: left operand evaluated at %s, right operand at %s; left result converted to a value first for %d of %d non-assigning operators'
                % (body.loc(l_eval), body.loc(r_eval), len(variants) - len(ASSIGNING) - len(bad), len(variants) - len(ASSIGNING)))
        cx.cellcount(len(variants) - len(ASSIGNING))
        if bad:
            cx.violation('yash_arith::eval::eval', 'left-operand-read-after-right:%s' % ('all' if len(bad) == len(variants) - len(ASSIGNING) else ','.join(bad)),
                         'for %s the left operand is still an unread variable while the right operand is evaluated: `x=1; echo $((x + (x=5)))` '
                         'gives 10 while `$((+x + (x=5)))` gives 6 (dash, bash: 6), `x=8; $((x/(x=2)))` gives 1' % (', '.join(bad[:4]) + (' ...' if len(bad) > 4 else '')),
                         loc=body.loc(r_eval))
    cx.floor(n, 1, 'binary arms of eval')


RS.explanation += ' The left operand of a non-assigning binary operator is converted to a value before the right operand is evaluated (R15).'


# ---------------------------------------------------------------------------------------
# added after seed wave 5 (C03-s9: constant-operand fast path in eval calling binary_result with the run-time operator;
# C03-s10: QuirkVarEnv answering a repeated read from its cache without looking at the variable)
def _binop_const_variant(du, operand):
    """The BinaryOperator variant an operand is a compile-time constant of (`BinaryOperator::LogicalOr`), else None."""
    o = du.origin(operand)
    if o.get('k') == 'ref':
        o = du.origin_place(o['pl'])
    if o.get('k') == 'agg' and o['rv'].get('ak') == 'adt' and (o['rv'].get('adt') or '').endswith('ast::BinaryOperator'):
        return o['rv']['variant']
    if o.get('k') == 'const':
        m = re.search(r'BinaryOperator::(\w+)', str(o['o'].get('c') or ''))
        if m:
            return m.group(1)
    return None


def _operator_tests(F, body, du):
    """Every test of a BinaryOperator in `body`: ({block: {target: labels}} for switches on its discriminant,
    {block: (variant, is_eq, {target: labels})} for `operator == / != <constant variant>`)."""
    switches, tests = {}, {}
    for u in sorted(body.live_blocks()):
        ec = Q.edge_condition(F, body, du, u)
        if not ec:
            continue
        if ec[0]['k'] == 'discr' and (ec[0].get('ty') or '').lstrip('&').replace('mut ', '').strip().endswith('ast::BinaryOperator'):
            switches[u] = ec[1]
            continue
        org, flip = ec[0], False
        for _ in range(3):
            if org.get('k') == 'unop' and org['rv'].get('op') == 'Not':
                org, flip = du.origin(org['rv']['o']), not flip
        if org.get('k') != 'call' or not Q.callee_is(org['t'], [re.compile(r'PartialEq.*::(eq|ne)$')]) or len(org['t']['a']) != 2 or \
                not all(x.lstrip('&').strip().endswith('ast::BinaryOperator') for x in org['t'].get('at', ['?'])):
            continue
        consts = [_binop_const_variant(du, a) for a in org['t']['a']]
        if sum(1 for c in consts if c is not None) != 1:
            continue
        is_eq = Q.callee_is(org['t'], [re.compile(r'PartialEq.*::eq$')])
        tests[u] = ([c for c in consts if c is not None][0], is_eq != flip, ec[1])
    return switches, tests


def _edges_not_taken_by(v, switches, tests):
    removed = set()
    for u, labels in switches.items():
        for tgt, labs in labels.items():
            if ('variant', v) not in labs:
                removed.add((u, tgt))
    for u, (cst, is_eq, labels) in tests.items():
        for tgt, labs in labels.items():
            if ('bool', (v == cst) == is_eq) not in labs:
                removed.add((u, tgt))
    return removed


@RS.rule('C03.R17', 'K-GUARD', 'binary_result (which computes `=` as the right operand and `op=` as the plain operator, without any lvalue test) '
         'receives an assignment operator only behind require_variable: at every call site, for every assignment variant the operator '
         'argument can hold there, each path from the entry of the caller passes the lvalue test - `$((1 = 2))`, `$((3 += 4))` are errors')
def r17(cx):
    F = cx.F
    BR = EVAL + 'binary_result'
    RV = EVAL + 'require_variable'
    cx.require(BR in F.fns and RV in F.fns, 'binary_result / require_variable not found in yash_arith::eval')
    cx.require((F.fns[BR].get('vis') or '') != 'pub', 'binary_result became public: its callers can no longer be enumerated')
    inputs = F.fns[BR]['inputs']
    opi = [i for i, ty in enumerate(inputs) if ty.lstrip('&').strip().endswith('ast::BinaryOperator')]
    cx.require(len(opi) == 1, 'binary_result no longer takes exactly one BinaryOperator')
    variants = [v['name'] for v in F.adts[BINOP]['variants']]
    cx.require(ASSIGNING <= set(variants), 'BinaryOperator lost an assignment variant (update ASSIGNING)')
    # the assignment variants are the ones binary_result computes WITHOUT assigning: those sharing an arm with a base operator, and Assign
    from facts import same_module_private

    def calls_direct(fn, what):
        return any(Q.find_calls(b, [what]) for b in F.logical(fn)) if fn in F.by_root else False

    def is_op_ty(ty):
        return (ty or '').replace('&mut ', '').lstrip('&').strip().endswith('ast::BinaryOperator')

    work = [('call', BR, opi[0], frozenset(ASSIGNING))]
    done = set()
    n = 0
    while work:
        kind, callee, argi, vs = work.pop()
        if (kind, callee, argi) in done:
            continue
        done.add((kind, callee, argi))
        if kind == 'call':
            holders = {b.fn: b for b, _, _ in F.callers_of(lambda names, t, _c=callee: _c in names) if '::tests' not in b.fn}
        else:
            # a closure that computes with a captured operator: the obligation lies where the closure is made
            parent = F.bodies.get(callee.rsplit('::{closure', 1)[0])
            cx.require(parent is not None, 'the function creating the closure %s was not found' % callee)
            holders = {parent.fn: parent}
        for body0 in sorted(holders.values(), key=lambda b: b.fn):
            _acc = same_module_private(F, body0.root)
            # guard helpers (`fn is_assignment(op) -> bool`, a wrapper of require_variable that returns its result) are analysed in
            # place; a function that itself calls binary_result / the callee under analysis stays a call and is judged on its own
            body = F.inlined(body0, accept=lambda c, _a=_acc: c not in (BR, RV, callee) and _a(c) and not calls_direct(c, BR)
                             and (kind != 'call' or not calls_direct(c, callee)))
            du = Q.DefUse(body)
            cx.fn(body.fn)
            switches, tests = _operator_tests(F, body, du)
            guards = {blk for blk, t in Q.find_calls(body, [RV])}
            sites = []
            if kind == 'call':
                sites = [(blk, t, t['a'][argi]) for blk, t in Q.find_calls(body, [callee]) if len(t['a']) > argi]
            else:
                for blk, j, st in body.stmts():
                    if st['k'] == 'assign' and st['rv']['k'] == 'agg' and st['rv'].get('ak') == 'closure' and st['rv'].get('def') == callee:
                        ops = [o for o in st['rv'].get('ops', []) if Q.operand_local(o) is not None and
                               is_op_ty(body.locals[Q.operand_local(o)].get('ty'))]
                        sites.append((blk, st, ops[0] if len(ops) == 1 else None))
            for blk, node, opnd in sites:
                cv = _binop_const_variant(du, opnd) if opnd is not None else None
                # the floor counts operators per site, so that one arm per operator with a constant operator and one merged arm
                # passing the run-time operator (`operator @ (LogicalOr | LogicalAnd) => .. binary_result(lhs, rhs, *operator, ..)`)
                # weigh the same: a constant operator counts 1, a run-time operator min(2, operators that can arrive there)
                if cv is not None:
                    n += 1
                else:
                    n += min(2, sum(1 for v in variants if blk in body.reachable(0, removed_edges=_edges_not_taken_by(v, switches, tests))))
                cand = sorted(vs & {cv}) if cv is not None else sorted(vs)
                bad, wit = [], None
                for v in cand:
                    p = Q.shortest_path_flags(F, body, du, 0, {blk}, removed=guards, removed_edges=_edges_not_taken_by(v, switches, tests))
                    if p is not None:
                        bad.append(v)
                        wit = wit or p
                cx.site('%s: %s %s with operator %s at %s: assignment variants arriving without the lvalue test: %s'
                        % (body.fn, 'call of' if kind == 'call' else 'creation of closure', callee.split('::', 2)[-1],
                           ('const ' + cv) if cv else (Q.operand_name(body, du, opnd) if opnd is not None else '?'),
                           body.loc(node), bad or 'none'))
                if not bad:
                    continue
                o = du.origin(opnd) if opnd is not None else {'k': '?'}
                if o.get('k') == 'ref':
                    o = du.origin_place(o['pl'])
                is_closure = '::{closure' in body0.fn and body0.fn != F.main_body(body0.root).fn
                sig = F.fns.get(body0.root) or {}
                # the operator is a parameter of a private function: the obligation moves to that function's callers
                if not is_closure and o.get('k') == 'arg' and (sig.get('vis') or 'pub') != 'pub' and body0.root != callee and \
                        F.callers_of(lambda names, t2, _c=body0.root: _c in names):
                    work.append(('call', body0.root, o['l'] - 1, frozenset(bad)))
                    continue
                # the operator is a variable captured by a closure: the obligation moves to the place the closure is made
                if is_closure and o.get('k') == 'place' and o['pl'].get('l') == 1:
                    work.append(('closure', body0.fn, None, frozenset(bad)))
                    continue
                cx.violation(body.fn, 'assignment-operator-computed-without-lvalue-test',
                             'binary_result is called here with an operator that can be an assignment (%s) on a path that has not passed '
                             'require_variable: binary_result computes `=` as the right operand and `op=` as the plain operator, so '
                             '`$((1 = 2))` yields 2 and `$((3 += 4))` yields 7 instead of the error "assignment to a non-variable"'
                             % (', '.join(bad[:3]) + (' ...' if len(bad) > 3 else '')), loc=body.loc(node),
                             path=Q.render_path(body, wit) if wit else None)
    cx.floor(n, 6, 'operators at call sites of binary_result (two sites with a run-time operator in apply_binary, counted twice each; '
                   'the || and && arms of eval)')


ENV_GET = re.compile(r' as yash_arith::env::Env>::get_variable$')
VARSET_LOOKUP = [re.compile(r'^yash_env::variable::VariableSet::(get|get_scalar)$')]
CELL_TY = re.compile(r'(^|[<\s(,&])(core::cell::|std::sync::|core::sync::atomic::|std::cell::|once_cell::|alloc::rc::Rc<core::cell::)')


def _result_loc(body, path):
    """Where the result returned at the end of `path` is written (the last write of the return place on the path)."""
    for blk in reversed(path):
        t = body.term(blk)
        if t['k'] == 'call' and t['dest']['l'] == 0:
            return body.loc(t)
        for st in reversed(body.blocks[blk]['s']):
            if st['k'] == 'assign' and st['lhs']['l'] == 0:
                return body.loc(st)
    return body.loc(body.d)


@RS.rule('C03.R18', 'K-PASS', 'every read of a variable by the arithmetic evaluator looks at the shell variable now: in each Env::get_variable of the '
         'expansion glue every returning path passes a look-up of the variable set made in THIS call (VariableSet::get / get_scalar, or a '
         'delegate get_variable that does), and the adapter\'s own state kept between calls (a cell field of Self) is only touched after '
         'the variable was expanded (Variable::expand) in this call - `$((LINENO++ + LINENO))` re-reads LINENO after the assignment')
def r18(cx):
    F = cx.F
    roots = sorted(k for k, bs in F.by_root.items() if ENV_GET.search(k) and bs[0].crate != 'yash_arith' and '::tests' not in k)
    cx.require(roots, 'no implementation of yash_arith::Env::get_variable outside yash-arith')
    n_cells = 0
    for root in roots:
        body0 = F.main_body(root)
        from facts import same_module_private
        _acc = same_module_private(F, root)
        # helpers: non-public functions of the same source file (an inherent method of the adapter, a free function of the module)
        def _helper(c, _a=_acc, _file=body0.file):
            sig = F.fns.get(c)
            if sig is None or (sig.get('vis') or 'pub') == 'pub' or ENV_GET.search(c):
                return False
            return _a(c) or sig.get('file') == _file
        body = F.inlined(body0, accept=_helper)
        cx.fn(body.fn)
        lookups = {blk for blk, t in body.calls() if Q.callee_is(t, VARSET_LOOKUP)}
        delegates = {blk for blk, t in body.calls() if any(ENV_GET.search(x) and x in roots and x != root for x in Q.callee_names(t))}
        thr = lookups | delegates
        p = None if 0 in thr else body.shortest_path(0, set(body.return_blocks()), removed=thr)
        cx.site('%s: variable-set look-ups %d, delegating get_variable calls %d; every returning path passes one: %s'
                % (root, len(lookups), len(delegates), p is None))
        if p is not None:
            cx.violation(root, 'value-returned-without-looking-up-the-variable', 'get_variable can return without having looked the variable up in '
                         'the variable set during this call: a value remembered from an earlier read is returned although the expression has '
                         'assigned the variable in between (`$((LINENO++ + LINENO))` gives 2 on line 1 instead of 3; `$((++LINENO * ++LINENO))` '
                         'computes the second increment from the stale value)', loc=_result_loc(body, p), path=Q.render_path(body, p))
        # state of the adapter that survives the call: interior-mutable fields of Self (get_variable takes &self)
        m = re.match(r'^<([\w:]+)', root)
        adt = F.adts.get(m.group(1)) if m else None
        cells = set()
        if adt is not None:
            for v in adt['variants']:
                for f in v['fields']:
                    if CELL_TY.search(f['ty']):
                        cells.add(f['name'])
        if not cells:
            continue
        expands = {blk for blk, t in Q.find_calls(body, VAR_EXPAND)}
        dom_ok = lambda blk: any(e != blk and body.dominates(e, blk) for e in expands)
        for blk, j, st in body.stmts():
            if st['k'] != 'assign':
                continue
            for pl in Q.rvalue_places(st['rv']):
                fs = [x for x in (pl.get('p') or []) if isinstance(x, dict) and x.get('f') in cells and x.get('adt') == adt['path']]
                if not fs:
                    continue
                n_cells += 1
                ok = dom_ok(blk)
                cx.site('%s: state kept between calls (%s.%s) touched at %s after Variable::expand of this call: %s'
                        % (root, adt['path'].split('::')[-1], fs[0]['f'], body.loc(st), ok))
                if not ok:
                    cx.violation(root, 'kept-state-used-before-expanding-the-variable:%s' % fs[0]['f'], 'the value the adapter keeps between calls '
                                 '(%s) is consulted before the variable has been expanded in this call, so whether the variable still has a '
                                 'computed value (the quirk is removed by an assignment) is not re-checked: after `LINENO++` a second read of '
                                 'LINENO in the same expression returns the remembered line number' % fs[0]['f'], loc=body.loc(st))
    cx.floor(n_cells, 1, 'uses of adapter state kept between get_variable calls (QuirkVarEnv::computed_value)')


RS.explanation += (' binary_result is reached with an assignment operator only behind require_variable, at every call site and through private '
                   'forwarding helpers (R17); every Env::get_variable of the expansion glue looks the variable up in the variable set on every '
                   'returning path and touches its remembered value only after expanding the variable in the same call (R18).')
