"""C12 - the job table stays consistent over every history of job events.

Decided here (structural clauses, DESIGN.md 4/C12): WHO can change the parts of the
state the invariant speaks about (job state / pid, the slab, the pid index, the
current/previous indices), that no API hands out a `&mut Job`, that the slab and the
pid index are changed together on every path, and that no operation ever renumbers a
live job.  NOT decided: that insert/remove/update_status/set_current_job preserve the
current/previous selection invariant (inductive, relational)."""
import re
from engine import RuleSet
import mirq as Q
import pp

RS = RuleSet(
    'C12',
    explanation=(
        'Place, signature and path rules over the MIR and item facts of yash-env::job (and every other crate): '
        'Job::state / Job::pid are written through a reference only in JobList::update_status, a whole Job is '
        'overwritten through a reference only in JobList::insert (same pid slot), nothing swaps/replaces a Job '
        'behind a &mut; every mutable use of the private JobList fields (slab, pid index, current/previous index) '
        'is one of a reviewed (function, operation) table, so the selection invariant is the sole responsibility '
        'of insert/remove/update_status/set_current_job; no function signature or public field in the workspace '
        'gives out &mut Job (or a slab iterator/entry of it), JobRefMut has Deref but no DerefMut/AsMut/BorrowMut, '
        'JobList has Index but no IndexMut; in insert the slab insert and the pid-index insert are on the same '
        'path with the same pid and index, in remove every path from the Some edge of try_remove removes that '
        "job's pid from the index; no slab operation that moves or mass-removes live entries (compact, drain, "
        'retain, ...) is applied to the job slab, and clear() runs only on the is_empty() edge (job numbers never '
        'change while the job exists).'),
    not_decided='that insert/remove/update_status/set_current_job preserve "current is suspended if any job is", '
                '"previous != current", "two jobs imply a previous job" (an inductive invariant over an unbounded '
                'table: needs a model checker or deductive verifier); job ID resolution (%%, %-, %n) arithmetic',
    trusted=['slab::Slab: insert/try_remove/get_mut/iter_mut/index_mut do not move other entries; compact/drain/'
             'retain/clear/remove/vacant_entry are the structure-changing rest (list in rules/C12.py)'],
    assumptions=['unsafe code and transmutes are not modelled (none in yash-env::job)',
                 'a place is "through a reference" when it contains a dereference before the field projection'],
)

JOB = 'yash_env::job::Job'
JOBLIST = 'yash_env::job::JobList'
JL = JOBLIST + '::'
MUT_JOB = re.compile(r"&('\w+ )?mut yash_env::job::Job(?![A-Za-z_0-9])")
# types through which a caller could obtain `&mut Job`
LEAKY_TYPES = [MUT_JOB,
               re.compile(r"slab::(IterMut|Drain|VacantEntry|IntoIter)<[^>]*yash_env::job::Job(?![A-Za-z_0-9])"),
               re.compile(r"&('\w+ )?mut slab::Slab<yash_env::job::Job>"),
               re.compile(r"(Box|Rc|Arc|RefCell|Cell)<yash_env::job::Job>")]


def _through_ref(place, adt, field):
    """The place dereferences something before projecting `field` of `adt`."""
    seen_deref = False
    for e in place.get('p') or []:
        if e == '*':
            seen_deref = True
        elif isinstance(e, dict) and 'f' in e and e.get('adt') == adt and (field is None or e['f'] == field):
            return seen_deref
    return False


def _trace_place(du, operand, depth=16):
    """Follow an operand through single-definition copies / moves / (re)borrows to the
    place it denotes (independent of local names).  A reference temporary is identified
    with the place it points to."""
    p = Q.operand_place(operand)
    for _ in range(depth):
        if p is None:
            return None
        proj = p.get('p') or []
        d = du.single_def(p['l'])
        if d is None or d[1] == 't' or d[2]['k'] != 'assign':
            return p
        rv = d[2]['rv']
        if rv['k'] == 'use' and Q.operand_place(rv['o']) is not None:
            q = Q.operand_place(rv['o'])
            p = {'l': q['l'], 'p': (q.get('p') or []) + proj}
        elif rv['k'] == 'ref':
            q = rv['pl']
            if proj and proj[0] == '*':
                p = {'l': q['l'], 'p': (q.get('p') or []) + proj[1:]}
            elif not proj:
                p = {'l': q['l'], 'p': list(q.get('p') or [])}
            else:
                return p
        else:
            return p
    return p


def _mut_uses(body, adt, field):
    """Mutable uses of a field: [(kind, descriptor, node)] with kind 'assign' (direct
    assignment) or 'call' (the field is borrowed mutably and the borrow reaches a call:
    descriptor = callee path) or 'escape' (mutable borrow not consumed by a call)."""
    out = []
    for b, j, s, kind, f in Q.field_writes(body, adt, field):
        if kind == 'assign':
            out.append(('assign', 'assign', s))
            continue
        taint = Q.forward_taint(body, {s['lhs']['l']}, through_calls=[])
        users = [(blk, t) for blk, t in body.calls()
                 if any(Q.operand_local(a) in taint for a in t['a'] if Q.operand_local(a) is not None)]
        if not users:
            out.append(('escape', 'borrow-not-passed-to-a-call', s))
        for blk, t in users:
            out.append(('call', pp.callee(t), t))
    return out


# ------------------------------------------------------------------ R1
# (function root, field) -> why a write through a reference is legitimate there
STATE_WRITERS = {
    (JL + 'update_status', 'state'): 'the one transition function for job states (re-selects current/previous afterwards)',
}
WHOLE_JOB_WRITERS = {
    JL + 'insert': 'Occupied arm: the job with the same pid is replaced in its own slot',
}
# private JobList fields: (function root, operation) allowed
S = 'slab::Slab::<T>::'
H = 'std::collections::hash::map::HashMap::<K, V, S, A>::'
FIELD_TABLE = {
    'jobs': {
        (JL + 'insert', S + 'insert'), (JL + 'insert', '<slab::Slab<T> as core::ops::index::IndexMut<usize>>::index_mut'),
        (JL + 'remove', S + 'try_remove'), (JL + 'remove', S + 'clear'),
        (JL + 'update_status', '<slab::Slab<T> as core::ops::index::IndexMut<usize>>::index_mut'),
        (JL + 'get_mut', S + 'get_mut'), (JL + 'iter_mut', S + 'iter_mut'),
        (JL + 'disown_all', "<&'a mut slab::Slab<T> as core::iter::traits::collect::IntoIterator>::into_iter"),
    },
    'pids_to_indices': {(JL + 'insert', H + 'entry'), (JL + 'remove', H + 'remove')},
    'current_job_index': {(JL + 'insert', 'assign'), (JL + 'remove', 'assign'), (JL + 'update_status', 'assign'),
                          (JL + 'update_status', 'core::mem::replace'), (JL + 'set_current_job', 'core::mem::replace')},
    'previous_job_index': {(JL + 'insert', 'assign'), (JL + 'remove', 'assign'), (JL + 'update_status', 'assign'),
                           (JL + 'set_current_job', 'assign')},
}
JOBLIST_BUILDERS = {'<yash_env::job::JobList as core::default::Default>::default',
                    '<yash_env::job::JobList as core::clone::Clone>::clone'}
SWAPS = [re.compile(r'^core::mem::(swap|replace|take)$'), re.compile(r'^core::ptr::(write|swap|replace|copy|copy_nonoverlapping)')]


def _private_helper_of_reviewed(F, fn, desc, allowed):
    """fn is a non-public method of JobList whose every caller is a function reviewed for this very operation:
    the operation was merely moved into a private helper (behaviour-preserving extraction), the review carries over."""
    sig = F.fns.get(fn)
    if not fn.startswith(JOBLIST + '::') or sig is None or sig.get('vis') == 'pub':
        return False
    callers = F.callers_of(lambda names, t: fn in names)
    if not callers:
        return False
    return all((b.root, desc) in allowed for b, blk, t in callers)


@RS.rule('C12.R1', 'K-WRITERS', 'Job::state/pid and the private JobList fields are changed only by the reviewed functions')
def r1(cx):
    F = cx.F
    n_state = n_whole = 0
    for body in F.bodies.values():
        hit = False
        for b, j, s, kind, f in Q.field_writes(body, JOB, None):
            if f not in ('state', 'pid'):
                continue
            pl = s['lhs'] if kind == 'assign' else s['rv']['pl']
            if not _through_ref(pl, JOB, f):
                continue        # an owned Job being prepared for insert()
            hit = True
            n_state += 1
            cx.site('%s: %s of Job::%s through a reference at %s' % (body.fn, kind, f, body.loc(s)))
            if (body.root, f) not in STATE_WRITERS:
                cx.violation(body.root, 'job-field:%s:%s' % (f, kind),
                             'Job::%s is %s through a reference outside JobList::update_status: the job table '
                             'does not re-select the current/previous job (or re-index the pid) after this change'
                             % (f, 'assigned' if kind == 'assign' else 'mutably borrowed'), loc=body.loc(s))
        # whole-Job overwrite behind a `&mut Job`
        for b, j, s in body.stmts():
            if s['k'] != 'assign':
                continue
            p = s['lhs'].get('p') or []
            if p and p[-1] == '*' and MUT_JOB.search(_place_base_type(F, body, s['lhs'])):
                hit = True
                n_whole += 1
                cx.site('%s: whole Job overwritten through &mut Job at %s' % (body.fn, body.loc(s)))
                if body.root not in WHOLE_JOB_WRITERS:
                    cx.violation(body.root, 'job-overwrite', 'a Job in the table is overwritten through a reference '
                                 'outside JobList::insert', loc=body.loc(s))
        for b, t in body.calls():
            if Q.callee_is(t, SWAPS) and any(MUT_JOB.search(x) or re.search(r'\*mut yash_env::job::Job(?![A-Za-z_0-9])', x)
                                             for x in t.get('at', [])):
                hit = True
                cx.site('%s: %s on &mut Job at %s' % (body.fn, pp.callee(t), body.loc(t)))
                cx.violation(body.root, 'job-swap:%s' % pp.callee(t).split('::')[-1],
                             'a Job in the table is replaced by %s behind the job list' % pp.callee(t), loc=body.loc(t))
        if hit:
            cx.fn(body.fn)
    cx.floor(n_state, 1, 'writes of Job::state through a reference (update_status)')
    cx.floor(n_whole, 1, 'whole-Job overwrites (insert, Occupied arm)')

    # private fields of JobList
    counts = dict.fromkeys(FIELD_TABLE, 0)
    for body in F.bodies.values():
        for field, allowed in FIELD_TABLE.items():
            for kind, desc, node in _mut_uses(body, JOBLIST, field):
                counts[field] += 1
                cx.fn(body.fn)
                cx.site('%s: JobList::%s <- %s at %s' % (body.fn, field, desc, body.loc(node)))
                if (body.root, desc) not in allowed and not _private_helper_of_reviewed(F, body.root, desc, allowed):
                    cx.violation(body.root, 'joblist-field:%s:%s' % (field, desc.split('::')[-1]),
                                 'JobList::%s is changed by `%s` in a function that is not reviewed for keeping the '
                                 'slab, the pid index and the current/previous selection consistent' % (field, desc),
                                 loc=body.loc(node))
        for b, j, s in Q.find_aggregates(body, JOBLIST):
            cx.site('%s: JobList constructed at %s' % (body.fn, body.loc(s)))
            if body.root not in JOBLIST_BUILDERS:
                cx.violation(body.root, 'joblist-constructed', 'a JobList value is assembled field by field outside '
                             'Default::default / Clone::clone', loc=body.loc(s))
    cx.floor(counts['jobs'], 5, 'mutable uses of JobList::jobs')
    cx.floor(counts['pids_to_indices'], 1, 'mutable uses of JobList::pids_to_indices')
    cx.floor(counts['current_job_index'], 3, 'writes of JobList::current_job_index')
    cx.floor(counts['previous_job_index'], 3, 'writes of JobList::previous_job_index')
    cx.sample({'field_uses': counts, 'state_writes_through_ref': n_state})


def _place_base_type(F, body, place):
    """Type string of the reference dereferenced LAST in `place` (place ends with `*`)."""
    p = place.get('p') or []
    if p == ['*']:
        return body.locals[place['l']].get('ty', '')
    if len(p) >= 2 and isinstance(p[-2], dict) and 'f' in p[-2] and p[-2].get('adt') in F.adts:
        vs = F.adts[p[-2]['adt']]['variants']
        vname = next((e['v'] for e in p[:-2][::-1] if isinstance(e, dict) and 'v' in e), None)
        for v in vs:
            if vname is None or v['name'] == vname:
                for f in v['fields']:
                    if f['name'] == p[-2]['f']:
                        return f['ty']
    return ''


# ------------------------------------------------------------------ R2
FORBIDDEN_TRAITS = {
    'yash_env::job::JobRefMut': {'core::ops::deref::DerefMut', 'core::convert::AsMut', 'core::borrow::BorrowMut',
                                 'core::clone::Clone', 'core::marker::Copy'},
    'yash_env::job::JobList': {'core::ops::index::IndexMut', 'core::ops::deref::DerefMut', 'core::ops::deref::Deref',
                               'core::convert::AsMut', 'core::borrow::BorrowMut'},
    'yash_env::job::IterMut': {'core::clone::Clone'},
}


@RS.rule('C12.R2', 'K-TYPE', 'no API hands out &mut Job: signatures, public fields, trait impls of JobRefMut / JobList')
def r2(cx):
    F = cx.F
    n = 0
    for path, fn in F.fns.items():
        if fn['vis'] != 'pub':
            continue            # private helpers inside yash_env::job are covered by R1 (place scan)
        if 'yash_env::job::' in path or 'yash_env::job::' in fn['output']:
            n += 1
        for pat in LEAKY_TYPES:
            if pat.search(fn['output']):
                cx.violation(path, 'returns-mut-job', 'public function returns `%s`: callers obtain unrestricted '
                             'mutable access to a job in the table and can change its state or pid without the list '
                             're-selecting the current/previous job' % fn['output'],
                             loc='%s:%s' % (fn['file'], fn['line']))
                break
    cx.cellcount(n)
    for path, adt in F.adts.items():
        if not path.startswith('yash_env::job::'):
            continue
        for v in adt['variants']:
            for f in v['fields']:
                cx.cellcount(1)
                if f['vis'] == 'pub' and any(p.search(f['ty']) for p in LEAKY_TYPES):
                    cx.violation(path, 'public-field:%s' % f['name'], 'public field %s: %s exposes a mutable job reference'
                                 % (f['name'], f['ty']), loc='%s:%s' % (adt['file'], adt['line']))
    rm = F.adt('yash_env::job::JobRefMut')
    inner = rm['variants'][0]['fields']
    cx.require(len(inner) == 1 and MUT_JOB.search(inner[0]['ty']), 'JobRefMut is no longer a wrapper of &mut Job')
    cx.site('JobRefMut(%s) field visibility: %s' % (inner[0]['ty'], inner[0]['vis']))
    if not re.search(r'^restricted\(DefId\(.*~ yash_env\[\w+\]::job\)\)$', inner[0]['vis']):
        cx.violation('yash_env::job::JobRefMut', 'inner-visible', 'the &mut Job inside JobRefMut is visible outside '
                     'yash_env::job', loc='%s:%s' % (rm['file'], rm['line']))
    have_deref = False
    for i in F.impls:
        adt = i.get('self_adt')
        td = i.get('trait_def')
        if adt in FORBIDDEN_TRAITS and td:
            cx.site('impl %s for %s at %s:%s' % (i.get('trait'), i.get('self'), i['file'], i['line']))
            if adt == 'yash_env::job::JobRefMut' and td == 'core::ops::deref::Deref':
                have_deref = True
            if adt == 'yash_env::job::JobList' and i.get('self', '').startswith('&'):
                continue        # IntoIterator for &JobList / &mut JobList (checked through the fn signatures)
            if td in FORBIDDEN_TRAITS[adt]:
                cx.violation(i.get('self'), 'impl:%s' % td.split('::')[-1],
                             'impl %s for %s gives callers a way to mutate or duplicate a mutable job reference'
                             % (i.get('trait'), i.get('self')), loc='%s:%s' % (i['file'], i['line']))
    cx.require(have_deref, 'impl Deref for JobRefMut not found (read access path changed)')
    # the JobRefMut constructor is applied only inside yash_env::job
    for body in F.bodies.values():
        made = [s for b, j, s in Q.find_aggregates(body, 'yash_env::job::JobRefMut')]
        made += [t for b, t in body.calls() if any(a.get('fn') == 'yash_env::job::JobRefMut' for a in t['a'])]
        for node in made:
            cx.site('%s: JobRefMut constructed at %s' % (body.fn, body.loc(node)))
            if not (body.root.startswith('yash_env::job::') or body.root.startswith('<yash_env::job::')):
                cx.violation(body.root, 'jobrefmut-constructed', 'JobRefMut is constructed outside yash_env::job',
                             loc=body.loc(node))


# ------------------------------------------------------------------ R3
@RS.rule('C12.R3', 'K-PASS', 'slab and pid index change together: insert (same Vacant path, same pid/index) and remove (every path from the Some edge)')
def r3(cx):
    F = cx.F
    body = F.body(JL + 'insert')
    cx.fn(body.fn)
    du = Q.DefUse(body)
    entry = Q.find_calls(body, [H + 'entry'])
    sins = Q.find_calls(body, [S + 'insert'])
    vins = Q.find_calls(body, ['std::collections::hash::map::VacantEntry::<\'a, K, V, A>::insert',
                               re.compile(r'hash::map::VacantEntry::<.*>::(insert|insert_entry)$')])
    cx.require(len(entry) == 1, 'expected one HashMap::entry on pids_to_indices in insert, found %d' % len(entry))
    cx.require(len(sins) == 1, 'expected one Slab::insert in JobList::insert, found %d' % len(sins))
    eb, et = entry[0]
    sb, st = sins[0]
    cx.site('%s: pids_to_indices.entry at %s, jobs.insert at %s' % (body.fn, body.loc(et), body.loc(st)))
    # the key of the pid index is the pid of the job that goes into the slab
    key = _trace_place(du, et['a'][1])
    val = _trace_place(du, st['a'][1])
    key_ok = (key is not None and val is not None and key['l'] == val['l'] and not val.get('p') and
              [e.get('f') for e in key.get('p') or [] if isinstance(e, dict)] == ['pid'])
    if not key_ok:
        cx.violation(body.root, 'index-key', 'the pid index is not keyed by the pid of the job inserted into the slab '
                     '(find_by_pid would designate another job)', loc=body.loc(et))
    if not vins:
        cx.violation(body.root, 'no-index-insert', 'the new job is put into the slab but its pid is never entered in '
                     'pids_to_indices (find_by_pid / update_status cannot see the job)', loc=body.loc(st))
    else:
        p = Q.must_pass(body, body.succ(sb), {b for b, _ in vins})
        if p:
            cx.violation(body.root, 'slab-insert-without-index', 'a path from jobs.insert to return does not enter the '
                         'pid in pids_to_indices', loc=body.loc(st), path=Q.render_path(body, p))
        for vb, vt in vins:
            cx.site('%s: VacantEntry::insert at %s' % (body.fn, body.loc(vt)))
            src = du.origin(vt['a'][1])
            from_slab = False
            vp = _trace_place(du, vt['a'][1])
            if vp is not None and not vp.get('p') and vp['l'] == st['dest']['l']:
                from_slab = True
            if src['k'] == 'call' and src['t'] is st:
                from_slab = True
            if not from_slab or not body.dominates(sb, vb):
                cx.violation(body.root, 'index-value', 'the index stored for the pid is not the index returned by '
                             'jobs.insert', loc=body.loc(vt))
            ent = Q.value_source(body, du, vt['a'][0])
            # the VacantEntry comes out of the entry() result
            t_ent = Q.forward_taint(body, {et['dest']['l']}, through_calls=[])
            if Q.operand_local(vt['a'][0]) not in t_ent:
                cx.violation(body.root, 'index-entry', 'VacantEntry::insert is not applied to the entry of job.pid',
                             loc=body.loc(vt))
    # remove
    rb = F.body(JL + 'remove')
    cx.fn(rb.fn)
    du2 = Q.DefUse(rb)
    tr = Q.find_calls(rb, [S + 'try_remove', S + 'remove'])
    cx.require(len(tr) == 1, 'expected one Slab::try_remove in JobList::remove, found %d' % len(tr))
    tb, tt = tr[0]
    hm = Q.find_calls(rb, [H + 'remove', H + 'remove_entry'])
    cx.site('%s: jobs.try_remove at %s; %d pids_to_indices.remove' % (rb.fn, rb.loc(tt), len(hm)))
    taint = Q.forward_taint(rb, {tt['dest']['l']}, through_calls=[])
    good = set()
    for hb, ht in hm:
        kp = _trace_place(du2, ht['a'][1])
        fields = [e.get('f') for e in (kp or {}).get('p') or [] if isinstance(e, dict) and 'f' in e]
        if kp is not None and kp['l'] in taint and fields and fields[-1] == 'pid':
            good.add(hb)
            cx.site('%s: pids_to_indices.remove(&job.pid) at %s' % (rb.fn, rb.loc(ht)))
        else:
            cx.violation(rb.root, 'index-remove-key', 'pids_to_indices.remove is not keyed by the pid of the removed job',
                         loc=rb.loc(ht))
    # edges out of the switch on the try_remove result that select None carry no job
    absent = set()
    for b in rb.live_blocks():
        ec = Q.edge_condition(F, rb, du2, b)
        if ec and ec[0]['k'] == 'discr' and ec[0]['pl']['l'] in taint:
            for tgt, labs in ec[1].items():
                if labs and all(l == ('variant', 'None') for l in labs):
                    absent.add((b, tgt))
    cx.require(absent, 'no test of the try_remove result found in JobList::remove')
    p = Q.must_pass(rb, rb.succ(tb), good, removed_edges=absent)
    if p:
        cx.violation(rb.root, 'slab-remove-without-index', 'a job is taken out of the slab but its pid stays in '
                     'pids_to_indices: find_by_pid returns a stale (or reused) job number', loc=rb.loc(tt),
                     path=Q.render_path(rb, p))
    # the only other remover, ExtractIf::next, goes through JobList::remove
    nx = [k for k in F.bodies if k.startswith('<yash_env::job::ExtractIf<') and k.endswith('Iterator>::next')]
    cx.require(len(nx) == 1, 'ExtractIf::next not found')
    nb = F.bodies[nx[0]]
    cx.fn(nb.fn)
    rm = Q.find_calls(nb, [JL + 'remove'])
    cx.site('%s: %d calls of JobList::remove' % (nb.fn, len(rm)))
    if not rm:
        cx.violation(nb.fn, 'extract-without-remove', 'ExtractIf::next does not remove through JobList::remove',
                     loc=nb.loc(nb.d))


# ------------------------------------------------------------------ R4
MOVING = re.compile(r'^slab::Slab::<T>::(compact|drain|retain|vacant_entry|vacant_key|get2_mut|get_disjoint_mut)$|'
                    r'slab::Slab<T> as core::iter::traits::collect::(IntoIterator|FromIterator)')


def _is_empty_test(du, org, lab):
    """`jobs.is_empty()` is true, or `jobs.len() == 0` is true / `jobs.len() != 0` is false."""
    if Q.cond_is_call(org, [S + 'is_empty', JL + 'is_empty']):
        return lab == ('bool', True)
    if org['k'] == 'binop' and org['rv']['op'] in ('Eq', 'Ne'):
        a, b = org['rv']['a'], org['rv']['b']
        for x, y in ((a, b), (b, a)):
            if str(y.get('c', '')).startswith('0') and 'cp' not in y and 'mv' not in y:
                src = du.origin(x)
                if Q.cond_is_call(src, [S + 'len', JL + 'len']):
                    return lab == ('bool', org['rv']['op'] == 'Eq')
    return False


@RS.rule('C12.R4', 'K-CALLERS', 'job numbers never move: no compact/drain/retain on the job slab; clear() only on the is_empty() edge')
def r4(cx):
    F = cx.F
    calls = F.callers_of(lambda names, t: any('slab::' in n for n in names))
    cx.floor(len(calls), 10, 'slab operations in the workspace')
    n_clear = 0
    for body, b, t in calls:
        name = pp.callee(t)
        on_jobs = 'yash_env::job::Job' in (t['f'].get('ga') or '') or any('yash_env::job::Job' in x for x in t.get('at', []))
        cx.site('%s: %s at %s' % (body.fn, name, body.loc(t)))
        cx.fn(body.fn)
        if not on_jobs:
            continue
        if any(MOVING.search(n) for n in Q.callee_names(t)) and not name.startswith('<&'):
            cx.violation(body.root, 'slab-op:%s' % name.split('::')[-1], 'slab operation %s on the job slab can renumber, '
                         'mass-remove or alias live jobs behind the pid index' % name, loc=body.loc(t))
        if name == S + 'clear':
            n_clear += 1
            du = Q.DefUse(body)
            conds = Q.dominating_conditions(F, body, du, b)
            if not any(_is_empty_test(du, org, lab) for org, lab, e in conds):
                cx.violation(body.root, 'clear-unguarded', 'jobs.clear() is not dominated by the is_empty() == true edge: '
                             'it would drop live jobs (and leave their pids in the index)', loc=body.loc(t))
            if body.root != JL + 'remove':
                cx.violation(body.root, 'clear-elsewhere', 'jobs.clear() outside JobList::remove', loc=body.loc(t))
    cx.sample({'slab_calls': len(calls), 'clear_sites': n_clear})

import witness
witness.add(RS, 'C12.R2w', ['c12_jobrefmut_assign', 'c12_jobrefmut_pid'],
            'compile-fail witness: a listed job\'s state or pid cannot be assigned through JobRefMut (E0594); the reading twin compiles')


# ---------------------------------------------------------------- added after wave-2 seeded changes
SUSPENDED_TESTS = ['yash_env::job::Job::is_suspended', 'yash_env::job::ProcessState::is_stopped', 'yash_env::job::ProcessResult::is_stopped']


@RS.rule('C12.R5', 'K-GUARD', 'update_status: whether the current/previous job is reselected depends only on the suspended -> not suspended '
         '(or reverse) transition of the job, not on which particular state it went to')
def r5(cx):
    F = cx.F
    fn = JL + 'update_status'
    body = F.inlined(F.body(fn))
    cx.fn(body.fn)
    du = Q.DefUse(body)
    state_w = [blk for blk, j, s, kind, f in Q.field_writes(body, 'yash_env::job::Job', 'state')]
    cx.require(state_w, 'update_status does not write Job::state')
    # locals that are plain copies / borrows of the `state` parameter
    params = [l for l in range(1, body.argc + 1) if 'ProcessState' in body.locals[l]['ty']]
    cx.require(len(params) == 1, 'update_status has no single ProcessState parameter')
    copies = set(params)
    changed = True
    while changed:
        changed = False
        for blk, j, s in body.stmts():
            if s['k'] == 'assign' and not s['lhs'].get('p') and s['lhs']['l'] not in copies and s['rv']['k'] in ('use', 'ref'):
                src = Q.operand_place(s['rv']['o']) if s['rv']['k'] == 'use' else s['rv']['pl']
                if src is not None and src['l'] in copies:
                    copies.add(s['lhs']['l'])
                    changed = True

    def tuple_field(org):
        """`match (was_suspended, is_suspended) {..}` tests the fields of a tuple temporary: the origin of the operand the tuple was
        built from (the tuple is built once and never borrowed mutably, so the field still holds that value at the test)."""
        pl = org.get('pl') if org.get('k') in ('place', 'discr') else None
        proj = (pl or {}).get('p') or []
        if not proj or not isinstance(proj[0], dict) or 'f' not in proj[0] or not str(proj[0]['f']).isdigit():
            return org
        d = du.single_def(pl['l'])
        if d is None or d[1] == 't' or d[2]['k'] != 'assign' or d[2]['rv']['k'] != 'agg' or d[2]['rv'].get('ak') != 'tuple':
            return org
        if any(s['k'] == 'assign' and s['rv']['k'] in ('ref', 'rawptr') and s['rv']['pl']['l'] == pl['l'] and s['rv'].get('mut')
               for blk, j, s in body.stmts()):
            return org
        ops = d[2]['rv']['ops']
        n = int(proj[0]['f'])
        if n >= len(ops):
            return org
        src = du.origin(ops[n])
        if len(proj) == 1 and org['k'] == 'place':
            return src
        # deeper projection / discriminant of the field (`(_, _, ProcessState::Running)`): keep the test, rebased on the field's source
        sp = src.get('pl') if src.get('k') == 'place' else ({'l': src['l']} if src.get('k') == 'arg' else None)
        if sp is None:
            return org
        return dict(org, pl={'l': sp['l'], 'p': (sp.get('p') or []) + proj[1:]})

    def state_derived(org):
        org = tuple_field(org)
        if org['k'] == 'arg':
            return org['l'] in copies
        if org['k'] == 'call':
            if Q.callee_is(org['t'], SUSPENDED_TESTS):
                return False
            return any((Q.operand_place(a) or {}).get('l') in copies for a in org['t']['a'])
        if org['k'] in ('discr', 'place'):
            return org['pl']['l'] in copies
        if org['k'] in ('binop', 'unop'):
            return any((Q.operand_place(o) or {}).get('l') in copies for o in (org['rv'].get('a'), org['rv'].get('b'), org['rv'].get('o')) if o)
        return False

    def susp_when(org):
        """'before' / 'after' when org is a call of an is-suspended test that runs before / after every store of Job::state."""
        if org.get('k') != 'call' or not Q.callee_is(org['t'], SUSPENDED_TESTS):
            return None
        cb = org['b']
        if all(body.dominates(w, cb) for w in state_w):
            return 'after'
        if all(body.dominates(cb, w) for w in state_w):
            return 'before'
        return None

    writes = []
    for fld in ('current_job_index', 'previous_job_index'):
        for blk, j, s, kind, f in Q.field_writes(body, JOBLIST, fld):
            writes.append((fld, blk, s))
    cx.require(len(writes) >= 3, 'update_status no longer reselects the current/previous job (found %d writes)' % len(writes))
    for fld, blk, s in writes:
        cs = Q.implied_conditions(F, body, du, blk)
        # what the dominating tests say about Job::is_suspended before / after the state is stored: direct tests of a call result
        # (`if was_suspended`, `if !job.is_suspended()`) give the value of that call, a comparison of two such results
        # (`was_suspended == is_suspended`, `!=`, `^`) relates them; a value follows from the other one through the relation
        known, rel, when_of = {}, [], {}
        for org, lab, e in cs:
            org = tuple_field(org)
            org, lab = Q.peel_not(du, org, lab)
            if not lab or lab[0] != 'bool':
                continue
            if org['k'] == 'call':
                if susp_when(org) is not None:
                    when_of[org['b']] = susp_when(org)
                    known.setdefault(org['b'], set()).add(lab[1])
            elif org['k'] == 'binop' and org['rv'].get('op') in ('Eq', 'Ne', 'BitXor'):
                same = lab[1] if org['rv']['op'] == 'Eq' else not lab[1]
                sides = []
                for o in (org['rv']['a'], org['rv']['b']):
                    so, neg = Q.peel_not(du, du.origin(o), ('bool', True))
                    if not neg[1]:
                        same = not same
                    if so['k'] == 'const' and str(so['o'].get('c')) in ('true', 'false'):
                        sides.append(('const', str(so['o'].get('c')) == 'true'))
                    elif susp_when(so) is not None:
                        when_of[so['b']] = susp_when(so)
                        sides.append(('call', so['b']))
                if len(sides) == 2 and sides[0][0] == 'call' and sides[1][0] == 'call':
                    rel.append((sides[0][1], sides[1][1], same))
                elif len(sides) == 2 and {sides[0][0], sides[1][0]} == {'call', 'const'}:
                    cb = next(v for k, v in sides if k == 'call')
                    cv = next(v for k, v in sides if k == 'const')
                    known.setdefault(cb, set()).add(cv == same)
        for _ in range(len(rel) + 1):
            for a, b, same in rel:
                for x, y in ((a, b), (b, a)):
                    for v in list(known.get(x, ())):
                        known.setdefault(y, set()).add(v == same)
        extra = [org for org, lab, e in cs if state_derived(org)]
        # the test of the updated job is the first one after the state is stored (later ones look at other jobs)
        trans = {}
        for when in ('before', 'after'):
            c = [cb for cb, w2 in when_of.items() if w2 == when]
            first = [cb for cb in c if all(body.dominates(cb, cb2) for cb2 in c)]
            if first and len(known.get(first[0], ())) == 1:
                trans[when] = next(iter(known[first[0]]))
        cx.site('%s: write of %s at %s under suspended-before=%s, suspended-after=%s, state-specific tests: %d'
                % (body.fn, fld, body.loc(s), trans.get('before'), trans.get('after'), len(extra)))
        if trans.get('before') is None or trans.get('after') is None or trans['before'] == trans['after']:
            cx.violation(fn, 'reselect-not-on-transition:%s' % fld, 'the %s is changed without testing that the job went from suspended to not '
                         'suspended or back (Job::is_suspended before and after the state is stored)' % fld, loc=body.loc(s))
        if extra:
            cx.violation(fn, 'reselect-state-specific:%s' % fld, 'the reselection of the %s additionally depends on which state the job '
                         'went to (a test on the `state` argument): a suspended current/previous job that is killed or exits (not '
                         '"Running") is not replaced, so %%+ / %%- designate a dead job while suspended jobs exist' % fld, loc=body.loc(s))


# --- explanation addendum (generated catalogue in DESIGN.md reads RS.explanation)
RS.explanation += ' Added later: whether update_status reselects the current/previous job depends only on the suspended/not-suspended transition of the job (R5).'


@RS.rule('C12.R3b', 'K-ORDER', 'insert with a process ID that is already listed behaves as remove + insert: the old job is removed (with the '
         'reselection that removal implies) BEFORE the current/previous job are looked at for the new job')
def r3b(cx):
    F = cx.F
    fn = JL + 'insert'
    body = F.inlined(F.body(fn), accept=lambda n: n.startswith(JL) and (F.fns.get(n) or {}).get('vis') != 'pub')
    cx.fn(body.fn)
    removes = Q.find_calls(body, [JL + 'remove'])
    looks = Q.find_calls(body, [JL + 'current_job', JL + 'previous_job'])
    cx.require(looks, 'insert no longer looks at the current/previous job (anchor moved)')
    inplace = [(b, t) for b, t in Q.find_calls(body, ['<slab::Slab<T> as core::ops::index::IndexMut<usize>>::index_mut'])]
    du = Q.DefUse(body)
    # "not listed yet" edges: the None edge of the lookup of the pid
    absent = set()
    for u in body.live_blocks():
        ec = Q.edge_condition(F, body, du, u)
        if ec and ec[0]['k'] == 'discr':
            src = Q.value_source(body, du, {'cp': {'l': ec[0]['pl']['l']}})
            if src is not None and Q.callee_is(src, [JL + 'find_by_pid', re.compile(r'HashMap::<K, V, S, A>::(get|remove|contains_key)$')]):
                for tgt, labs in ec[1].items():
                    if set(labs) == {('variant', 'None')}:
                        absent.add((u, tgt))
    ok = bool(removes) and all(body.shortest_path(0, {lb}, removed={rb for rb, _ in removes}, removed_edges=absent) is None for lb, _ in looks)
    cx.site('%s: JobList::remove x%d before the look at current/previous job: %s; in-place overwrite of a slot x%d' % (body.fn, len(removes), ok, len(inplace)))
    if not ok:
        cx.violation(fn, 'same-pid-overwritten-in-place', 'a job whose process ID is already listed (the kernel reused the pid of a finished, not yet '
                     'reported job) overwrites the old job\'s slot in place: the old job keeps its current/previous role and the new-job reselection '
                     'runs on top of it - insert(pid 10 running), insert(pid 20 stopped), insert(pid 20 stopped) leaves two jobs and NO previous '
                     'job (`%-`: job not found); the documentation of insert says the existing job is removed', loc=body.loc(looks[0][1]))


@RS.rule('C12.R6', 'K-GUARD', 'a job number is an unsigned decimal: `%+1` / `%+` followed by digits is not job 1 (str::parse accepts a leading `+`)')
def r6(cx):
    F = cx.F
    fn = 'yash_env::job::id::parse_tail'
    body = F.body(fn)
    cx.fn(body.fn)
    du = Q.DefUse(body)
    nums = Q.find_aggregates(body, re.compile(r'job::id::JobId(<.*>)?$'), 'JobNumber')
    cx.require(nums, 'parse_tail no longer builds JobId::JobNumber')
    parses = Q.find_calls(body, ['core::str::<impl str>::parse'])
    cx.site('%s: JobId::JobNumber x%d from str::parse x%d' % (body.fn, len(nums), len(parses)))
    if not parses:
        return          # a hand-written digit parser: no sign accepted
    for b, j, s in nums:
        guarded = False
        for org, lab, e in Q.implied_conditions(F, body, du, b):
            if org['k'] == 'call' and re.search(r'::(starts_with|is_ascii_digit|strip_prefix|all|bytes|chars)$', pp.callee(org['t']).split(' ')[0]):
                guarded = True
        if not guarded:
            # a plain scan for any sign/digit test on the text in the function
            guarded = bool(Q.find_calls(body, [re.compile(r'str>::starts_with$|<impl str>::starts_with$|is_ascii_digit$')]))
        cx.site('%s: JobNumber at %s behind a sign/digit test of the text: %s' % (body.fn, body.loc(s), guarded))
        if not guarded:
            cx.violation(fn, 'signed-job-number', 'the text after `%` is handed to str::parse::<NonZeroUsize>, which accepts a leading `+`: `%+1` '
                         'designates job 1 (`jobs %+1`, `kill %+1`, `fg %+1`) although the documented forms are `%n`, `%+` alone and `%name` '
                         '(a name prefix `+1`)', loc=body.loc(s))


from rules.C13 import r7 as _c13_sparse_job_numbers
from engine import Rule
RS.rules.append(Rule('C12.R7', 'K-TAINT', 'job numbers are sparse: the number of jobs is never used as a bound, an index or a validity test for '
                     'job numbers (`%n` is resolved by looking the number up, not by comparing it with the count) - shared with C13.R7',
                     _c13_sparse_job_numbers))
RS.explanation += ' The number of jobs is never used as a bound or validity test for job numbers (R7 = C13.R7).'


# ---------------------------------------------------------------------------------------
# added after seed C13-s6 (a simulator that reuses process IDs) exposed a latent defect of the job list (fix 92c3b60)
@RS.rule('C12.R8', 'K-GUARD', 'a job whose process has terminated keeps its final state: JobList::update_status changes Job::state only behind a '
         'test that the recorded state is still alive (a later report for the same process ID belongs to another process that the '
         'kernel gave the ID to: the shell passes the state of every awaited child, job or not, to the job list)')
def r8(cx):
    F = cx.F
    fn = JOBLIST + '::update_status'
    body = F.body(fn)
    cx.fn(body.fn)
    du = Q.DefUse(body)
    writes = Q.field_writes(body, JOB, 'state')
    cx.require(writes, 'JobList::update_status no longer writes Job::state (anchor moved)')

    def alive_test(org, lab, depth=2):
        if org['k'] == 'call' and Q.callee_is(org['t'], ['yash_env::job::ProcessState::is_alive']):
            return lab == ('bool', True)
        if org['k'] == 'call' and Q.callee_is(org['t'], [re.compile(r'yash_env::job::(Job|ProcessState|ProcessResult)::(is_finished|is_terminated|is_halted)$')]):
            return lab == ('bool', False)
        if org['k'] == 'discr' and 'ProcessState' in (org.get('ty') or ''):
            return lab == ('variant', 'Running')
        if org['k'] == 'discr' and 'ProcessResult' in (org.get('ty') or ''):
            return lab == ('variant', 'Stopped')
        return False

    for w in writes:
        blk = w[0]
        ok = any(alive_test(org, lab) for org, lab, e in Q.implied_conditions(F, body, du, blk))
        cx.site('update_status: Job::state written at %s behind a still-alive test of the recorded state: %s' % (body.loc(w[2]) if len(w) > 2 else body.loc(body.term(blk)), ok))
        if not ok:
            cx.violation(fn, 'finished-job-state-overwritten', 'update_status overwrites the state of a job whose process has already terminated: '
                         'the job stays listed until `wait`/`jobs` reports it, the kernel may give its process ID to a new process meanwhile, '
                         'and the shell reports the state of every awaited child to the job list - `cmd & ...; wait $!` then returns the '
                         'status of an unrelated foreground command', loc=body.loc(w[2]) if len(w) > 2 else None)


RS.explanation += ' A finished job keeps its final state: update_status ignores reports for a terminated job (R8).'


# ---------------------------------------------------------------------------------------
# added after seed C12-b (any_job_but_current "simplified" to Iterator::position)
# A value that COUNTS things (an iteration position, the .0 of enumerate(), count(), len()) is not a job index: job
# indices are slab keys, they keep their value while lower-numbered jobs are removed.  Interprocedural forward taint
# over the MIR of the whole workspace: labels flow through copies, borrows, arithmetic, Option/Result/iterator
# adapters (closures are analysed at their call site with the labels of their captures and arguments), `?`, numeric
# conversions and through workspace functions by summaries (parameter -> return, parameter -> sink).
_CMP_OPS = {'Eq', 'Ne', 'Lt', 'Le', 'Gt', 'Ge', 'Cmp'}
_WRAPPER_ADTS = re.compile(r'^core::(option::Option|result::Result|ops::control_flow::ControlFlow|task::poll::Poll|cmp::Reverse|'
                           r'num::wrapping::Wrapping|num::saturating::Saturating|num::nonzero::NonZero|ops::range::Range\w*)\b')
# calls whose result is (a wrapper of / an iterator over) what went in
_THROUGH = re.compile(
    r'^core::option::Option::<[^>]*>::\w+$|^core::result::Result::<T, E>::\w+$|'
    r'Try>?::branch$|FromResidual(<.*>)?>?::from_residual$|From(<.*>)?>?::from$|Into(<.*>)?>?::into$|'
    r'TryFrom(<.*>)?>?::try_from$|TryInto(<.*>)?>?::try_into$|Clone>?::clone$|ToOwned>?::to_owned$|Deref>?::deref$|DerefMut>?::deref_mut$|'
    r'Borrow(Mut)?(<.*>)?>?::borrow(_mut)?$|AsRef(<.*>)?>?::as_ref$|^core::num::|^core::cmp::(min|max)$|Ord>?::(min|max|clamp)$|'
    r'^core::ops::arith::\w+::\w+$|core::ops::arith::\w+(<.*>)?>::\w+$|^core::bool::<impl bool>::then(_some)?$|^core::convert::identity$|'
    r'^core::mem::(replace|take)$|^core::iter::(once|repeat|successors|from_fn)|^core::ops::range::Range\w*::<Idx>::new$')
_ITER = re.compile(r'(^|[ :])(core::iter::traits::(iterator::Iterator|double_ended::DoubleEndedIterator|collect::IntoIterator))>?::\w+$')
# adapters whose result carries only what the closure returns (the receiver's items are consumed by the closure)
_MAPPERS = re.compile(r'::(map|and_then|map_or|map_or_else|filter_map|find_map|flat_map|then|fold|try_fold|scan|map_while|is_some_and|is_none_or)$')
_COUNT_NAMES = re.compile(r'::(position|rposition|count|len|capacity)$')
_ENUMERATE = re.compile(r'Iterator>?::enumerate$')
_KEY_ITERS = [JL + 'iter', JL + 'iter_mut', S + 'iter', S + 'iter_mut',
              re.compile(r"^<&'a (mut )?(slab::Slab<T>|yash_env::job::JobList) as core::iter::traits::collect::IntoIterator>::into_iter$")]
# every method of the slab that takes a usize takes a key, except the capacity family (which takes a count)
_SLAB_METHOD = re.compile(r'^slab::Slab::<T>::(\w+)$|^<slab::Slab<T> as [^>]*(<usize>)?>::(\w+)$')
_SLAB_TAKES_COUNT = re.compile(r'::(with_capacity|reserve|reserve_exact|shrink_to)$')
# functions of the job list API whose result is documented to be a job index
_INDEX_RETURNING = [JL + 'insert', JL + 'find_by_pid', JL + 'update_status', JL + 'current_job', JL + 'previous_job',
                    "yash_env::job::id::JobId::<'_>::find"]
_INDEX_FIELDS = ('current_job_index', 'previous_job_index')
_VAL = 'val'


def _strip_ref(ty):
    ty = (ty or '').strip()
    m = re.match(r"^&('\w+ )?(mut )?", ty)
    return ty[m.end():] if m and m.end() else ty


def _on_jobs(t):
    return 'yash_env::job::Job' in (t['f'].get('ga') or '') or any('yash_env::job::Job' in x for x in t.get('at', []))


class _CountFlow:
    """labels: (kind, ident, shape); kind 'S' = a count (ident = (what, function, location)), 'K' = a slab key handed out by
    the job slab's own iterator (control: shows that the engine follows the selection code), 'P' = the caller's argument
    number ident.  shape 'val' = the value itself (or a wrapper / iterator of it), ('t', k) = a tuple whose field k is it."""

    def __init__(self, F):
        self.F = F
        self.memo = {}
        self.busy = set()
        self.sources = {}       # (function, what) -> location
        self.sinks = {}         # (function, sink kind) -> location
        self.hits = {}          # (function root, sink kind, label) -> (location, label)
        self.du = {}

    # -- label algebra
    def place_labels(self, body, lab, pl):
        cur = lab.get(pl['l'])
        if not cur:
            return frozenset()
        ty = body.locals[pl['l']].get('ty', '')
        for e in pl.get('p') or []:
            if e == '*':
                ty = _strip_ref(ty)
            elif isinstance(e, dict) and 'f' in e:
                if 'adt' not in e and _strip_ref(ty).startswith('('):
                    cur = frozenset((k, i, _VAL) if sh != _VAL else (k, i, sh) for k, i, sh in cur
                                    if sh == _VAL or sh == ('t', str(e['f'])))
                ty = e.get('ty', '')
            elif isinstance(e, dict) and 'v' in e:
                pass
            else:
                ty = ''
            if not cur:
                break
        return cur

    def op_labels(self, body, lab, o):
        p = Q.operand_place(o)
        return self.place_labels(body, lab, p) if p is not None else frozenset()

    # -- one body
    def analyse(self, fn, init):
        """-> (labels of the return value, [(label, sink kind, function root, location)])"""
        key = (fn, tuple(sorted((k, tuple(sorted(v, key=repr))) for k, v in init.items() if v)))
        if key in self.memo:
            return self.memo[key]
        if key in self.busy or fn not in self.F.bodies:
            return frozenset(), []
        self.busy.add(key)
        body = self.F.bodies[fn]
        du = self.du.get(fn)
        if du is None:
            du = self.du[fn] = Q.DefUse(body)
        lab = {l: frozenset(v) for l, v in init.items() if v}
        hits = {}

        def add(l, new):
            new = frozenset(x for x in new)
            if not new or new <= lab.get(l, frozenset()):
                return False
            ty = body.locals[l].get('ty', '')
            if ty in ('bool', '()', '!'):
                return False
            lab[l] = lab.get(l, frozenset()) | new
            return True

        def sink(labels, kind, node):
            self.sinks.setdefault((body.root, kind), body.loc(node))
            for x in labels:
                if x[2] == _VAL:
                    hits[(x, kind, body.root)] = body.loc(node)

        def index_field(pl):
            proj = (pl or {}).get('p') or []
            if proj and isinstance(proj[-1], dict) and proj[-1].get('adt') == JOBLIST and proj[-1].get('f') in _INDEX_FIELDS:
                return proj[-1]['f']
            return None

        changed = True
        rounds = 0
        while changed and rounds < 40:
            changed = False
            rounds += 1
            for b, j, s in body.stmts():
                if s['k'] != 'assign':
                    continue
                rv = s['rv']
                k = rv['k']
                new = frozenset()
                if k in ('use', 'cast', 'repeat'):
                    new = self.op_labels(body, lab, rv['o'])
                elif k in ('ref', 'rawptr'):
                    new = self.place_labels(body, lab, rv['pl'])
                elif k == 'binop':
                    if rv.get('op') not in _CMP_OPS:
                        new = frozenset(x for o in (rv['a'], rv['b']) for x in self.op_labels(body, lab, o) if x[2] == _VAL)
                elif k == 'unop':
                    if rv.get('op') in ('Neg', 'Not'):
                        new = self.op_labels(body, lab, rv['o'])
                elif k == 'agg':
                    ak = rv.get('ak')
                    if ak == 'tuple':
                        acc = set()
                        for n, o in enumerate(rv['ops']):
                            for x in self.op_labels(body, lab, o):
                                acc.add((x[0], x[1], ('t', str(n))) if x[2] == _VAL else x)
                        new = frozenset(acc)
                    elif ak in ('closure', 'array') or (ak == 'adt' and _WRAPPER_ADTS.search(rv.get('adt') or '')):
                        new = frozenset(x for o in rv['ops'] for x in self.op_labels(body, lab, o))
                    # other aggregates (structs with named roles): a count stored in a struct is a count *of that struct*
                lhs = s['lhs']
                fld = index_field(lhs)
                if fld:
                    sink(new, fld, s)
                elif not lhs.get('p'):
                    changed |= add(lhs['l'], new)
                elif new and not any(isinstance(e, dict) and 'adt' in e and not _WRAPPER_ADTS.search(e['adt']) for e in lhs['p']):
                    changed |= add(lhs['l'], new)
            for b, t in body.calls():
                changed |= self.call(body, du, lab, t, add, sink, index_field, hits)
        res = (lab.get(0, frozenset()), [(x, kind, root, loc) for (x, kind, root), loc in hits.items()])
        self.busy.discard(key)
        self.memo[key] = res
        return res

    def closure_def(self, du, o):
        if 'fn' in o:
            return o['fn'], None
        org = du.origin(o)
        if org.get('k') == 'agg' and org['rv'].get('ak') == 'closure':
            return org['rv'].get('def'), Q.operand_local(o)
        if org.get('k') == 'const' and org['o'].get('fn'):
            return org['o']['fn'], None
        return None, None

    def call(self, body, du, lab, t, add, sink, index_field, hits):
        F = self.F
        names = callee_names_of(t)
        args = t['a']
        al = [self.op_labels(body, lab, a) for a in args]
        dest = t['dest']
        dty = t.get('dty') or ''

        def out(new):
            if dest.get('p'):
                return add(dest['l'], new) if new else False
            return add(dest['l'], new)

        # sinks: the key argument of an accessor of the job slab
        if any(_SLAB_METHOD.search(n) for n in names) and _on_jobs(t) and not any(_SLAB_TAKES_COUNT.search(n) for n in names):
            keyed = [n for n in range(1, len(args)) if _strip_ref((t.get('at') or [''] * len(args))[n]) == 'usize']
            for n in keyed:
                sink(al[n], 'slab-key', t)
            if keyed:
                return False
        # mem::replace / swap on an index field
        if any(n in ('core::mem::replace', 'core::mem::swap') for n in names) and args:
            fld = index_field(_trace_place(du, args[0]))
            if fld:
                sink(al[1] if len(al) > 1 else frozenset(), fld, t)
                return False
        # sources
        if any(_COUNT_NAMES.search(n) for n in names) and re.match(r'^(core::option::Option<)?usize>?$', dty):
            what = [m.group(1) for m in (_COUNT_NAMES.search(n) for n in names) if m][0]
            src = ('S', (what, body.fn, body.loc(t)), _VAL)
            self.sources.setdefault((body.fn, what), body.loc(t))
            return out(frozenset([src]))
        if any(_ENUMERATE.search(n) for n in names):
            self.sources.setdefault((body.fn, 'enumerate'), body.loc(t))
            return out(frozenset([('S', ('enumerate', body.fn, body.loc(t)), ('t', '0'))]))
        if Q.callee_is(t, _KEY_ITERS) and _on_jobs_or_list(t):
            return out(frozenset([('K', ('slab-iter', body.fn, body.loc(t)), ('t', '0'))]))
        # std adapters, wrappers, conversions
        it = any(_ITER.search(n) for n in names)
        if it or any(_THROUGH.search(n) for n in names):
            mapper = any(_MAPPERS.search(n) for n in names)
            new = set()
            fn_args = []
            for n, a in enumerate(args):
                d, cl = self.closure_def(du, a)
                if d is not None and d in F.bodies:
                    fn_args.append((n, d, cl))
            fn_pos = {n for n, _, _ in fn_args}
            plain = [n for n in range(len(args)) if n not in fn_pos]
            recv = [n for n in plain if n == 0] if it else plain
            if not (mapper and fn_args):
                for n in recv:
                    new |= al[n]
            elif mapper:
                for n in plain[1:]:
                    new |= al[n]            # map_or(default, f)
            passed = frozenset(x for n in recv for x in al[n])
            for n, d, cl in fn_args:
                cb = F.bodies[d]
                if cl is not None:       # a closure: environment = the closure value, arguments = what the adapter was given
                    init = {1: al[n]}
                    for p in range(2, cb.argc + 1):
                        init[p] = passed
                else:
                    init = {p: passed for p in range(1, cb.argc + 1)}
                ret, sub = self.analyse(d, init)
                for x, kind, root, loc in sub:
                    hits[(x, kind, root)] = loc
                if cb.locals[0].get('ty') not in ('bool', '()', '!'):
                    new |= ret
            return out(frozenset(new))
        # workspace functions: summaries with placeholders for the arguments
        d = t['f'].get('def')
        if d in F.bodies and not F.bodies[d].d.get('coroutine'):
            cb = F.bodies[d]
            want_ret = 'usize' in dty
            want_args = [n for n in range(min(len(args), cb.argc)) if al[n] and 'usize' in (cb.locals[n + 1].get('ty') or '')]
            if not want_ret and not want_args:
                return False
            init = {n + 1: frozenset([('P', n + 1, _VAL)]) for n in range(cb.argc) if 'usize' in (cb.locals[n + 1].get('ty') or '')}
            ret, sub = self.analyse(d, init)
            new = set()
            for x in ret:
                if x[0] == 'P':
                    if x[1] - 1 < len(al):
                        new |= set(al[x[1] - 1]) if x[2] == _VAL else {(y[0], y[1], x[2]) for y in al[x[1] - 1] if y[2] == _VAL}
                else:
                    new.add(x)
            for x, kind, root, loc in sub:
                if x[0] == 'P':
                    if x[1] - 1 < len(al):
                        # the count takes the role of a job index HERE, where it is passed as one
                        for y in al[x[1] - 1]:
                            if y[2] == _VAL:
                                hits[(y, kind, body.root)] = body.loc(t)
                # labels that are not placeholders were reported when the callee itself was analysed
            return out(frozenset(new)) if want_ret else False
        return False


def callee_names_of(t):
    return Q.callee_names(t)


def _on_jobs_or_list(t):
    return _on_jobs(t) or any('yash_env::job::JobList' in x for x in t.get('at', [])) or Q.callee_is(t, [JL + 'iter', JL + 'iter_mut'])


@RS.rule('C12.R9', 'K-TAINT', 'a value that counts things is never a job index: no iteration position (Iterator::position / rposition, the .0 of '
         'enumerate()), count() or len() flows into current_job_index / previous_job_index or into the key of an accessor of the job '
         'slab - job indices are slab keys (insert, the key of iter() pairs, pids_to_indices values, parameters) and stay put while '
         'lower-numbered jobs are removed')
def r9(cx):
    F = cx.F
    cx.require(JL + 'remove' in F.bodies and JL + 'update_status' in F.bodies, 'JobList::remove / update_status not found')
    for f in _INDEX_FIELDS:
        cx.require(any(fl['name'] == f and fl['ty'] == 'usize' for v in F.adt(JOBLIST)['variants'] for fl in v['fields']),
                   'JobList::%s is no longer a usize field' % f)
    for fn in _INDEX_RETURNING:
        cx.require(fn in F.bodies, 'index-returning function of the job list API not found: %s' % fn)
    eng = _CountFlow(F)
    found = {}
    for fn, body in F.bodies.items():
        init = {}
        if body.kind == 'fn' or '{closure' not in fn:
            init = {n: frozenset([('P', n, _VAL)]) for n in range(1, body.argc + 1) if 'usize' in (body.locals[n].get('ty') or '')}
        ret, hits = eng.analyse(fn, init)
        for x, kind, root, loc in hits:
            if x[0] != 'P':
                found[(x, kind, root)] = loc
        if fn in _INDEX_RETURNING:
            eng.sinks.setdefault((fn, 'returned-index'), '%s:%s' % (body.file, body.line))
            for x in ret:
                if x[0] != 'P' and x[2] == _VAL:
                    found[(x, 'returned-index', fn)] = '%s:%s' % (body.file, body.line)
    # what was looked at
    n_field = n_key = 0
    for (root, kind), loc in sorted(eng.sinks.items()):
        cx.fn(root)
        cx.site('%s: job index consumed (%s) at %s' % (root, kind, loc))
        if kind in _INDEX_FIELDS:
            n_field += 1
        elif kind == 'slab-key':
            n_key += 1
    cx.floor(n_field, 6, '(function, field) pairs writing current_job_index / previous_job_index')
    cx.floor(n_key, 6, 'functions passing a key to an accessor of the job slab')
    in_job = [(fn, what, loc) for (fn, what), loc in sorted(eng.sources.items()) if fn.startswith('yash_env::job::') or fn.startswith('<yash_env::job::')]
    cx.floor(len(in_job), 2, 'counting calls (len / count / position / enumerate) in yash_env::job recognised as sources')
    cx.floor(len(eng.sources), 40, 'counting calls in the workspace recognised as sources')
    for fn, what, loc in in_job:
        cx.site('%s: %s() at %s yields a count, not a job index' % (fn, what, loc))
    # positive control: the engine follows the real selection code - the key of the slab iterator's pairs, through the
    # filter/map/next (or loop) of the private finders, unwrap_or / unwrap_or_else and their closures, into the index fields
    control = sorted((root, kind, loc, x[1]) for (x, kind, root), loc in found.items() if x[0] == 'K')
    for root, kind, loc, src in control:
        cx.site('control: the slab key from %s (%s) reaches %s in %s at %s' % (src[1], src[2], kind, root, loc))
    # (JobList::remove or a helper of JobList it calls: the reselection may be extracted)
    removal = {JL + 'remove'}
    grew = True
    while grew:
        grew = False
        for r in list(removal):
            for b in F.by_root.get(r, []):
                for blk, t in b.calls():
                    d = t['f'].get('def')
                    if d and d.startswith(JL) and d in F.bodies and F.bodies[d].root not in removal:
                        removal.add(F.bodies[d].root)
                        grew = True
    cx.require(any(kind in _INDEX_FIELDS and root in removal for root, kind, loc, src in control),
               'the flow engine no longer follows the slab iterator key into the previous/current job index in JobList::remove '
               '(the selection code changed shape: review rules/C12.py R9)')
    cx.sample({'sources': len(eng.sources), 'sinks': len(eng.sinks), 'bodies': len(F.bodies), 'control_flows': len(control)})
    for (x, kind, root), loc in sorted(found.items(), key=repr):
        if x[0] != 'S':
            continue
        what, sfn, sloc = x[1]
        where = ('JobList::%s' % kind if kind in _INDEX_FIELDS else 'the key of a job slab accessor' if kind == 'slab-key' else
                 'returned to the callers as the index of a job')
        cx.violation(root, 'count-as-job-index:%s:%s' % (kind, what),
                     'the result of %s() in %s (%s) - a number that counts iterations/elements - is used as a job index (%s): it equals the '
                     'job\'s index only while no lower job number is vacant; after a lower-numbered job has been removed it designates '
                     'another job or a vacant slot (e.g. %%- / the previous job "not found" although two jobs exist, or the wrong job is '
                     'resumed/waited for)' % (what, sfn, sloc, where), loc=loc)


RS.explanation += (' No count (Iterator::position/rposition, enumerate().0, count(), len()) ever flows into current_job_index / previous_job_index '
                   'or into the key of a job slab accessor, followed through helpers, closures and Option/iterator adapters (R9).')


# ---------------------------------------------------------------------------------------
# added after the audit C12h4
@RS.rule('C12.R8b', 'K-GUARD', 'a subshell never rewrites a job it inherited: after disown_all the entries of the parent stay in the table for '
         'listing only - the subshell is not their parent, so a wait() answer for the same process ID belongs to a child of the subshell that '
         'the kernel gave the ID to: JobList::update_status changes Job::state only behind a test that the job is owned (sibling of R8)')
def r8b(cx):
    F = cx.F
    fn = JOBLIST + '::update_status'
    body = F.inlined(F.body(fn))
    cx.fn(body.fn)
    du = Q.DefUse(body)
    writes = Q.field_writes(body, JOB, 'state')
    cx.require(writes, 'JobList::update_status no longer writes Job::state (anchor moved)')
    cx.require(any(f['name'] == 'is_owned' for v in F.adts[JOB]['variants'] for f in v['fields']), 'Job has no field is_owned any more')

    def owned_test(org, lab):
        org, lab = Q.peel_not(du, org, lab)
        if org['k'] == 'place' and any(isinstance(e, dict) and e.get('f') == 'is_owned' and e.get('adt') == JOB for e in org['pl'].get('p') or []):
            return lab == ('bool', True)
        return False
    for w in writes:
        blk = w[0]
        ok = any(owned_test(org, lab) for org, lab, e in Q.implied_conditions(F, body, du, blk))
        cx.site('update_status: Job::state written at %s behind an is_owned test: %s' % (body.loc(w[2]), ok))
        if not ok:
            cx.violation(fn, 'disowned-job-state-overwritten', 'update_status overwrites the state of a job the (sub)shell does not own: in a subshell '
                         'the inherited entries stay Running for ever, so when such a process has died and a child of the subshell gets the same '
                         'process ID, the wait() answer for that child changes the inherited entry (state, state_changed, even current job)',
                         loc=body.loc(w[2]))


@RS.rule('C12.R10', 'K-PASS+K-SIBLING', 'a job that has just been suspended becomes the current job (docs/src/interactive/job_control.md; update_status does so '
         'for a listed job that stops): where the foreground-wait code records a stopped process as a new job, every path from JobList::insert '
         'to a return passes set_current_job on the index insert returned - insert alone leaves `%+` on an older job when two jobs are '
         'already suspended, and a bare `fg` resumes the wrong command')
def r10(cx):
    F = cx.F
    n = 0
    STOP_TEST = [re.compile(r'job::(ProcessResult|ProcessState)::is_stopped$')]

    def known_stopped(body, du, blk):
        conds = Q.implied_conditions(F, body, du, blk)
        return any((org['k'] == 'call' and Q.callee_is(org['t'], STOP_TEST) and lab == ('bool', True))
                   or (org['k'] == 'discr' and 'ProcessResult' in (org.get('ty') or '') and lab == ('variant', 'Stopped'))
                   for org, lab, e in conds)

    def only_called_when_stopped(root):
        """The insertion was extracted into a private helper of yash_env::job that F.inlined does not splice (generic, takes a closure):
        the helper is the recorder when it is called at least once and every call of it - all inside yash_env::job - sits on a
        "the process result is Stopped" edge of its caller."""
        info = F.fns.get(root)
        if info is None or info.get('vis') == 'pub' or info.get('async'):
            return False
        sites = F.callers_of(lambda names, t: root in names)
        kept = 0
        for cb, cblk, ct in sites:
            if cb.crate != 'yash_env' or not cb.root.startswith('yash_env::job::') or cb.root == root:
                return False
            cbody = F.inlined(F.main_body(cb.root))
            if cbody.fn != cb.fn:
                # the call is inside a closure of the caller: decide it in that body as it stands
                cbody = cb
            cdu = Q.DefUse(cbody)
            calls = Q.find_calls(cbody, [root])
            if not calls:
                continue        # spliced into this caller by F.inlined: the insertion is examined in place there
            if not all(known_stopped(cbody, cdu, b) for b, t in calls):
                return False
            kept += 1
        return kept > 0

    def in_scope(b):
        return b.crate == 'yash_env' and b.root.startswith('yash_env::job::') and not b.root.startswith(JOBLIST)

    cands = [b0 for b0, blk0, t0 in F.callers_of(lambda names, t: JOBLIST + '::insert' in names) if in_scope(b0)]
    # the functions of yash_env::job that reach the insertion through a private helper of the module (F.inlined splices the helper
    # into them, so the insertion is examined in place under their tests)
    helpers = {b0.root for b0 in cands if b0.fn == b0.root and (F.fns.get(b0.root) or {}).get('vis', 'pub') != 'pub'}
    if helpers:
        cands += [cb for cb, cblk, ct in F.callers_of(lambda names, t: any(h in names for h in helpers)) if in_scope(cb)]
    seen = set()
    for b0 in cands:
        if b0.root in seen:
            continue
        seen.add(b0.root)
        body = F.inlined(F.main_body(b0.root))
        du = Q.DefUse(body)
        via_helper = None
        for blk, t in Q.find_calls(body, [JOBLIST + '::insert']):
            # only insertions of a job known to be stopped (the recorder of a suspended foreground command)
            if not known_stopped(body, du, blk):
                if via_helper is None:
                    via_helper = b0.fn == b0.root and only_called_when_stopped(b0.root)
                if not via_helper:
                    continue
            n += 1
            cx.fn(body.fn)
            idx = Q.forward_taint(body, {t['dest']['l']})
            setters = {sb for sb, st in Q.find_calls(body, [JOBLIST + '::set_current_job'])
                       if any((Q.operand_place(a) or {}).get('l') in idx for a in st['a'][1:])}
            p = Q.must_pass(body, [t['to']], setters) if t.get('to') is not None else None
            cx.site('%s: stopped job inserted at %s%s; made the current job on every path: %s'
                    % (body.root, body.loc(t), ' (private helper, called only for a stopped process)' if via_helper else '', p is None and bool(setters)))
            if not setters or p is not None:
                cx.violation(body.root, 'suspended-job-not-made-current', '%s records a just-suspended foreground command with JobList::insert only: '
                             'with two jobs already suspended the new job gets neither `%%+` nor `%%-`, so `fg` / `bg` without operand and `%%%%` '
                             'act on an older job (the manual: "When a job is suspended, it becomes the current job")' % body.root,
                             loc=body.loc(t), path=Q.render_path(body, p) if p else None)
    cx.floor(n, 1, 'recorders of a suspended foreground command')


RS.explanation += ' update_status changes the state of owned jobs only (R8b); a just-suspended foreground job is made the current job (R10).'


# ---------------------------------------------------------------------------------------
# added after seed C12-s9 (update_status returns early, before the re-selection, when the new state is the expected one)
_REPORT_ONLY_FIELDS = ('expected_state', 'state_changed')


@RS.rule('C12.R11', 'K-PASS+K-GUARD', 'update_status: every report for a listed, owned, live job REACHES the re-selection step - every path from the '
         'entry (and from the write of Job::state) to a return passes a branch on Job::is_suspended of the updated job evaluated after the '
         'state is stored, except over the reviewed "pid not listed / process already terminated / job not owned" exits (R8, R8b); and no test '
         'that the re-selection writes depend on reads Job::expected_state / Job::state_changed (they only decide whether the change is reported)')
def r11(cx):
    F = cx.F
    fn = JL + 'update_status'
    body = F.inlined(F.body(fn))
    cx.fn(body.fn)
    du = Q.DefUse(body)
    fw = Q.field_writes(body, JOB, 'state')
    cx.require(fw, 'JobList::update_status no longer writes Job::state (anchor moved)')
    direct = [w for w in fw if w[3] == 'assign'] or fw
    state_w = sorted({w[0] for w in direct})

    def plain_def(l):
        """The one definition of the local itself (stores through it, `(*l).f = ..`, do not redefine it)."""
        ds = [d for d in du.defs.get(l, []) if ((d[2].get('lhs') or d[2].get('dest')).get('p') or [None])[0] != '*']
        return ds[0] if len(ds) == 1 and Q.is_plain(ds[0][2].get('lhs') or ds[0][2].get('dest')) else None

    def resolve(p):
        """Follow a place through single-definition copies / moves / (re)borrows (as _trace_place, for locals that are also stored through)."""
        for _ in range(24):
            if p is None or (1 <= p['l'] <= body.argc):
                return p
            proj = list(p.get('p') or [])
            d = plain_def(p['l'])
            if d is None or d[1] == 't' or d[2]['k'] != 'assign':
                return p
            rv = d[2]['rv']
            if rv['k'] == 'use' and Q.operand_place(rv['o']) is not None:
                q = Q.operand_place(rv['o'])
                p = {'l': q['l'], 'p': list(q.get('p') or []) + proj}
            elif rv['k'] == 'ref' and proj and proj[0] == '*':
                p = {'l': rv['pl']['l'], 'p': list(rv['pl'].get('p') or []) + proj[1:]}
            elif rv['k'] == 'ref' and not proj:
                p = {'l': rv['pl']['l'], 'p': list(rv['pl'].get('p') or [])}
            else:
                return p
        return p

    def base_of(place):
        """The job a place denotes: the place without its trailing Job field projections, followed through copies and reborrows."""
        place = resolve(place)
        proj = list(place.get('p') or [])
        while proj and isinstance(proj[-1], dict) and 'f' in proj[-1] and proj[-1].get('adt') == JOB:
            proj.pop()
        return {'l': place['l'], 'p': proj}

    def strip_deref(p):
        """Identity of the job a resolved place denotes: the element of the job list a `jobs[i]` / `self[i]` borrow was taken of (by the key,
        so that a second borrow with the same key is the same job), else the place itself."""
        if p is None:
            return None
        proj = list(p.get('p') or [])
        while proj and proj[-1] == '*':
            proj.pop()
        if not proj:
            d = plain_def(p['l'])
            if d is not None and d[1] == 't' and len(d[2]['a']) == 2 and Q.callee_is(d[2], [re.compile(r'ops::index::Index(Mut)?<usize>>::index(_mut)?$')]):
                k = Q.operand_place(d[2]['a'][1])
                k = resolve(k) if k is not None else None
                if k is not None:
                    return ('element', k['l'], repr(k.get('p') or []))
        return (p['l'], repr(proj))
    jobs_written = {strip_deref(base_of(w[2]['lhs'] if w[3] == 'assign' else w[2]['rv']['pl'])) for w in direct}
    jobs_written.discard(None)
    cx.require(jobs_written, 'the job whose state update_status writes cannot be identified')

    # --- the re-selection step: a branch on "is the updated job suspended now" (after every store of its state)
    switch_locals = {}
    for b in body.live_blocks():
        t = body.term(b)
        if t['k'] == 'switch':
            l = Q.operand_local(t['d'])
            if l is not None:
                switch_locals.setdefault(l, []).append(b)
    step = set()
    for blk, t in Q.find_calls(body, SUSPENDED_TESTS):
        if not t['a'] or not all(body.dominates(w, blk) for w in state_w):
            continue
        rp = Q.operand_place(t['a'][0])
        if rp is None:
            continue
        if strip_deref(base_of(rp)) not in jobs_written:
            continue
        branched = Q.forward_taint(body, {t['dest']['l']}, through_calls=[]) & set(switch_locals)
        cx.site('%s: is-suspended test of the updated job after the state is stored at %s, branched on: %s' % (body.fn, body.loc(t), bool(branched)))
        if branched:
            step.add(blk)

    # --- the reviewed exits: edges on which nothing is updated by design
    def reviewed(org, lab, depth=3):
        org, lab = Q.peel_not(du, org, lab)
        if org['k'] == 'place' and Q.is_plain(org['pl']) and lab and lab[0] == 'bool' and depth:
            # a materialised `let ok = alive && owned; if !ok { return None }`: the flag has the tested value only where a constant of that
            # value is stored on a reviewed edge, or where a reviewed test with that value is stored
            defs = du.defs.get(org['pl']['l'], [])
            if len(defs) < 2 or not all(d[1] != 't' and d[2]['k'] == 'assign' and Q.is_plain(d[2]['lhs']) and d[2]['rv']['k'] == 'use' for d in defs):
                return False
            why = []
            for blk, j, st in defs:
                o = st['rv']['o']
                if 'cp' not in o and 'mv' not in o:
                    c = str(o.get('c'))
                    if c not in ('true', 'false', 'const true', 'const false'):
                        return False
                    if c.endswith('true') != lab[1]:
                        continue
                    why.append(next((r for r in (reviewed(o2, l2, depth - 1) for o2, l2, e in Q.dominating_conditions(F, body, du, blk)) if r), False))
                else:
                    why.append(reviewed(du.origin(o), lab, depth - 1))
            return bool(why) and all(why) and ' / '.join(sorted(set(why)))
        if org['k'] == 'call' and Q.callee_is(org['t'], ['yash_env::job::ProcessState::is_alive']):
            return lab == ('bool', False) and 'process already terminated'
        if org['k'] == 'call' and Q.callee_is(org['t'], [re.compile(r'yash_env::job::(Job|ProcessState|ProcessResult)::(is_finished|is_terminated|is_halted)$')]):
            return lab == ('bool', True) and 'process already terminated'
        if org['k'] == 'place' and any(isinstance(e, dict) and e.get('f') == 'is_owned' and e.get('adt') == JOB for e in org['pl'].get('p') or []):
            return lab == ('bool', False) and 'job not owned'
        if org['k'] == 'discr' and lab in (('variant', 'Break'), ('variant', 'None')):
            src = Q.value_source(body, du, {'cp': {'l': org['pl']['l']}})
            if src is not None and Q.callee_is(src, [JL + 'find_by_pid', H + 'get']):
                return 'pid not listed'
        return False
    exits = {}
    for u in sorted(body.live_blocks()):
        if body.term(u)['k'] != 'switch' or any(body.dominates(w, u) for w in state_w):
            continue
        ec = Q.edge_condition(F, body, du, u)
        if ec is None:
            continue
        org, labels = ec
        for v, labs in labels.items():
            why = [reviewed(org, lab) for lab in labs]
            if why and all(why):
                exits[(u, v)] = why[0]
    for (u, v), why in sorted(exits.items()):
        cx.site('%s: reviewed exit edge "%s" at %s' % (body.fn, why, body.loc(body.term(u))))

    def feasible_path(starts, through, removed_edges=()):
        """A path from a start block to a return that avoids `through`, or None.  Two branches on the same single-definition bool (a call
        result or a comparison computed once: `if !was && now {..} else if was && !now {..}` tests `was` twice) are taken consistently."""
        from collections import deque

        def key_of(u):
            ec = Q.edge_condition(F, body, du, u)
            if ec is None:
                return None, None
            org, labels = ec
            out = {}
            key = None
            for v, labs in labels.items():
                vals = set()
                for lab in labs:
                    o2, l2 = Q.peel_not(du, org, lab)
                    if not l2 or l2[0] != 'bool' or o2.get('k') not in ('call', 'binop') or o2.get('b') is None:
                        return None, None
                    if not body.dominates(o2['b'], u):
                        return None, None
                    key = (o2['k'], o2['b'], id(o2.get('t') or o2.get('rv')))
                    vals.add(l2[1])
                out[v] = vals
            return key, out
        goals = set(body.return_blocks())
        for s0 in starts:
            if s0 in through:
                continue
            st0 = (s0, ())
            prev = {st0: None}
            q = deque([st0])
            while q:
                b, kn = q.popleft()
                if b in goals:
                    path, cur = [], (b, kn)
                    while cur is not None:
                        path.append(cur[0])
                        cur = prev[cur]
                    return path[::-1]
                known = dict(kn)
                key, targets = key_of(b) if body.term(b)['k'] == 'switch' else (None, None)
                for v in body.succ(b):
                    if v in through or (b, v) in removed_edges:
                        continue
                    kn2 = known
                    if key is not None and v in targets and len(targets[v]) == 1:
                        val = next(iter(targets[v]))
                        if known.get(key, val) != val:
                            continue
                        kn2 = dict(known)
                        kn2[key] = val
                    st = (v, tuple(sorted(kn2.items())))
                    if st not in prev:
                        prev[st] = (b, kn)
                        q.append(st)
        return None

    if not step:
        cx.violation(fn, 'no-reselection-step', 'update_status never branches on Job::is_suspended of the updated job after storing the new state: '
                     'the current/previous job is not re-selected when a job is suspended or resumed', loc=body.loc(direct[0][2]))
    else:
        p = feasible_path(state_w, step)
        if p is not None:
            cx.violation(fn, 'reselection-skipped:after-state-write', 'update_status can return after storing the new state of the job without reaching the '
                         're-selection of the current/previous job: when the current job is resumed (e.g. by `bg`, which announces the Running '
                         'state with JobRefMut::expect) while another job is suspended, `%+` keeps designating the running job',
                         loc=body.loc(body.term(p[-1])), path=Q.render_path(body, p))
        p = feasible_path([0], step, set(exits))
        if p is not None and not any(b in state_w for b in p):
            cx.violation(fn, 'reselection-skipped:before-state-write', 'update_status can return for a listed, owned, live job without storing the reported '
                         'state and re-selecting the current/previous job (only "pid not listed", "process already terminated" and "job not owned" '
                         'are reviewed reasons to ignore a report)', loc=body.loc(body.term(p[-1])), path=Q.render_path(body, p))

    # --- the re-selection does not depend on the report-only fields
    def reads_flag(p):
        return p is not None and any(isinstance(e, dict) and e.get('f') in _REPORT_ONLY_FIELDS and e.get('adt') == JOB for e in p.get('p') or [])
    tainted = set()
    changed = True
    while changed:
        changed = False
        for i, j, s in body.stmts():
            if s['k'] != 'assign' or s['lhs'].get('p') or s['lhs']['l'] in tainted:
                continue
            if any(reads_flag(p) or (p['l'] in tainted and p['l'] > body.argc) for p in Q.rvalue_places(s['rv'])):
                tainted.add(s['lhs']['l'])
                changed = True
        for i, t in body.calls():
            if t['dest'].get('p') or t['dest']['l'] in tainted:
                continue
            if any(reads_flag(Q.operand_place(a)) or ((Q.operand_place(a) or {}).get('l') in tainted) for a in t['a']):
                tainted.add(t['dest']['l'])
                changed = True
    n = 0
    for fld in _INDEX_FIELDS:
        for blk, j, s, kind, f in Q.field_writes(body, JOBLIST, fld):
            n += 1
            bad = sorted({e[0] for org, lab, e in Q.dominating_conditions(F, body, du, blk)
                          if Q.operand_local(body.term(e[0])['d']) in tainted})
            cx.site('%s: write of %s at %s; dominating tests that read expected_state / state_changed: %d' % (body.fn, fld, body.loc(s), len(bad)))
            if bad:
                cx.violation(fn, 'reselect-depends-on-report-flag:%s' % fld, 'whether the %s is re-selected depends on Job::expected_state / '
                             'Job::state_changed: a state change that was announced with JobRefMut::expect (bg, fg) still suspends or resumes the '
                             'job, so `%%+` / `%%-` must be re-selected all the same' % fld, loc=body.loc(body.term(bad[0])))
    cx.require(n >= 3, 'update_status no longer reselects the current/previous job (found %d writes)' % n)


RS.explanation += (' Every report for a listed, owned, live job reaches the re-selection step of update_status, and the re-selection does not depend on '
                   'expected_state / state_changed (R11).')
